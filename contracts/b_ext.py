"""Bounded contract checks ("bounded stand-ins") for C07 / C09 / C08.

  bounded_refactorings(tier)        C07  refactorings documented as function preserving
  bounded_extensions(tier)          C09  model extensions implement the documented formula
  bounded_structural_setters(tier)  C08  structural setters: detectable, idempotent, reversible, total

bounded_refactorings also covers (a) code generation + read back of models into which a re-assignment of
an already assigned symbol was inserted (reassign_variant) and (b) pharmpy's expression extractors and numeric
evaluators against direct evaluation and central finite differences (run_evaluator_case), on synthetic $PRED
models with up to 12 (16) covariates and 4 (6) etas.  bounded_extensions also covers error-model setters on
models with two dependent variables (_run_error_dv) and sequences n -> m of set_transit_compartments
(_run_transit: number of transit compartments, rate n/MDT i.e. mean transit time MDT, detector).

Appended later (after the existing cases, whose form and order are unchanged): bounded_refactorings: the
refactorings that look at the random variables (replace_non_random_rvs, cleanup_model, ...) over every OMEGA
structure on three etas (synth_omega_model: blocks estimated / FIX with covariances that are exactly 0 / 0 FIX)
and on pheno / moxo with a fixed joint distribution whose covariances are 0; the extractors and evaluators on
$PRED models with etas on the IOV level (synth_pred_model with occasions), including that the population
(individual) prediction expression does not depend on etas (epsilons).  bounded_extensions: sequences of two
covariate effects on the same parameter (_run_cov2: every ordered pair of operations and effect kinds, compared
with the documented composition); add_iiv / remove_iiv on statements with an exponential of a sum, an
intermediate statement or a re-assignment (models with IOV or an exponential covariate effect).

Appended in a later round (again after the existing cases): bounded_refactorings: models whose compartmental
system has a zero-order input (PD, TMDD, set_zero_order_input) with the in-memory refactorings, rename_symbols
over every symbol of the compartmental system of every variant, initial conditions A_X(0) compared.
bounded_structural_setters: MFL statement lists turned into feature functions (run_mfl_case: key sets and the
transformation behind every key against the setter call the key names).  bounded_extensions: add_allometry
when a subset of the parameters is skipped (exponent and bounds per parameter), remove_iov with an explicit eta
list after sequences of add_iov calls (_run_remove_iov_sel).

All three evaluate the REAL pharmpy functions over an exhaustively enumerated finite domain and compare
with an independent reference that lives in this file: a per-statement numeric interpreter of a model
(`eval_model`), which walks the statements in order, looks symbols up in an environment of inputs
(parameters, etas, epsilons, data columns, t, compartment amounts A_x(t)) and never calls pharmpy's
own full_expression / evaluators; a numeric signature of the compartmental system read from the graph;
a matrix-exponential reference solution of linear compartmental systems; documented covariate-effect
templates written out by hand; dataset statistics computed with numpy from the raw columns.

Labelled bounded, never counted as proved.
"""
import warnings

warnings.filterwarnings('ignore')

import itertools
import math
import multiprocessing
import os
import traceback

import numpy as np
import sympy
from sympy.core.function import AppliedUndef

_PM = None


def pm():
    """pharmpy.modeling, imported lazily (and quietly)"""
    global _PM
    if _PM is None:
        import pharmpy.modeling as _pm

        _PM = _pm
    return _PM


# ----------------------------------------------------------------------------------------------
# reference interpreter
# ----------------------------------------------------------------------------------------------

class Undefined(Exception):
    pass


def _sp(e):
    """pharmpy Expr / BooleanExpr / str / number -> sympy"""
    if hasattr(e, '_sympy_'):
        return e._sympy_()
    return sympy.sympify(e)


def _sname(e):
    """name of an assignment target: 'CL' for a symbol, 'A_CENTRAL' for the function A_CENTRAL(t)"""
    s = _sp(e)
    if isinstance(s, sympy.Symbol):
        return s.name
    if isinstance(s, AppliedUndef):
        return s.func.__name__
    raise Undefined(f'unsupported assignment target {s!r}')


def _tonum(v):
    if isinstance(v, (int, np.integer)):
        return sympy.Integer(int(v))
    if isinstance(v, (float, np.floating)):
        f = float(v)
        if math.isnan(f) or math.isinf(f):
            return sympy.nan
        if f == int(f) and abs(f) < 1e9:
            return sympy.Integer(int(f))
        return sympy.Float(f)
    if isinstance(v, complex):
        if v.imag == 0:
            return _tonum(v.real)
        return sympy.Float(v.real) + sympy.I * sympy.Float(v.imag)
    return sympy.sympify(v)


def num(expr, env):
    """numeric value of an expression in the environment env: name -> python number"""
    e = _sp(expr)
    rep = {}
    for a in e.atoms(AppliedUndef):
        k = a.func.__name__
        if k not in env:
            raise Undefined(f'undefined function symbol {a}')
        rep[a] = _tonum(env[k])
    for a in e.atoms(sympy.Symbol):
        if a.name in env:
            rep[a] = _tonum(env[a.name])
    e2 = e.xreplace(rep)
    if e2.free_symbols:
        names = sorted(s.name for s in e2.free_symbols)
        raise Undefined(f'undefined symbol(s) {names}')
    if e2.atoms(AppliedUndef):
        raise Undefined(f'undefined function symbol(s) {sorted(map(str, e2.atoms(AppliedUndef)))}')
    try:
        v = complex(sympy.N(e2, 17))
    except (TypeError, ValueError):
        if e2 in (sympy.zoo, sympy.nan, sympy.oo, -sympy.oo):
            return float('nan')
        raise Undefined(f'not numeric: {e2!r}')
    if v.imag == 0:
        return v.real
    return v


def _isbad(v):
    if isinstance(v, complex):
        return True
    return math.isnan(v) or math.isinf(v)


def close(a, b, rtol=1e-8, atol=1e-11):
    if _isbad(a) or _isbad(b):
        return False
    return abs(a - b) <= atol + rtol * max(abs(a), abs(b))


def ode_signature(cs, env):
    """numeric description of a compartmental system read directly from its graph"""
    from pharmpy.model import Bolus, Infusion, Compartment

    comps = {}
    flows = {}
    for c in cs._g.nodes:
        if not isinstance(c, Compartment):
            continue
        doses = []
        for d in c.doses:
            if isinstance(d, Bolus):
                doses.append(('bolus', d.admid, num(d.amount, env), None, None))
            elif isinstance(d, Infusion):
                doses.append(('infusion', d.admid, num(d.amount, env),
                              None if d.rate is None else num(d.rate, env),
                              None if d.duration is None else num(d.duration, env)))
            else:
                doses.append((type(d).__name__, d.admid, None, None, None))
        doses.sort(key=lambda x: (x[0], x[1]))
        comps[c.name] = {'doses': doses, 'lag': num(c.lag_time, env), 'bio': num(c.bioavailability, env),
                         'input': num(c.input, env), 'amount': _sname(c.amount)}
    for u, v, d in cs._g.edges(data=True):
        dst = v.name if isinstance(v, Compartment) else 'OUTPUT'
        flows[(u.name, dst)] = num(d['rate'], env)
    return {'comps': comps, 'flows': flows}


def _same_num(a, b):
    if a is None or b is None:
        return a is None and b is None
    return close(a, b)


def sig_rename(sig, cmap):
    """rename the compartments of a signature (cmap: old name -> new name)"""
    if sig is None or not cmap:
        return sig
    comps = {cmap.get(n, n): c for n, c in sig['comps'].items()}
    flows = {(cmap.get(u, u), cmap.get(v, v)): r for (u, v), r in sig['flows'].items()}
    return {'comps': comps, 'flows': flows}


def cs_structure(model):
    """(compartment name -> (amount function name, number of doses), set of (src, dst) edges) or None"""
    from pharmpy.model import Compartment

    cs = model.statements.ode_system
    if cs is None:
        return None
    comps = {c.name: (_sname(c.amount), len(c.doses)) for c in cs._g.nodes if isinstance(c, Compartment)}
    edges = set()
    for u, v in cs._g.edges():
        edges.add((u.name, v.name if isinstance(v, Compartment) else 'OUTPUT'))
    return comps, edges


def compartment_bijections(st0, st1, limit=24):
    """candidate renamings of compartments (name in model 0 -> name in model 1) that preserve the graph
    shape and the number of doses per compartment; the identity comes first when the names agree"""
    if st0 is None or st1 is None:
        return [{}]
    c0, e0 = st0
    c1, e1 = st1
    if set(c0) == set(c1):
        return [{}]
    if len(c0) != len(c1) or len(c0) > 6:
        return [{}]
    n0 = sorted(c0)
    out = []
    for perm in itertools.permutations(sorted(c1)):
        cmap = dict(zip(n0, perm))
        if any(c0[a][1] != c1[b][1] for a, b in cmap.items()):
            continue
        full = dict(cmap)
        full['OUTPUT'] = 'OUTPUT'
        if {(full[u], full[v]) for u, v in e0} != e1:
            continue
        out.append(cmap)
        if len(out) >= limit:
            break
    return out or [{}]


def sig_diff(s1, s2):
    """None if two signatures agree (compartments matched by name), else a description"""
    if s1 is None or s2 is None:
        if s1 is None and s2 is None:
            return None
        return 'one model has a compartmental system, the other has none'
    if set(s1['comps']) != set(s2['comps']):
        return f"compartments {sorted(s1['comps'])} vs {sorted(s2['comps'])}"
    for n, c1 in s1['comps'].items():
        c2 = s2['comps'][n]
        if len(c1['doses']) != len(c2['doses']):
            return f"doses of {n}: {c1['doses']} vs {c2['doses']}"
        for d1, d2 in zip(c1['doses'], c2['doses']):
            if d1[0] != d2[0] or d1[1] != d2[1] or not all(_same_num(x, y) for x, y in zip(d1[2:], d2[2:])):
                return f"dose of {n}: {d1} vs {d2}"
        for k in ('lag', 'bio', 'input'):
            if not close(c1[k], c2[k]):
                return f"{k} of {n}: {c1[k]!r} vs {c2[k]!r}"
    nz1 = {k: v for k, v in s1['flows'].items() if not (not _isbad(v) and v == 0)}
    nz2 = {k: v for k, v in s2['flows'].items() if not (not _isbad(v) and v == 0)}
    if set(nz1) != set(nz2):
        return f"flows {sorted(nz1)} vs {sorted(nz2)}"
    for k in nz1:
        if _isbad(nz1[k]) and _isbad(nz2[k]):
            continue    # undefined in both models at this point (e.g. division by a volume that is 0 there)
        if not close(nz1[k], nz2[k]):
            return f"rate {k[0]}->{k[1]}: {nz1[k]!r} vs {nz2[k]!r}"
    return None


def ode_reference_amounts(sig, t):
    """amounts at time t after ONE dose event at time 0 (every bolus dose given once at time 0) for a
    linear system with constant rates: A(t) = expm(K (t - lag)) F dose.  Independent of sympy.dsolve."""
    names = sorted(sig['comps'])
    idx = {n: i for i, n in enumerate(names)}
    n = len(names)
    K = np.zeros((n, n))
    for (u, v), r in sig['flows'].items():
        K[idx[u], idx[u]] -= r
        if v != 'OUTPUT':
            K[idx[v], idx[u]] += r
    out = np.zeros(n)
    for name, c in sig['comps'].items():
        for d in c['doses']:
            if d[0] != 'bolus':
                raise Undefined('reference solution only for bolus doses')
            tt = t - c['lag']
            if tt < 0:
                continue
            a0 = np.zeros(n)
            a0[idx[name]] = d[2] * c['bio']
            out += _expm(K * tt) @ a0
    return {sig['comps'][nm]['amount']: float(out[idx[nm]]) for nm in names}


def _expm(M):
    # scaling and squaring with a Taylor series: small matrices, modest norms
    nrm = np.linalg.norm(M, 1)
    s = max(0, int(math.ceil(math.log2(nrm))) + 4) if nrm > 0 else 0
    A = M / (2 ** s)
    E = np.eye(M.shape[0])
    term = np.eye(M.shape[0])
    for k in range(1, 40):
        term = term @ A / k
        E = E + term
    for _ in range(s):
        E = E @ E
    return E


_NO_BRANCH = sympy.Float(-7.25e77)


def _initial_condition_key(symbol):
    """'A_X(0)' for an assignment target A_X(<number>) (initial condition of a compartment amount), else None"""
    s = _sp(symbol)
    if isinstance(s, AppliedUndef) and s.args and all(a.is_number for a in s.args):
        return f"{s.func.__name__}({','.join(str(a) for a in s.args)})"
    return None


def _is_initial_condition_name(name):
    return isinstance(name, str) and name.endswith(')') and '(' in name


def eval_model(model, point, amounts='input'):
    """walk the statements in order.  Returns (defined: name -> value of its LAST assignment,
    signature of the compartmental system or None, env at the end).
    amounts='input': A_x(t) are free inputs taken from `point`;
    amounts='ode'  : A_x(t) come from the reference solution of the compartmental system at point['t']"""
    from pharmpy.model import Assignment, CompartmentalSystem

    # inputs a model may read: its own parameters, random variables, data columns, t and the amounts of
    # its own compartmental system -- a value for any other name in `point` is not visible to it
    declared = set(model.parameters.names) | set(model.random_variables.names) | set(model.datainfo.names)
    declared.add('t')
    cs = model.statements.ode_system
    if cs is not None:
        declared |= {_sname(c.amount) for c in cs._g.nodes if hasattr(c, 'amount')}
    env = {k: v for k, v in point.items() if k in declared}
    defined = {}
    sig = None
    for s in model.statements:
        if isinstance(s, Assignment):
            ic = _initial_condition_key(s.symbol)
            if ic is not None:
                # A_X(0) = expr: the initial condition of a compartment amount, not a value of A_X(t)
                defined[ic] = num(s.expression, env)
                continue
            k = _sname(s.symbol)
            e = _sp(s.expression)
            if isinstance(e, sympy.Piecewise) and e.args[-1][1] != sympy.true:
                # a conditional assignment without otherwise branch (IF (cond) X = ... in abbreviated code):
                # when no condition holds the assignment is not executed and X keeps its value; a variable
                # that was never assigned is 0 in NM-TRAN abbreviated code
                v = num(sympy.Piecewise(*e.args, (_NO_BRANCH, True)), env)
                if v == float(_NO_BRANCH):
                    v = env.get(k, 0.0)
            else:
                v = num(e, env)
            env[k] = v
            defined[k] = v
        elif isinstance(s, CompartmentalSystem):
            sig = ode_signature(s, env)
            if amounts == 'ode':
                am = ode_reference_amounts(sig, env['t'])
                env.update(am)
                defined.update(am)
        else:
            raise Undefined(f'unknown statement type {type(s).__name__}')
    return defined, sig, env


# ----------------------------------------------------------------------------------------------
# grid of input points
# ----------------------------------------------------------------------------------------------

_FACT = [0.7, 1.3, 1.0, 0.85, 1.2, 1.1, 0.6, 1.45, 0.95, 1.05, 0.8, 1.25]
_OFFS = [0.013, -0.007, 0.0, 0.004, -0.011, 0.009, 0.002, -0.003, 0.006, -0.005, 0.001, 0.008]
_TIMES = [0.5, 1.75, 0.0, 3.0, 12.0, 24.5, 0.25, 7.0, 2.0, 48.0, 5.5, 1.0]
_SYNTH = [3, 8, 1, 0, 5, 2]


def _pval(p, i, k):
    init = float(p.init)
    if p.fix:
        return init
    lo, up = float(p.lower), float(p.upper)
    f = _FACT[(i + k) % len(_FACT)]
    o = _OFFS[(2 * i + k) % len(_OFFS)]
    for v in (init * f + o, init * f, init + o, init):
        if lo < v < up and (v != 0 or init == 0):
            return v
    return init


def zero_variance_rvs(model):
    """names of random variables whose variance is a parameter fixed to 0 (or literally 0)"""
    out = set()
    pars = {p.name: p for p in model.parameters}
    for dist in model.random_variables:
        var = dist.variance
        names = dist.names
        if len(names) == 1:
            diag = [var]
        else:
            diag = [var[i, i] for i in range(len(names))]
        for n, v in zip(names, diag):
            sv = _sp(v)
            if sv == 0:
                out.add(n)
            elif isinstance(sv, sympy.Symbol) and sv.name in pars and pars[sv.name].fix \
                    and float(pars[sv.name].init) == 0:
                out.add(n)
    return out


def data_rows(model, K):
    """K rows of the dataset chosen at evenly spaced positions (deterministic) or None"""
    df = model.dataset
    if df is None or len(df) == 0:
        return None
    n = len(df)
    pos = [(j * (n - 1)) // max(1, K - 1) for j in range(K)]
    return [df.iloc[p] for p in pos]


def make_points(model, K):
    """K input points for a model: name -> number"""
    from pharmpy.model import CompartmentalSystem

    rows = data_rows(model, K)
    zero = zero_variance_rvs(model)
    pts = []
    cs = model.statements.ode_system
    amount_names = []
    if cs is not None:
        amount_names = sorted(_sname(c.amount) for c in cs._g.nodes if hasattr(c, 'amount'))
    # amounts assigned explicitly (solved systems)
    for s in model.statements:
        if not isinstance(s, CompartmentalSystem) and isinstance(_sp(s.symbol), AppliedUndef):
            if _sname(s.symbol) not in amount_names:
                amount_names.append(_sname(s.symbol))
    for k in range(K):
        pt = {}
        for i, p in enumerate(model.parameters):
            pt[p.name] = _pval(p, i, k)
        for i, n in enumerate(model.random_variables.names):
            if n in zero:
                pt[n] = 0.0
            else:
                sign = -1.0 if (i + k) % 2 else 1.0
                pt[n] = sign * (0.05 + 0.07 * ((i + 2 * k) % 5) + 0.003 * i)
        for j, col in enumerate(model.datainfo.names):
            if rows is not None and col in rows[k].index:
                v = rows[k][col]
                try:
                    v = float(v)
                except (TypeError, ValueError):
                    v = float(_SYNTH[(k + j) % len(_SYNTH)])
                if math.isnan(v):
                    v = 0.0
                pt[col] = v
            else:
                pt[col] = float(_SYNTH[(k + j) % len(_SYNTH)])
        pt['t'] = _TIMES[k % len(_TIMES)]
        for i, a in enumerate(amount_names):
            pt[a] = 0.0 if k % 6 == 3 else 10.0 + 3.1 * i + 7.3 * k
        pts.append(pt)
    return pts


def rename_point(pt, ren):
    return {ren.get(k, k): v for k, v in pt.items()}


# ----------------------------------------------------------------------------------------------
# models: example models and variants reached by one transformation (named, so a case can be replayed)
# ----------------------------------------------------------------------------------------------

_MODEL_CACHE = {}


def base_model(name):
    """example model; moxo's $DATA file is not shipped, so the shipped moxo.csv (same columns) is attached"""
    if name not in _MODEL_CACHE:
        m = pm().load_example_model(name)
        if m.dataset is None and name == 'moxo':
            import pandas as pd
            import pharmpy

            p = os.path.join(os.path.dirname(pharmpy.__file__), 'internals', 'example_models', 'moxo.csv')
            m = m.replace(dataset=pd.read_csv(p).astype('float64'))
        _MODEL_CACHE[name] = m
    return _MODEL_CACHE[name]


def _variants():
    P = pm()
    return {
        'none': lambda m: m,
        'add_peripheral_compartment': lambda m: P.add_peripheral_compartment(m),
        'set_first_order_absorption': lambda m: P.set_first_order_absorption(m),
        'set_zero_order_absorption': lambda m: P.set_zero_order_absorption(m),
        'set_michaelis_menten_elimination': lambda m: P.set_michaelis_menten_elimination(m),
        'set_transit_compartments_2': lambda m: P.set_transit_compartments(m, 2),
        'add_lag_time': lambda m: P.add_lag_time(m),
        'remove_lag_time': lambda m: P.remove_lag_time(m),
        'add_bioavailability': lambda m: P.add_bioavailability(m),
        'set_proportional_error_model': lambda m: P.set_proportional_error_model(m),
        'set_combined_error_model': lambda m: P.set_combined_error_model(m),
        'set_power_on_ruv': lambda m: P.set_power_on_ruv(m),
        'add_covariate_effect_CL_APGR_exp': lambda m: P.add_covariate_effect(m, 'CL', 'APGR', 'exp'),
        'add_covariate_effect_CL_APGR_cat': lambda m: P.add_covariate_effect(m, 'CL', 'APGR', 'cat'),
        'add_iov_FA1': lambda m: P.add_iov(m, 'FA1'),
        'remove_iov': lambda m: P.remove_iov(m),
        'transform_etas_boxcox': lambda m: P.transform_etas_boxcox(m),
        'create_joint_distribution': lambda m: P.create_joint_distribution(m),
        'split_joint_distribution': lambda m: P.split_joint_distribution(m),
        'fix_second_theta': lambda m: P.fix_parameters(m, [P.get_thetas(m).names[1]]),
        'fix_all_thetas': lambda m: P.fix_parameters(m, P.get_thetas(m).names),
        'fix_last_iiv_omega_to_0': lambda m: P.fix_parameters_to(
            m, {[_sp(d.variance).name for d in m.random_variables.iiv if len(d.names) == 1][-1]: 0}),
        'fix_last_iov_omega_to_0': lambda m: P.fix_parameters_to(
            m, {[_sp(d.variance).name for d in m.random_variables.iov if len(d.names) == 1][-1]: 0}),
        'add_unused_parameter': lambda m: P.add_population_parameter(m, 'FOOUNUSED', 1.5),
        'add_iiv_S1': lambda m: P.add_iiv(m, 'S1', 'exp'),
        'add_allometry': lambda m: P.add_allometry(m, allometric_variable='WGT'),
        # joint distributions with positive variances in which every covariance is fixed to exactly 0
        # joint distributions with positive variances in which every covariance is fixed to exactly 0 (a block
        # of a NONMEM model can only be fixed as a whole: the variances are fixed to their values)
        'fix_covariances_to_0': lambda m: P.fix_parameters_to(m, _blocks_with_zero_covariances(m)),
        'joint_fix_covariances_to_0': lambda m: (lambda j: P.fix_parameters_to(
            j, _blocks_with_zero_covariances(j)))(P.create_joint_distribution(m, individual_estimates=None)),
        'add_iiv_S1_0_fix_joint_fix_covariances_to_0': lambda m: (lambda j: P.fix_parameters_to(
            j, _blocks_with_zero_covariances(j)))(P.fix_parameters_to(P.add_iiv(P.create_joint_distribution(
                m, individual_estimates=None), 'S1', 'exp'), {'IIV_S1': 0})),
        # compartmental systems in which a compartment has a zero-order input (Compartment.input): PD and TMDD
        # models, set_zero_order_input with an expression of an individual parameter and a covariate / of a
        # theta (estimated or fixed) that occurs nowhere else
        'add_effect_compartment_linear': lambda m: P.add_effect_compartment(m, 'linear'),
        'add_effect_compartment_emax': lambda m: P.add_effect_compartment(m, 'emax'),
        'add_effect_compartment_sigmoid': lambda m: P.add_effect_compartment(m, 'sigmoid'),
        'add_indirect_effect_linear_production': lambda m: P.add_indirect_effect(m, 'linear', True),
        'add_indirect_effect_linear_degradation': lambda m: P.add_indirect_effect(m, 'linear', False),
        'add_indirect_effect_emax_production': lambda m: P.add_indirect_effect(m, 'emax', True),
        'add_indirect_effect_sigmoid_degradation': lambda m: P.add_indirect_effect(m, 'sigmoid', False),
        'set_tmdd_full': lambda m: P.set_tmdd(m, 'full'),
        'set_tmdd_ib': lambda m: P.set_tmdd(m, 'ib'),
        'set_tmdd_cr': lambda m: P.set_tmdd(m, 'cr'),
        'set_tmdd_crib': lambda m: P.set_tmdd(m, 'crib'),
        'set_tmdd_qss': lambda m: P.set_tmdd(m, 'qss'),
        'set_tmdd_wagner': lambda m: P.set_tmdd(m, 'wagner'),
        'set_tmdd_mmapp': lambda m: P.set_tmdd(m, 'mmapp'),
        'set_zero_order_input_parameter': lambda m: P.set_zero_order_input(
            m, m.statements.ode_system.central_compartment.name, f'CL*{_weight_column(m)}/10'),
        'set_zero_order_input_theta': lambda m: P.set_zero_order_input(
            P.add_population_parameter(m, 'POP_RIN', 0.5, lower=0.0),
            m.statements.ode_system.central_compartment.name, f'POP_RIN*{_weight_column(m)}'),
        'set_zero_order_input_fixed_theta': lambda m: P.set_zero_order_input(
            P.add_population_parameter(m, 'POP_RIN', 0.5, fix=True),
            m.statements.ode_system.central_compartment.name, f'POP_RIN*{_weight_column(m)}'),
    }


def _weight_column(model):
    for c in ('WGT', 'WT'):
        if c in model.datainfo.names:
            return c
    raise ValueError('no weight column')


def _blocks_with_zero_covariances(model):
    """parameter name -> value for the joint distributions of the IIV etas: variances as they are,
    covariances 0"""
    out = {}
    for d in model.random_variables.iiv:
        n = len(d.names)
        if n > 1:
            for i in range(n):
                for j in range(i + 1):
                    name = _sp(d.variance[i, j]).name
                    out[name] = float(model.parameters[name].init) if i == j else 0
    return out


_BASE_VARIANTS_QUICK = [
    ('pheno', ['none', 'add_peripheral_compartment', 'set_first_order_absorption',
               'set_zero_order_absorption', 'set_michaelis_menten_elimination',
               'set_transit_compartments_2', 'add_lag_time', 'add_bioavailability',
               'set_combined_error_model', 'set_power_on_ruv',
               'add_covariate_effect_CL_APGR_exp', 'add_covariate_effect_CL_APGR_cat', 'add_iov_FA1',
               'transform_etas_boxcox', 'create_joint_distribution', 'fix_second_theta',
               'fix_all_thetas', 'fix_last_iiv_omega_to_0', 'add_unused_parameter', 'add_iiv_S1']),
    ('pheno_linear', ['none', 'add_unused_parameter']),
    ('moxo', ['none', 'add_peripheral_compartment', 'remove_lag_time', 'set_zero_order_absorption',
              'split_joint_distribution', 'fix_second_theta', 'fix_last_iiv_omega_to_0',
              'fix_last_iov_omega_to_0', 'set_combined_error_model', 'remove_iov', 'add_unused_parameter']),
]


# models with joint distributions in which a covariance is fixed to exactly 0 (variances positive); appended
# after the cases of _BASE_VARIANTS_QUICK, with the refactorings that look at the random variables
_BASE_VARIANTS_OMEGA = [
    ('pheno', ['joint_fix_covariances_to_0', 'add_iiv_S1_0_fix_joint_fix_covariances_to_0']),
    ('moxo', ['fix_covariances_to_0']),
]
_OMEGA_REFACTORINGS = {
    'quick': ('replace_non_random_rvs', 'cleanup_model', 'remove_unused_parameters_and_rvs',
              'split_joint_distribution', 'mu_reference_model'),
    'thorough': ('replace_non_random_rvs', 'cleanup_model', 'remove_unused_parameters_and_rvs',
                 'split_joint_distribution', 'mu_reference_model', 'make_declarative', 'greekify_model',
                 'create_joint_distribution', 'simplify_expression', 'convert_model_generic'),
}
# models whose compartmental system has a compartment with a zero-order input; appended after the cases above
# with the refactorings that rewrite the statements in memory (substitution into the compartmental system,
# dependency analysis) and rename_symbols over every symbol that occurs in the compartmental system.  (Writing
# NONMEM code for these PD / TMDD models is a different function and not part of this family.)
_INPUT_VARIANTS = {
    'quick': [
        ('pheno', ['add_effect_compartment_linear', 'add_indirect_effect_linear_production',
                   'add_indirect_effect_linear_degradation', 'set_tmdd_full', 'set_tmdd_qss',
                   'set_zero_order_input_parameter', 'set_zero_order_input_theta',
                   'set_zero_order_input_fixed_theta']),
        ('moxo', ['set_zero_order_input_parameter', 'set_zero_order_input_theta']),
    ],
    'thorough': [
        ('pheno', ['add_effect_compartment_linear', 'add_indirect_effect_linear_production',
                   'add_indirect_effect_linear_degradation', 'set_tmdd_full', 'set_tmdd_qss',
                   'set_zero_order_input_parameter', 'set_zero_order_input_theta',
                   'set_zero_order_input_fixed_theta', 'add_effect_compartment_emax',
                   'add_effect_compartment_sigmoid', 'add_indirect_effect_emax_production',
                   'add_indirect_effect_sigmoid_degradation', 'set_tmdd_ib', 'set_tmdd_cr', 'set_tmdd_crib',
                   'set_tmdd_wagner', 'set_tmdd_mmapp']),
        ('moxo', ['set_zero_order_input_parameter', 'set_zero_order_input_theta', 'set_zero_order_input_fixed_theta',
                  'set_tmdd_full', 'set_tmdd_qss', 'set_tmdd_mmapp']),
    ],
}
_INPUT_REFACTORINGS = ('mu_reference_model', 'make_declarative', 'cleanup_model', 'greekify_model',
                       'greekify_model_named', 'remove_unused_parameters_and_rvs', 'replace_fixed_thetas',
                       'replace_non_random_rvs', 'convert_model_generic', 'simplify_expression')


def ode_symbol_names(model):
    """names of the symbols that occur anywhere in the compartmental system (flow rates, zero-order inputs, lag
    times, bioavailabilities, dose amounts / rates / durations) and that a renaming can address: parameters,
    random variables and symbols assigned by the model code (not data columns, not t).  Read from the graph."""
    from pharmpy.model import Compartment

    cs = model.statements.ode_system
    if cs is None:
        return []
    exprs = []
    for c in cs._g.nodes:
        if isinstance(c, Compartment):
            exprs += [c.input, c.lag_time, c.bioavailability]
            for d in c.doses:
                exprs += [getattr(d, a) for a in ('amount', 'rate', 'duration') if getattr(d, a, None) is not None]
    for _, _, d in cs._g.edges(data=True):
        exprs.append(d['rate'])
    names = set()
    for e in exprs:
        names |= {x.name for x in _sp(e).free_symbols}
    ok = set(model.parameters.names) | set(model.random_variables.names) | set(_assigned_names(model))
    return sorted(n for n in names if n in ok and n not in model.datainfo.names and n != 't')


# synthetic $PRED models with inter-occasion variability for the extractors and evaluators: (covariates, etas
# on the IIV level, occasions)
_SYNTH_IOV_BOUNDS = {'quick': ((0, 2), (1, 2, 3), (2, 3)), 'thorough': ((0, 2, 5), (1, 2, 3, 4), (2, 3, 4))}


def variant_model(base, variant):
    key = (base, variant)
    if key not in _MODEL_CACHE:
        if base == 'synth_pred':
            nums = [int(x[3:]) for x in variant.split('_')]           # 'cov10_eta2', 'cov2_eta2_occ3'
            _MODEL_CACHE[key] = synth_pred_model(*nums)
        elif base == 'synth_omega':
            _MODEL_CACHE[key] = synth_omega_model(variant)             # 'd-b2f0'
        elif variant.startswith('reassign:'):
            _, sym, form = variant.split(':')                          # 'reassign:TVCL:pw0'
            _MODEL_CACHE[key] = reassign_variant(base_model(base), sym, form)
        else:
            _MODEL_CACHE[key] = _variants()[variant](base_model(base))
    return _MODEL_CACHE[key]


# -- models with an inserted re-assignment -----------------------------------------------------------
#
# A transformation typically inserts statements into an existing model whose other code is kept as it
# is.  The variants below insert, directly after the last assignment of a symbol X, a new assignment
# of the same symbol (or of a new symbol used by it).  The branch conditions compare a data column with
# thresholds chosen between the values that column takes at the grid points, so that every branch
# (the otherwise branch among them) is reached by some grid point.

_REASSIGN_FORMS = ('pw0', 'pw0c', 'pwself', 'pw1', 'lin', 'new0')
_NOT_COVARIATE_TYPES = ('id', 'idv', 'dv', 'dose', 'ss', 'ii', 'event', 'mdv', 'rate', 'duration')


def branch_column(model):
    """(data column, lower threshold, upper threshold): the first column that is not id / time / dv /
    dosing information and takes >= 3 (else >= 2) distinct values at the quick-tier grid points"""
    pts = make_points(model, _K_QUICK)
    best = None
    for col in model.datainfo:
        if col.type in _NOT_COVARIATE_TYPES or col.name in ('CMT', 'MDV', 'EVID') or col.drop:
            continue
        vals = sorted({pt[col.name] for pt in pts})
        n = len(vals)
        if n >= 3:
            a = (n - 1) // 3
            b = max(a + 1, (2 * (n - 1)) // 3)     # a < b <= n - 2
            lo, hi = round((vals[a] + vals[a + 1]) / 2, 4), round((vals[b] + vals[b + 1]) / 2, 4)
            if vals[a] < lo < vals[a + 1] <= vals[b] < hi < vals[b + 1]:
                return col.name, lo, hi
        if n == 2 and best is None:
            best = (col.name, round((vals[0] + vals[1]) / 2, 4), round(vals[1] + 1.0, 4))
    if best is None:
        raise ValueError('no data column with two values on the grid')
    return best


def reassign_targets(model):
    """symbols assigned by the abbreviated code of the model: every assigned symbol except the amounts
    and F (in a PREDPP model F is defined by PREDPP, not by the code)"""
    return [n for n in _assigned_names(model) if not n.startswith('A_') and n != 'F']


def reassign_variant(model, sym, form):
    from pharmpy.basic import Expr
    from pharmpy.model import Assignment

    col, lo, hi = branch_column(model)
    C = sympy.Symbol(col)
    X = Expr.symbol(sym)
    cexpr = Expr.symbol(col)
    sts = model.statements
    ind = max(i for i, s in enumerate(sts) if isinstance(s, Assignment) and _sname(s.symbol) == sym)
    if form == 'pw0':        # complete definition with the literal 0 as otherwise branch
        new = [Assignment.create(X, Expr.piecewise((X * 1.5, C > lo), (Expr.integer(0), True)))]
    elif form == 'pw0c':     # three branches, no reference to the previous value
        new = [Assignment.create(X, Expr.piecewise((cexpr / hi, C > hi), (Expr.float(0.5), C > lo),
                                                   (Expr.integer(0), True)))]
    elif form == 'pwself':   # conditional update: otherwise the previous value
        new = [Assignment.create(X, Expr.piecewise((X * 1.5, C > lo), (X, True)))]
    elif form == 'pw1':      # non-zero literal as otherwise branch
        new = [Assignment.create(X, Expr.piecewise((X * 2, C > lo), (Expr.integer(1), True)))]
    elif form == 'lin':      # unconditional update
        new = [Assignment.create(X, X * 1.25 + 0.5)]
    elif form == 'new0':     # a new indicator symbol (literal 0 otherwise) used by an update of X
        ind_sym = Expr.symbol(sym + 'IND')
        new = [Assignment.create(ind_sym, Expr.piecewise((Expr.float(1.5), C > lo), (Expr.integer(0), True))),
               Assignment.create(X, X * (1 + ind_sym))]
    else:
        raise ValueError(form)
    out = sts[: ind + 1]
    for a in new:
        out = out + a
    out = out + sts[ind + 1:]
    return model.replace(statements=out)


# -- synthetic $PRED models with many covariates and etas ---------------------------------------------

def synth_pred_model(ncov, neta, nocc=0):
    """$PRED model with `ncov` covariates CV1.. (every one with its own coefficient and its own values in
    the dataset) and `neta` etas (every one entering in its own way), two epsilons; dataset of 3
    individuals x 2 records built here.  The individual prediction has ncov + 1 + neta free symbols.

    nocc > 0: additionally inter-occasion variability on P1 and P2: an occasion column OCC with the values
    1..nocc (max(2, nocc) records per individual), for each of the two parameters one eta per occasion on the
    IOV level ($OMEGA BLOCK(1) followed by BLOCK(1) SAME), selected by IF (OCC.EQ.j) statements"""
    import pandas as pd

    if nocc:
        return _synth_pred_iov_model(ncov, neta, nocc)
    covs = [f'CV{i + 1}' for i in range(ncov)]
    odd = ' + '.join(f'{0.01 * (i + 1):.3f}*{c}' for i, c in enumerate(covs) if i % 2 == 0)
    even = ' + '.join(f'{0.02 * (i + 1):.3f}*{c}' for i, c in enumerate(covs) if i % 2 == 1)
    nth = max(neta, 3)
    lines = [f'COVA = 1 + {odd}' if odd else 'COVA = 1',
             f'COVB = {even}' if even else 'COVB = 0',
             'TVP1 = THETA(1)*COVA',
             'TVP2 = THETA(2)*EXP(-COVB/10)',
             'P1 = TVP1*EXP(ETA(1))',
             'P2 = TVP2 + ETA(2)' if neta >= 2 else 'P2 = TVP2']
    terms = ['P1*EXP(-P2*TIME/10)']
    for k in range(3, nth + 1):
        if k > neta:
            lines.append(f'P{k} = THETA({k})')
        elif k % 2:
            lines.append(f'P{k} = THETA({k})*EXP(ETA({k}))')
        else:
            lines.append(f'P{k} = THETA({k})*(1 + ETA({k})) + 0.3*ETA({k})**2')
        terms.append(f'P{k}*TIME/(TIME + {k})')
    lines.append('IPR = ' + ' + '.join(terms))
    lines.append('Y = IPR + IPR*EPS(1) + EPS(2)')
    code = '$PROBLEM synthetic covariate model\n$DATA synth.csv IGNORE=@\n'
    code += '$INPUT ID TIME DV ' + ' '.join(covs) + '\n$PRED\n' + '\n'.join(lines) + '\n'
    inits = [2.5, 1.5, 0.8, 1.2, 0.6, 0.9, 1.1, 0.7]
    for k in range(nth):
        code += f'$THETA  (0,{inits[k % len(inits)]})\n'
    for k in range(neta):
        code += f'$OMEGA  {0.1 + 0.05 * k:.2f}\n'
    code += '$SIGMA  0.05\n$SIGMA  0.2\n$ESTIMATION METHOD=1 INTERACTION\n'
    m = pm().read_model_from_string(code)
    rows = []
    for i in range(1, 4):
        for r in range(2):
            row = {'ID': i, 'TIME': [0.5, 2.0][r] + 0.25 * i, 'DV': 1.0 + 0.1 * r + 0.01 * i}
            for j, c in enumerate(covs):
                row[c] = 1.0 + ((7 * j + 3 * i) % 11) + 0.25 * j + (0.5 * r if j % 2 else 0.0)
            rows.append(row)
    df = pd.DataFrame(rows, columns=['ID', 'TIME', 'DV'] + covs).astype('float64')
    df['ID'] = df['ID'].astype('int64')
    return m.replace(dataset=df)


def _synth_pred_iov_model(ncov, neta, nocc):
    """synth_pred_model with inter-occasion variability (see there)"""
    import pandas as pd

    covs = [f'CV{i + 1}' for i in range(ncov)]
    odd = ' + '.join(f'{0.01 * (i + 1):.3f}*{c}' for i, c in enumerate(covs) if i % 2 == 0)
    even = ' + '.join(f'{0.02 * (i + 1):.3f}*{c}' for i, c in enumerate(covs) if i % 2 == 1)
    nth = max(neta, 3)
    lines = [f'COVA = 1 + {odd}' if odd else 'COVA = 1',
             f'COVB = {even}' if even else 'COVB = 0',
             'IOVA = 0', 'IOVB = 0']
    for j in range(nocc):
        lines.append(f'IF (OCC.EQ.{j + 1}) IOVA = ETA({neta + 1 + j})')
    for j in range(nocc):
        lines.append(f'IF (OCC.EQ.{j + 1}) IOVB = ETA({neta + nocc + 1 + j})')
    lines += ['TVP1 = THETA(1)*COVA',
              'TVP2 = THETA(2)*EXP(-COVB/10)',
              'P1 = TVP1*EXP(ETA(1) + IOVA)',
              'P2 = TVP2 + ETA(2) + IOVB' if neta >= 2 else 'P2 = TVP2 + IOVB']
    terms = ['P1*EXP(-P2*TIME/10)']
    for k in range(3, nth + 1):
        if k > neta:
            lines.append(f'P{k} = THETA({k})')
        elif k % 2:
            lines.append(f'P{k} = THETA({k})*EXP(ETA({k}))')
        else:
            lines.append(f'P{k} = THETA({k})*(1 + ETA({k})) + 0.3*ETA({k})**2')
        terms.append(f'P{k}*TIME/(TIME + {k})')
    lines.append('IPR = ' + ' + '.join(terms))
    lines.append('Y = IPR + IPR*EPS(1) + EPS(2)')
    code = '$PROBLEM synthetic covariate model with occasions\n$DATA synth.csv IGNORE=@\n'
    code += '$INPUT ID TIME DV OCC ' + ' '.join(covs) + '\n$PRED\n' + '\n'.join(lines) + '\n'
    inits = [2.5, 1.5, 0.8, 1.2, 0.6, 0.9, 1.1, 0.7]
    for k in range(nth):
        code += f'$THETA  (0,{inits[k % len(inits)]})\n'
    for k in range(neta):
        code += f'$OMEGA  {0.1 + 0.05 * k:.2f}\n'
    for init in (0.05, 0.03):
        code += f'$OMEGA  BLOCK(1) {init}\n' + '$OMEGA  BLOCK(1) SAME\n' * (nocc - 1)
    code += '$SIGMA  0.05\n$SIGMA  0.2\n$ESTIMATION METHOD=1 INTERACTION\n'
    m = pm().read_model_from_string(code)
    rows = []
    nrec = max(2, nocc)
    for i in range(1, 4):
        for r in range(nrec):
            row = {'ID': i, 'TIME': [0.5, 2.0, 4.5, 7.0][r % 4] + 0.25 * i, 'DV': 1.0 + 0.1 * r + 0.01 * i,
                   'OCC': r % nocc + 1}
            for j, c in enumerate(covs):
                row[c] = 1.0 + ((7 * j + 3 * i) % 11) + 0.25 * j + (0.5 * r if j % 2 else 0.0)
            rows.append(row)
    df = pd.DataFrame(rows, columns=['ID', 'TIME', 'DV', 'OCC'] + covs).astype('float64')
    df['ID'] = df['ID'].astype('int64')
    return m.replace(dataset=df)


# -- synthetic $PRED models over the structures of the OMEGA matrix --------------------------------------
#
# Three etas (each entering the model in its own way); the OMEGA records are described by a string of
# blocks in order, separated by '-':
#   d        diagonal element, estimated          df   diagonal element, FIX (positive)
#   dz       diagonal element 0 FIX (an eta without variability)
#   b<n>     BLOCK(n), estimated, all covariances non-zero
#   b<n>f<bits>  BLOCK(n) FIX with positive variances; one bit per covariance (2,1),(3,1),(3,2): 1 = non-zero,
#                0 = exactly 0 (band / partially structured fixed blocks)
#   b<n>z    BLOCK(n) FIX with all elements 0 (etas without variability)
# The variances are 0.1, 0.2, 0.3 and the non-zero covariances 0.01, 0.015, 0.02: positive definite for every
# pattern of zeros.

_OMEGA_VAR = (0.1, 0.2, 0.3)
_OMEGA_COV = {(1, 0): 0.01, (2, 0): 0.015, (2, 1): 0.02}


def _omega_block_options(n):
    if n == 1:
        return ['d', 'df', 'dz']
    ncov = n * (n - 1) // 2
    pats = [''.join(b) for b in itertools.product('10', repeat=ncov)]
    return [f'b{n}'] + [f'b{n}f{p}' for p in pats] + [f'b{n}z']


def omega_specs(neta=3):
    """every OMEGA structure on `neta` etas: all compositions into consecutive blocks x all block options"""
    out = []

    def rec(left, acc):
        if left == 0:
            out.append('-'.join(acc))
            return
        for n in range(1, left + 1):
            for o in _omega_block_options(n):
                rec(left - n, acc + [o])
    rec(neta, [])
    out.sort(key=lambda s: (s.count('-') * -1, s))    # diagonal structures first
    return out


def synth_omega_model(spec):
    import pandas as pd

    code = ('$PROBLEM synthetic OMEGA structures\n$DATA synth.csv IGNORE=@\n$INPUT ID TIME DV WGT\n$PRED\n'
            'TVP1 = THETA(1)*(WGT/70)**0.75\n'
            'P1 = TVP1*EXP(ETA(1))\n'
            'P2 = THETA(2) + ETA(2)\n'
            'P3 = THETA(3)*(1 + ETA(3)) + 0.3*ETA(3)**2\n'
            'IPR = P1*EXP(-P2*TIME/10) + P3*TIME/(TIME + 3)\n'
            'Y = IPR + IPR*EPS(1) + EPS(2)\n'
            '$THETA  (0,2.5)\n$THETA  (0,1.5)\n$THETA  (0,0.8)\n')
    pos = 0
    for blk in spec.split('-'):
        if blk[0] == 'd':
            v = _OMEGA_VAR[pos]
            code += {'d': f'$OMEGA  {v}\n', 'df': f'$OMEGA  {v} FIX\n', 'dz': '$OMEGA  0 FIX\n'}[blk]
            pos += 1
            continue
        n = int(blk[1])
        mode = blk[2:3]
        bits = blk[3:]
        pairs = [(i, j) for i in range(n) for j in range(i)]
        vals = []
        for i in range(n):
            for j in range(i + 1):
                if mode == 'z':
                    vals.append('0')
                elif i == j:
                    vals.append(str(_OMEGA_VAR[pos + i]))
                elif mode == 'f' and bits[pairs.index((i, j))] == '0':
                    vals.append('0')
                else:
                    vals.append(str(_OMEGA_COV[(i, j)]))
        code += f'$OMEGA  BLOCK({n})' + (' FIX' if mode in ('f', 'z') else '') + '\n ' + ' '.join(vals) + '\n'
        pos += n
    if pos != 3:
        raise ValueError(spec)
    code += '$SIGMA  0.05\n$SIGMA  0.2\n$ESTIMATION METHOD=1 INTERACTION\n'
    m = pm().read_model_from_string(code)
    rows = []
    for i in range(1, 4):
        for r in range(2):
            rows.append({'ID': i, 'TIME': [0.5, 2.0][r] + 0.25 * i, 'DV': 1.0 + 0.1 * r + 0.01 * i,
                         'WGT': 55.0 + 12.5 * i})
    df = pd.DataFrame(rows, columns=['ID', 'TIME', 'DV', 'WGT']).astype('float64')
    df['ID'] = df['ID'].astype('int64')
    return m.replace(dataset=df)


def _fid(fn):
    mod = fn.__module__
    return 'src/' + mod.replace('.', '/') + '.py:' + fn.__name__


# ----------------------------------------------------------------------------------------------
# (1) refactorings  -- C07
# ----------------------------------------------------------------------------------------------

def _positional_renaming(m0, m1):
    """renaming by position within each kind: i-th theta -> i-th theta, i-th eta -> i-th eta, i-th
    epsilon -> i-th epsilon, (i,j) element of the k-th distribution's covariance -> same element.
    This is the renaming greekify_model / a change of model format declares."""
    P = pm()
    ren = {}
    t0, t1 = list(P.get_thetas(m0).names), list(P.get_thetas(m1).names)
    if len(t0) == len(t1):
        ren.update(zip(t0, t1))
    for sel in ('etas', 'epsilons'):
        r0, r1 = getattr(m0.random_variables, sel), getattr(m1.random_variables, sel)
        if len(r0.names) == len(r1.names):
            ren.update(zip(r0.names, r1.names))
        if len(r0) == len(r1) and all(len(a.names) == len(b.names) for a, b in zip(r0, r1)):
            for a, b in zip(r0, r1):
                n = len(a.names)
                if n == 1:
                    pairs = [(a.variance, b.variance)]
                else:
                    pairs = [(a.variance[i, j], b.variance[i, j]) for i in range(n) for j in range(i + 1)]
                for x, y in pairs:
                    sx, sy = _sp(x), _sp(y)
                    if isinstance(sx, sympy.Symbol) and isinstance(sy, sympy.Symbol):
                        ren.setdefault(sx.name, sy.name)
    return {a: b for a, b in ren.items() if a != b}


def _reparse(m):
    """write the model (and its dataset when it was changed) to a temporary directory and read it back"""
    import shutil
    import tempfile

    d = tempfile.mkdtemp(prefix='b_ext_')
    try:
        path = os.path.join(d, 'm.mod')
        pm().write_model(m, path, force=True)
        r = pm().read_model(path)
        r.dataset  # the dataset decides e.g. the kind of dose: make sure it is read before the files go
        r.statements
        return r
    finally:
        shutil.rmtree(d, ignore_errors=True)


def _refactorings():
    """name -> (function under contract, callable(model, arg) -> (new model, declared renaming))"""
    P = pm()

    def plain(fn, **kw):
        return fn, (lambda m, arg: (fn(m, **kw), {}))

    def greek(named):
        def run(m, arg):
            r = P.greekify_model(m, named_subscripts=named)
            return r, _positional_renaming(m, r)
        return P.greekify_model, run

    def rename(m, arg):
        new = arg + 'QX'
        return P.rename_symbols(m, {arg: new}), {arg: new}

    def joint(m, arg):
        return P.create_joint_distribution(m, rvs=arg, individual_estimates=None), {}

    def split(m, arg):
        return P.split_joint_distribution(m, rvs=arg), {}

    def unload_load(m, arg):
        return P.load_dataset(P.unload_dataset(m)), {}

    def to_generic(m, arg):
        return P.convert_model(m, 'generic'), {}

    def generic_nonmem(m, arg):
        return P.convert_model(P.convert_model(m, 'generic'), 'nonmem'), {}

    def generic_nonmem_reparse(m, arg):
        return _reparse(P.convert_model(P.convert_model(m, 'generic'), 'nonmem')), {}

    def code_reparse(m, arg):
        return _reparse(m), {}

    return {
        'mu_reference_model': plain(P.mu_reference_model),
        'make_declarative': plain(P.make_declarative),
        'cleanup_model': plain(P.cleanup_model),
        'replace_non_random_rvs': plain(P.replace_non_random_rvs),
        'greekify_model': greek(False),
        'greekify_model_named': greek(True),
        'rename_symbols': (P.rename_symbols, rename),
        'remove_unused_parameters_and_rvs': plain(P.remove_unused_parameters_and_rvs),
        'create_joint_distribution': (P.create_joint_distribution, joint),
        'split_joint_distribution': (P.split_joint_distribution, split),
        'replace_fixed_thetas': plain(P.replace_fixed_thetas),
        'unload_load_dataset': (P.load_dataset, unload_load),
        'unload_dataset': plain(P.unload_dataset),
        'convert_model_generic': (P.convert_model, to_generic),
        'convert_model_generic_nonmem': (P.convert_model, generic_nonmem),
        'convert_model_generic_nonmem_reparse': (P.convert_model, generic_nonmem_reparse),
        'model_code_reparse': (type(base_model('pheno')).update_source, code_reparse),
        'solve_ode_system': plain(P.solve_ode_system),
        'simplify_expression': (P.simplify_expression, None),
    }


def _assigned_names(model):
    from pharmpy.model import Assignment

    out = []
    for s in model.statements:
        if isinstance(s, Assignment):
            n = _sname(s.symbol)
            if n not in out:
                out.append(n)
    return out


def _rename_targets(model, tier, variant):
    """symbols to rename, one at a time"""
    pars = list(model.parameters.names)
    rvs = list(model.random_variables.names)
    ass = [n for n in _assigned_names(model) if isinstance(n, str)]
    ass = [n for n in ass if not n.startswith('A_')]
    if tier == 'thorough' or variant == 'none':
        return pars + rvs + ass
    ips = [n for n in ass if n in ('CL', 'V', 'VC', 'KA', 'IPRED')]
    cand = pars[:1] + pars[-1:] + rvs[:1] + rvs[-1:] + ips[:2] + ass[-1:]
    out = []
    for c in cand:
        if c not in out:
            out.append(c)
    return out


def _iiv_eta_groups(model):
    etas = model.random_variables.iiv
    names = [n for n in etas.names]
    return names


def refactoring_cases(tier):
    """exhaustive list of cases in small-first order"""
    cases = []
    for base, variants in _BASE_VARIANTS_QUICK:
        for variant in variants:
            try:
                m = variant_model(base, variant)
            except Exception:
                cases.append({'model': base, 'variant': variant, 'refactoring': 'none', 'arg': None})
                continue
            for r in ('mu_reference_model', 'make_declarative', 'cleanup_model', 'greekify_model',
                      'greekify_model_named', 'remove_unused_parameters_and_rvs', 'replace_fixed_thetas',
                      'unload_dataset', 'unload_load_dataset', 'convert_model_generic',
                      'convert_model_generic_nonmem', 'convert_model_generic_nonmem_reparse',
                      'model_code_reparse', 'simplify_expression', 'split_joint_distribution'):
                cases.append({'model': base, 'variant': variant, 'refactoring': r, 'arg': None})
            for s in _rename_targets(m, tier, variant):
                cases.append({'model': base, 'variant': variant, 'refactoring': 'rename_symbols', 'arg': s})
            iiv = _iiv_eta_groups(m)
            cases.append({'model': base, 'variant': variant, 'refactoring': 'create_joint_distribution',
                          'arg': None})
            if len(iiv) > 2 or tier == 'thorough':
                for pair in itertools.combinations(iiv, 2):
                    cases.append({'model': base, 'variant': variant,
                                  'refactoring': 'create_joint_distribution', 'arg': list(pair)})
            for n in iiv:
                cases.append({'model': base, 'variant': variant, 'refactoring': 'split_joint_distribution',
                              'arg': [n]})
            if m.statements.ode_system is not None:
                cases.append({'model': base, 'variant': variant, 'refactoring': 'solve_ode_system',
                              'arg': None})
    # code generation (and the in-memory refactorings) on models with an inserted re-assignment
    for base in _REASSIGN_BASES[tier]:
        for sym in reassign_targets(base_model(base)):
            for form in _REASSIGN_FORMS:
                for r in _REASSIGN_REFACTORINGS[tier]:
                    cases.append({'model': base, 'variant': f'reassign:{sym}:{form}', 'refactoring': r,
                                  'arg': None})
    # expression extractors and numeric evaluators
    ncovs, netas = _SYNTH_BOUNDS[tier]
    for ncov in ncovs:
        for neta in netas:
            cases.append({'model': 'synth_pred', 'variant': f'cov{ncov}_eta{neta}', 'refactoring': 'evaluators',
                          'arg': None})
    for base in ('pheno_linear', 'pheno', 'moxo'):
        cases.append({'model': base, 'variant': 'none', 'refactoring': 'evaluators', 'arg': None})
    # extractors and evaluators on $PRED models with etas on the IOV level (BLOCK SAME, selected by OCC)
    ncovs, netas, noccs = _SYNTH_IOV_BOUNDS[tier]
    for ncov in ncovs:
        for neta in netas:
            for nocc in noccs:
                cases.append({'model': 'synth_pred', 'variant': f'cov{ncov}_eta{neta}_occ{nocc}',
                              'refactoring': 'evaluators', 'arg': None})
    # refactorings that look at the random variables, over the structures of the OMEGA matrix
    for spec in omega_specs():
        for r in _OMEGA_REFACTORINGS[tier]:
            cases.append({'model': 'synth_omega', 'variant': spec, 'refactoring': r, 'arg': None})
    for base, variants in _BASE_VARIANTS_OMEGA:
        for variant in variants:
            for r in _OMEGA_REFACTORINGS[tier]:
                cases.append({'model': base, 'variant': variant, 'refactoring': r, 'arg': None})
    # compartmental systems with a zero-order input: the in-memory refactorings, and rename_symbols over every
    # symbol that occurs in the compartmental system
    for base, variants in _INPUT_VARIANTS[tier]:
        for variant in variants:
            try:
                m = variant_model(base, variant)
            except Exception:
                cases.append({'model': base, 'variant': variant, 'refactoring': 'none', 'arg': None})
                continue
            for r in _INPUT_REFACTORINGS:
                cases.append({'model': base, 'variant': variant, 'refactoring': r, 'arg': None})
            for s in ode_symbol_names(m):
                cases.append({'model': base, 'variant': variant, 'refactoring': 'rename_symbols', 'arg': s})
    # rename_symbols over the symbols of the compartmental system of the earlier variants, as far as they are
    # not renamed above (thorough tier: every symbol is renamed above)
    for base, variants in _BASE_VARIANTS_QUICK:
        for variant in variants:
            try:
                m = variant_model(base, variant)
            except Exception:
                continue
            done = set(_rename_targets(m, tier, variant))
            for s in ode_symbol_names(m):
                if s not in done:
                    cases.append({'model': base, 'variant': variant, 'refactoring': 'rename_symbols', 'arg': s})
    return cases


_REASSIGN_BASES = {'quick': ('pheno', 'moxo'), 'thorough': ('pheno', 'moxo', 'pheno_linear')}
_REASSIGN_REFACTORINGS = {
    'quick': ('model_code_reparse',),
    'thorough': ('model_code_reparse', 'convert_model_generic_nonmem_reparse', 'convert_model_generic',
                 'make_declarative', 'cleanup_model', 'mu_reference_model', 'greekify_model',
                 'simplify_expression'),
}
_SYNTH_BOUNDS = {'quick': (range(0, 13), range(1, 5)), 'thorough': (range(0, 17), range(1, 7))}


def _observables(model):
    """names whose values define the model function: dependent variables and individual parameters"""
    dvs = [_sname(y) for y in model.dependent_variables]
    try:
        ips = list(pm().get_individual_parameters(model))
    except Exception:
        ips = []
    return dvs, ips


def _variances(model, point):
    """marginal variance value of every random variable at the point (read from the distributions)"""
    out = {}
    for dist in model.random_variables:
        var = dist.variance
        names = dist.names
        if len(names) == 1:
            out[names[0]] = num(var, point)
        else:
            for i, n in enumerate(names):
                out[n] = num(var[i, i], point)
    return out


def _snapshot(model):
    ds = model.dataset
    return (model.statements, model.parameters, model.random_variables,
            None if ds is None else (tuple(ds.columns), ds.shape), model.dependent_variables)


def _ode_is_linear_bolus(model):
    from pharmpy.model import Bolus

    cs = model.statements.ode_system
    if cs is None:
        return False
    amounts = set()
    for c in cs._g.nodes:
        if hasattr(c, 'amount'):
            amounts.add(_sp(c.amount))
            if any(not isinstance(d, Bolus) for d in c.doses):
                return False
            if _sp(c.input) != 0:
                return False
    for u, v, d in cs._g.edges(data=True):
        if _sp(d['rate']).atoms(AppliedUndef) & amounts:
            return False
    return True


def _fixed_variance_rvs(model):
    """random variables whose variance parameter is fixed"""
    out = set()
    pars = {p.name: p for p in model.parameters}
    for dist in model.random_variables:
        names = dist.names
        var = dist.variance
        diag = [var] if len(names) == 1 else [var[i, i] for i in range(len(names))]
        for n, v in zip(names, diag):
            sv = _sp(v)
            if isinstance(sv, sympy.Symbol) and sv.name in pars and pars[sv.name].fix:
                out.add(n)
    return out


def _compare_models(m0, m1, ref, pts, ren, cmap, dvs, ips, solve, ip_must_stay=True):
    """compare the reference evaluation `ref` of m0 with m1 at every point, under the renaming `ren` of
    symbols and the renaming `cmap` of compartments.  Returns [(clause, detail)] (one per clause)."""
    out = []
    seen = set()

    def fail(key, clause, detail):
        if key not in seen:
            seen.add(key)
            out.append((clause, detail))

    am_ren = {}
    st0 = cs_structure(m0)
    st1 = cs_structure(m1)
    if cmap and st0 and st1:
        for a, b in cmap.items():
            am_ren[st0[0][a][0]] = st1[0][b][0]
    full_ren = dict(ren)
    full_ren.update(am_ren)
    # a random variable that only the result has and whose variance is fixed to 0 takes its mean 0
    zero1 = zero_variance_rvs(m1) - set(m0.random_variables.names)
    # a fixed parameter that only the result has: its value is its (fixed) initial estimate
    fixed1 = {p.name: float(p.init) for p in m1.parameters if p.fix and p.name not in m0.parameters.names}
    for k, pt in enumerate(pts):
        d0, sig0, env0 = ref[k]
        if any(_isbad(d0.get(y, float('nan'))) for y in dvs):
            continue
        pt1 = rename_point(pt, full_ren)
        for n in zero1:
            pt1.setdefault(n, 0.0)
        for n, v in fixed1.items():
            pt1.setdefault(n, v)
        try:
            d1, sig1, env1 = eval_model(m1, pt1, 'input')
        except Undefined as e:
            fail('defined', 'every symbol used is defined (parameter, random variable, data column, t, amount '
                 'or earlier assignment)', str(e))
            continue
        for y in dvs:
            y1 = ren.get(y, y)
            if y1 not in d1:
                fail('dvdef', 'dependent variables have the same value at every grid point',
                     f'{y1} is not assigned')
            elif not close(d0[y], d1[y1]):
                fail('dv', 'dependent variables have the same value at every grid point',
                     f'{y}: {d0[y]!r} before, {d1[y1]!r} after, at point {k} {_short_pt(pt)}')
        for p in ips:
            p1 = ren.get(p, p)
            if p not in d0 or _isbad(d0[p]):
                continue
            if p1 not in d1:
                if ip_must_stay:
                    fail('ipdef', 'individual parameters stay defined (up to the declared renaming)',
                         f'{p1} is no longer assigned')
            elif not close(d0[p], d1[p1]):
                fail('ip', 'individual parameters have the same value at every grid point',
                     f'{p}: {d0[p]!r} before, {d1[p1]!r} after, at point {k} {_short_pt(pt)}')
        if not solve:
            # initial conditions A_X(0) = ... of the compartment amounts are part of the ODE system
            for ic, v0 in d0.items():
                if not _is_initial_condition_name(ic) or _isbad(v0):
                    continue
                nm, arg = ic[:-1].split('(', 1)
                ic1 = f'{full_ren.get(nm, nm)}({arg})'
                if ic1 not in d1:
                    fail('icdef', 'initial conditions of the compartment amounts are the same (up to renaming of '
                         'compartments)', f'{ic} = {v0!r} before, no assignment of {ic1} after')
                elif not close(v0, d1[ic1]):
                    fail('ic', 'initial conditions of the compartment amounts are the same (up to renaming of '
                         'compartments)', f'{ic}: {v0!r} before, {d1[ic1]!r} after, at point {k} {_short_pt(pt)}')
            for ic1 in d1:
                if _is_initial_condition_name(ic1) and not _isbad(d1[ic1]) and d1[ic1] != 0:
                    inv = {b: a for a, b in full_ren.items()}
                    nm, arg = ic1[:-1].split('(', 1)
                    if f'{inv.get(nm, nm)}({arg})' not in d0:
                        fail('icnew', 'initial conditions of the compartment amounts are the same (up to renaming '
                             'of compartments)', f'{ic1} = {d1[ic1]!r} after, no such initial condition before')
        if solve:
            for a, v in ode_reference_amounts(sig0, env0['t']).items():
                if a not in d1:
                    fail('amdef', 'closed-form amounts equal the reference solution of the compartmental system',
                         f'{a}(t) is not assigned after solve_ode_system')
                elif not close(v, d1[a], rtol=1e-6, atol=1e-9):
                    fail('am', 'closed-form amounts equal the reference solution of the compartmental system',
                         f'{a}(t): reference {v!r}, closed form {d1[a]!r} at point {k} {_short_pt(pt)}')
            if sig1 is not None:
                fail('odeleft', 'solve_ode_system leaves no compartmental system', 'ode_system still present')
        else:
            diff = sig_diff(sig_rename(sig0, cmap), sig1)
            if diff:
                fail('sig', 'compartmental system is the same (doses, lag time, bioavailability, rates) at every '
                     'grid point, up to renaming of compartments', f'{diff} at point {k}')
        # marginal variances of the random effects
        try:
            v0 = _variances(m0, pt)
            v1 = _variances(m1, pt1)
            for n, val in v0.items():
                n1 = ren.get(n, n)
                if n1 in v1 and not close(val, v1[n1]):
                    fail('var', 'random effects keep their marginal variance',
                         f'var({n}) {val!r} before, {v1[n1]!r} after at point {k}')
        except Undefined as e:
            fail('vardef', 'random effects keep their marginal variance', f'variance not evaluable: {e}')
    return out


_K_QUICK = 6
_K_THOROUGH = 12


# -- expression extractors and numeric evaluators ---------------------------------------------------

_FD_H = 1e-4


def _eta_value(i, k):
    """value of the k-th eta for the i-th individual"""
    sign = -1.0 if (i + k) % 2 else 1.0
    return sign * (0.05 + 0.07 * ((i + 2 * k) % 5) + 0.003 * k)


def run_evaluator_case(case, tier='quick'):
    """pharmpy's expression extractors and numeric evaluators against direct evaluation of the model
    (reference interpreter `eval_model`, statement by statement) and central finite differences of it,
    at K records of the dataset, for the initial estimates and for a second set of parameter values"""
    import pandas as pd

    P = pm()
    K = _K_THOROUGH if tier == 'thorough' else _K_QUICK
    m = variant_model(case['model'], case['variant'])
    tag = f"{case['model']}/{case['variant']} evaluators"
    fails = []
    seen = set()

    def fail(fn, clause, detail):
        key = (_fid(fn), clause)
        if key not in seen:
            seen.add(key)
            fails.append((key[0], clause, f'{tag}: {detail}'))

    df = m.dataset
    n = len(df)
    pos = sorted({(j * (n - 1)) // max(1, K - 1) for j in range(K)})
    sub = df.iloc[pos].reset_index(drop=True)
    idcol = m.datainfo.id_column.name
    ids = list(dict.fromkeys(sub[idcol].tolist()))
    eta_names = list(m.random_variables.etas.names)
    eps_names = list(m.random_variables.epsilons.names)
    zero = zero_variance_rvs(m)
    etas = pd.DataFrame({e: [0.0 if e in zero else _eta_value(i, k) for i in range(len(ids))]
                         for k, e in enumerate(eta_names)}, index=ids)
    y = _sname(list(m.dependent_variables)[0])
    has_ode = m.statements.ode_system is not None
    inits = {p.name: float(p.init) for p in m.parameters}
    other = {p.name: _pval(p, i, 1) for i, p in enumerate(m.parameters)}
    nontriv = False
    cs = m.statements.ode_system
    amount_names = [] if cs is None else sorted(_sname(c.amount) for c in cs._g.nodes if hasattr(c, 'amount'))

    def point(pvals, r, eta_mode, over=None):
        pt = dict(pvals)
        for c in sub.columns:
            try:
                v = float(sub[c].iloc[r])
            except (TypeError, ValueError):
                continue
            pt[c] = 0.0 if math.isnan(v) else v
        for e in eta_names:
            pt[e] = float(etas.loc[sub[idcol].iloc[r], e]) if eta_mode == 'ind' else 0.0
        for e in eps_names:
            pt[e] = 0.0
        # a model with ODE system: only symbols in front of it are compared, the amounts just need a value
        pt['t'] = 1.0
        for a in amount_names:
            pt[a] = 1.0
        if over:
            pt.update(over)
        return pt

    def direct_all(pt):
        """values of all assigned symbols by the reference interpreter"""
        try:
            return eval_model(m, pt)[0]
        except Undefined:
            return {}

    def direct(pt, name):
        return direct_all(pt).get(name, float('nan'))

    def fd(pt, name, wrt):
        up, dn = dict(pt), dict(pt)
        up[wrt] = pt[wrt] + _FD_H
        dn[wrt] = pt[wrt] - _FD_H
        return (direct(up, name) - direct(dn, name)) / (2 * _FD_H)

    def call(fn, *a, **kw):
        try:
            return fn(*a, **kw)
        except Exception as e:
            fail(fn, 'completes without an exception on a valid model', _exc_detail(e))
            return None

    def numexpr(fn, expr, pt):
        try:
            return num(expr, pt)
        except Undefined as e:
            fail(fn, 'the extracted expression only contains parameters, random variables and data columns',
                 str(e))
            return None

    for pname, pvals, parg in (('initial estimates', inits, None), ('second parameter set', other, dict(other))):
        rows = range(len(sub))
        # evaluate_expression: every assigned symbol in front of the ODE system that does not depend on
        # random variables (the dataset has no columns for those)
        from pharmpy.model import Assignment

        names = []
        for s in m.statements.before_odes:
            if isinstance(s, Assignment) and isinstance(_sp(s.symbol), sympy.Symbol) and _sname(s.symbol) not in names:
                names.append(_sname(s.symbol))
        all0 = [direct_all(point(pvals, r, 'zero')) for r in rows]
        all1 = [direct_all(point(pvals, r, 'ind', {e: 0.37 for e in eps_names})) for r in rows]
        for nm in names:
            ref0 = [d.get(nm, float('nan')) for d in all0]
            ref1 = [d.get(nm, float('nan')) for d in all1]
            if any(_isbad(a) or _isbad(b) or not close(a, b) for a, b in zip(ref0, ref1)):
                continue
            got = call(P.evaluate_expression, m, nm, parameter_estimates=parg)
            if got is None:
                continue
            nontriv = True
            for r in rows:
                g = float(got.iloc[pos[r]])
                if not close(ref0[r], g, rtol=1e-9):
                    fail(P.evaluate_expression, 'evaluate_expression equals direct evaluation of the model at every '
                         'data record', f'{nm} at record {pos[r]} ({pname}): direct evaluation {ref0[r]!r}, '
                         f'evaluate_expression {g!r}; {_short_pt(point(pvals, r, "zero"))}')
                    break
        if has_ode:
            # "This function currently only support models without ODE systems"
            continue
        ref_pred = [direct(point(pvals, r, 'zero'), y) for r in rows]
        ref_ipred = [direct(point(pvals, r, 'ind'), y) for r in rows]
        if any(_isbad(v) for v in ref_pred + ref_ipred):
            continue
        nontriv = True
        # extractors: the expressions evaluated with the reference `num`
        pe = call(P.get_population_prediction_expression, m)
        ie = call(P.get_individual_prediction_expression, m)
        ge = call(P.calculate_eta_gradient_expression, m)
        he = call(P.calculate_epsilon_gradient_expression, m)
        for r in rows:
            p0, p1 = point(pvals, r, 'zero'), point(pvals, r, 'ind')
            # the same record with non-zero values for the random variables the prediction does not depend on
            p1e = point(pvals, r, 'ind', {e: 0.37 - 0.11 * j for j, e in enumerate(eps_names)})
            if pe is not None:
                v = numexpr(P.get_population_prediction_expression, pe, p0)
                if v is not None and not close(ref_pred[r], v, rtol=1e-9):
                    fail(P.get_population_prediction_expression, 'population prediction expression equals direct '
                         'evaluation of the model with etas and epsilons 0',
                         f'record {pos[r]} ({pname}): direct {ref_pred[r]!r}, expression {v!r}')
                v = numexpr(P.get_population_prediction_expression, pe, p1e)
                if v is not None and not close(ref_pred[r], v, rtol=1e-9):
                    fail(P.get_population_prediction_expression, 'population prediction expression does not depend '
                         'on etas (of any variability level) and epsilons: for every value of them it equals direct '
                         'evaluation of the model with etas and epsilons 0',
                         f'record {pos[r]} ({pname}): direct evaluation with etas and epsilons 0 {ref_pred[r]!r}, '
                         f'expression {v!r} at etas { {e: p1e[e] for e in eta_names} }, epsilons '
                         f'{ {e: p1e[e] for e in eps_names} }; random variables in the expression: '
                         f'{sorted(x.name for x in _sp(pe).free_symbols if x.name in eta_names + eps_names)}')
            if ie is not None:
                v = numexpr(P.get_individual_prediction_expression, ie, p1)
                if v is not None and not close(ref_ipred[r], v, rtol=1e-9):
                    fail(P.get_individual_prediction_expression, 'individual prediction expression equals direct '
                         'evaluation of the model with epsilons 0',
                         f'record {pos[r]} ({pname}): direct {ref_ipred[r]!r}, expression {v!r}')
                v = numexpr(P.get_individual_prediction_expression, ie, p1e)
                if v is not None and not close(ref_ipred[r], v, rtol=1e-9):
                    fail(P.get_individual_prediction_expression, 'individual prediction expression does not depend '
                         'on epsilons: for every value of them it equals direct evaluation of the model with '
                         'epsilons 0',
                         f'record {pos[r]} ({pname}): direct evaluation with epsilons 0 {ref_ipred[r]!r}, '
                         f'expression {v!r} at epsilons { {e: p1e[e] for e in eps_names} }')
            if ge is not None:
                if len(ge) != len(eta_names):
                    fail(P.calculate_eta_gradient_expression, 'one gradient expression per eta', f'{len(ge)}')
                else:
                    for e, g in zip(eta_names, ge):
                        v = numexpr(P.calculate_eta_gradient_expression, g, p1)
                        w = fd(p1, y, e)
                        if v is not None and not _isbad(w) and not close(w, v, rtol=1e-5, atol=1e-7):
                            fail(P.calculate_eta_gradient_expression, 'eta gradient expression equals the central '
                                 'finite difference of the directly evaluated individual prediction',
                                 f'd/d{e} at record {pos[r]} ({pname}): finite difference {w!r}, expression {v!r}')
            if he is not None:
                if len(he) != len(eps_names):
                    fail(P.calculate_epsilon_gradient_expression, 'one gradient expression per epsilon', f'{len(he)}')
                else:
                    for e, g in zip(eps_names, he):
                        v = numexpr(P.calculate_epsilon_gradient_expression, g, p1)
                        w = fd(p1, y, e)
                        if v is not None and not _isbad(w) and not close(w, v, rtol=1e-5, atol=1e-7):
                            fail(P.calculate_epsilon_gradient_expression, 'epsilon gradient expression equals the '
                                 'central finite difference of the directly evaluated observation at epsilon 0',
                                 f'd/d{e} at record {pos[r]} ({pname}): finite difference {w!r}, expression {v!r}')
        # numeric evaluators on the K records
        pred = call(P.evaluate_population_prediction, m, parameters=parg, dataset=sub)
        ipred = call(P.evaluate_individual_prediction, m, etas=etas, parameters=parg, dataset=sub)
        ipred0 = call(P.evaluate_individual_prediction, m, parameters=parg, dataset=sub)
        egrad = call(P.evaluate_eta_gradient, m, etas=etas, parameters=parg, dataset=sub)
        hgrad = call(P.evaluate_epsilon_gradient, m, etas=etas, parameters=parg, dataset=sub)
        for r in rows:
            p1 = point(pvals, r, 'ind')
            where = f'record {pos[r]} ({pname}; {len(sub.columns)} data columns, {len(eta_names)} etas)'
            if pred is not None and not close(ref_pred[r], float(pred.iloc[r]), rtol=1e-9):
                fail(P.evaluate_population_prediction, 'population prediction equals direct evaluation of the model '
                     'with etas and epsilons 0 at every data record',
                     f'{where}: direct {ref_pred[r]!r}, evaluator {float(pred.iloc[r])!r}')
            if ipred is not None and not close(ref_ipred[r], float(ipred.iloc[r]), rtol=1e-9):
                fail(P.evaluate_individual_prediction, 'individual prediction equals direct evaluation of the model '
                     'with epsilons 0 at the given etas at every data record',
                     f'{where}: direct {ref_ipred[r]!r}, evaluator {float(ipred.iloc[r])!r}; etas '
                     f'{ {e: p1[e] for e in eta_names} }')
            if ipred0 is not None and not close(ref_pred[r], float(ipred0.iloc[r]), rtol=1e-9):
                fail(P.evaluate_individual_prediction, 'individual prediction without etas equals direct evaluation '
                     'of the model with etas and epsilons 0',
                     f'{where}: direct {ref_pred[r]!r}, evaluator {float(ipred0.iloc[r])!r}')
            if egrad is not None:
                for e in eta_names:
                    w = fd(p1, y, e)
                    col = f'dF/d{e}'
                    g = float(egrad[col].iloc[r]) if col in egrad.columns else float('nan')
                    if not _isbad(w) and not close(w, g, rtol=1e-5, atol=1e-7):
                        fail(P.evaluate_eta_gradient, 'eta gradient equals the central finite difference of the '
                             'directly evaluated individual prediction at every data record',
                             f'{col} at {where}: finite difference {w!r}, evaluator {g!r}')
            if hgrad is not None:
                for e in eps_names:
                    w = fd(p1, y, e)
                    col = f'dY/d{e}'
                    g = float(hgrad[col].iloc[r]) if col in hgrad.columns else float('nan')
                    if not _isbad(w) and not close(w, g, rtol=1e-5, atol=1e-7):
                        fail(P.evaluate_epsilon_gradient, 'epsilon gradient equals the central finite difference of '
                             'the directly evaluated observation at epsilon 0 at every data record',
                             f'{col} at {where}: finite difference {w!r}, evaluator {g!r}')
    return {'nontrivial': nontriv, 'fails': fails}


def run_refactoring_case(case, tier='quick'):
    """returns dict(nontrivial=bool, fails=[(fid, clause, detail)])"""
    if case['refactoring'] == 'evaluators':
        return run_evaluator_case(case, tier)
    K = _K_THOROUGH if tier == 'thorough' else _K_QUICK
    fails = []
    R = _refactorings()
    tag = f"{case['model']}/{case['variant']} {case['refactoring']}({case['arg']})"
    try:
        m0 = variant_model(case['model'], case['variant'])
    except Exception as e:
        # the variant itself cannot be built: not a refactoring failure, no precondition
        return {'nontrivial': False, 'fails': [], 'note': f'variant not buildable: {e!r}'}
    if case['refactoring'] == 'none':
        return {'nontrivial': False, 'fails': []}
    fn, run = R[case['refactoring']]
    fid = _fid(fn) if hasattr(fn, '__module__') else str(fn)
    if case['refactoring'] == 'model_code_reparse':
        fid = 'src/pharmpy/model/external/nonmem/model.py:Model.update_source'

    def fail(clause, detail):
        fails.append((fid, clause, f'{tag}: {detail}'))

    pts = make_points(m0, K)
    dose_cols = []
    try:
        dose_cols = list(m0.datainfo.typeix['dose'].names)
    except Exception:
        dose_cols = [c for c in m0.datainfo.names if c == 'AMT']
    for k, pt in enumerate(pts):
        for c in dose_cols:
            if k % 2 == 0:
                pt[c] = 25.0 * (k + 1)

    if case['refactoring'] == 'simplify_expression':
        from pharmpy.model import Assignment

        nontriv = False
        for s in m0.statements:
            if not isinstance(s, Assignment):
                continue
            try:
                simp = pm().simplify_expression(m0, s.expression)
            except Exception as e:
                fail('refactoring completes without an exception on a valid model',
                     f'simplify_expression({s.expression}) raised {type(e).__name__}: {e}')
                continue
            for pt in pts:
                env = dict(pt)
                # symbols defined by earlier statements: any value is an admissible input here
                for j, a in enumerate(sorted(x.name for x in _sp(s.expression).free_symbols)):
                    env.setdefault(a, 0.37 + 0.21 * j)
                try:
                    v0 = num(s.expression, env)
                except Undefined:
                    continue
                if _isbad(v0):
                    continue
                try:
                    v1 = num(simp, env)
                except Undefined as e:
                    fail('every symbol used is defined', f'{s.expression} -> {simp}: {e}')
                    break
                nontriv = True
                if not close(v0, v1):
                    fail('simplified expression has the same value as the original expression',
                         f'{s.expression} = {v0!r} but simplified {simp} = {v1!r} at {_short(env, s)}')
                    break
        return {'nontrivial': nontriv, 'fails': fails}

    # precondition: the original model evaluates
    snap = _snapshot(m0)
    r = case['refactoring']
    solve = r == 'solve_ode_system'
    if solve and not _ode_is_linear_bolus(m0):
        # "can currently only handle the most simple of ODE systems": outside the documented domain
        return {'nontrivial': False, 'fails': []}
    mode0 = 'ode' if solve else 'input'
    try:
        ref = [eval_model(m0, pt, mode0) for pt in pts]
    except Undefined as e:
        return {'nontrivial': False, 'fails': [], 'note': f'original model not evaluable: {e}'}

    nonfixed = []
    if r in ('split_joint_distribution', 'create_joint_distribution'):
        iiv = _iiv_eta_groups(m0)
        fixed = _fixed_variance_rvs(m0)
        nonfixed = [n for n in iiv if n not in fixed]
        if r == 'create_joint_distribution':
            sel = case['arg'] if case['arg'] is not None else nonfixed
            # documented precondition: "The etas must be IIVs and cannot be fixed"
            if len(sel) < 2 or any(n in fixed for n in sel):
                return {'nontrivial': False, 'fails': []}
        elif case['arg'] is not None and any(n in fixed for n in case['arg']):
            return {'nontrivial': False, 'fails': []}
    if r == 'unload_load_dataset' and (m0.dataset is None or m0.datainfo.path is None):
        # load_dataset reads datainfo.path: precondition
        return {'nontrivial': False, 'fails': []}
    try:
        m1, ren = run(m0, case['arg'])
    except Exception as e:
        if solve and isinstance(e, (ValueError, NotImplementedError)):
            # "Replace ODE system with analytical solution if possible": a refusal
            return {'nontrivial': False, 'fails': [], 'note': f'refused: {e}'}
        tb = traceback.format_exc().strip().splitlines()
        loc = [ln.strip() for ln in tb if ln.strip().startswith('File')][-1:]
        fail('refactoring completes without an exception on a valid model',
             f'raised {type(e).__name__}: {str(e)[:200]} {loc}')
        return {'nontrivial': True, 'fails': fails}

    after = _snapshot(m0)
    if not (after[0] == snap[0] and after[1] == snap[1] and after[2] == snap[2] and after[3] == snap[3]
            and after[4] == snap[4]):
        fail('input model is not modified', 'statements/parameters/random variables/dataset of the input changed')

    format_change = r.startswith('convert_model') or r == 'model_code_reparse'
    if format_change:
        # a model format may impose its own names on parameters / random variables (declared by position)
        ren = dict(ren)
        for a, b in _positional_renaming(m0, m1).items():
            if a != b:
                ren[a] = b

    dvs, ips = _observables(m0)
    dv1 = [_sname(y) for y in m1.dependent_variables]
    if sorted(ren.get(y, y) for y in dvs) != sorted(dv1):
        fail('dependent variables are the same up to the declared renaming',
             f'{dvs} -> {dv1} with renaming {ren}')

    st0 = cs_structure(m0)
    st1 = None if solve else cs_structure(m1)
    best = None
    for cmap in compartment_bijections(st0, st1):
        got = _compare_models(m0, m1, ref, pts, ren, cmap, dvs, ips, solve,
                              ip_must_stay=not (format_change or r == 'cleanup_model'))
        if best is None or len(got) < len(best):
            best = got
        if not got:
            break
    for clause, detail in best:
        fail(clause, detail)

    # refactoring specific documented effects
    if r == 'unload_load_dataset' and m0.dataset is not None:
        if m1.dataset is None or not m1.dataset.equals(m0.dataset):
            fail('load_dataset after unload_dataset restores an equal dataset', 'datasets differ')
    if r == 'unload_dataset' and m1.dataset is not None:
        fail('unload_dataset removes the dataset', 'dataset still present')
    if r == 'remove_unused_parameters_and_rvs':
        used = set()
        for s in m1.statements:
            used |= {x.name for x in _sp_free(s)}
        for n in m1.random_variables.names:
            if n not in used:
                fail('no unused random variable is left', f'{n} is not used by any statement')
        for dist in m1.random_variables:
            used |= {x.name for x in _sp(dist.variance).free_symbols} if len(dist.names) == 1 else \
                {x.name for x in sympy.Matrix(dist.variance._sympy_() if hasattr(dist.variance, '_sympy_')
                                              else dist.variance).free_symbols}
        for n in m1.parameters.names:
            if n not in used:
                fail('no unused parameter is left', f'{n} is not used by any statement or distribution')
    if r == 'make_declarative' or r == 'cleanup_model':
        names = [n for n in (_sname(s.symbol) for s in m1.statements if hasattr(s, 'symbol'))]
        dup = sorted({n for n in names if names.count(n) > 1})
        if dup:
            fail('each symbol is assigned only once', f'{dup} assigned more than once')
    if r == 'replace_fixed_thetas':
        left = [p.name for p in pm().get_thetas(m1) if p.fix]
        if left:
            fail('no fixed theta is left as a parameter', f'{left}')
    if r == 'replace_non_random_rvs':
        # documented: random variables that are constant (variance fixed to 0) are replaced by their constant
        # value; the others stay what they are
        z0 = zero_variance_rvs(m0)
        left = [n for n in m1.random_variables.names if n in z0]
        if left:
            fail('random variables whose variance is fixed to 0 are removed', f'{left} still present')
        lost = [n for n in m0.random_variables.names if n not in z0 and n not in m1.random_variables.names]
        if lost:
            fail('random variables with a non-zero variance are kept', f'{lost} removed; distributions before: '
                 f'{[(d.names, [(p, float(m0.parameters[p].init), m0.parameters[p].fix) for p in d.parameter_names]) for d in m0.random_variables if set(d.names) & set(lost)]}')
    if r == 'split_joint_distribution':
        sel = case['arg']
        for dist in m1.random_variables.iiv:
            if len(dist.names) > 1 and (sel is None or set(sel) & set(dist.names)):
                if sel is None and set(dist.names) & (zero_variance_rvs(m0) | _fixed_variance_rvs(m0)):
                    continue    # documented: "If None, all etas that are IIVs and non-fixed will become single"
                fail('requested etas are no longer part of a joint distribution', f'{dist.names} still joint')
    if r == 'create_joint_distribution':
        sel = case['arg'] if case['arg'] is not None else nonfixed
        together = [set(d.names) for d in m1.random_variables if set(sel) <= set(d.names)]
        if not together:
            fail('requested etas follow one joint distribution', f'{sel} not in one distribution: '
                 f'{[d.names for d in m1.random_variables]}')
    return {'nontrivial': True, 'fails': fails}


def _sp_free(stat):
    from pharmpy.model import Assignment

    if isinstance(stat, Assignment):
        return _sp(stat.expression).free_symbols | _sp(stat.symbol).free_symbols
    out = set()
    for x in stat.free_symbols:
        out |= _sp(x).free_symbols
    return out


def _short_pt(pt):
    return {k: (round(v, 5) if isinstance(v, float) else v) for k, v in list(pt.items())[:40]}


def _short(env, s):
    names = {x.name for x in _sp(s.expression).free_symbols}
    return {k: round(v, 6) for k, v in env.items() if k in names}


def _refactoring_worker(args):
    case, tier = args
    try:
        return case, run_refactoring_case(case, tier)
    except Exception:
        return case, {'nontrivial': False, 'fails': [('contracts/b_ext.py:run_refactoring_case',
                                                      'checker error', traceback.format_exc()[-600:])]}


def _pool_map(worker, items, procs=16):
    if os.environ.get('B_EXT_SERIAL'):
        return [worker(i) for i in items]
    ctx = multiprocessing.get_context('fork')
    with ctx.Pool(procs) as pool:
        return pool.map(worker, items, chunksize=1)


def _collect(results, replay_fn):
    fails = {}
    also = {}
    nontriv = 0
    for case, res in results:
        if res.get('nontrivial'):
            nontriv += 1
        for fid, clause, detail in res['fails']:
            if (fid, clause) not in fails:
                fails[(fid, clause)] = {'fid': fid, 'clause': clause, 'detail': detail[:900], 'case': case,
                                        'replay_fn': replay_fn}
            lst = also.setdefault((fid, clause), [])
            if case not in lst:
                lst.append(case)
    for key, f in fails.items():
        # every failing case of the clause, in enumeration order (see tools/BOUNDED_GUIDE.md, `also`)
        f['also'] = also[key][:300]
    return nontriv, list(fails.values())


def bounded_refactorings(tier):
    pm()
    for base, variants in _BASE_VARIANTS_QUICK:
        for v in variants:
            try:
                variant_model(base, v)
            except Exception:
                pass
    for base, variants in _INPUT_VARIANTS[tier]:
        for v in variants:
            try:
                variant_model(base, v)
            except Exception:
                pass
    cases = refactoring_cases(tier)
    results = _pool_map(_refactoring_worker, [(c, tier) for c in cases])
    nontriv, fails = _collect(results, 'bounded_refactorings_replay')
    K = _K_THOROUGH if tier == 'thorough' else _K_QUICK
    nvar = sum(len(v) for _, v in _BASE_VARIANTS_QUICK)
    return {
        'cases': len(cases), 'nontrivial': nontriv,
        'bound': f'{nvar} models (pheno, pheno_linear, moxo and variants reached by one transformation) x '
                 f'18 refactoring kinds (rename_symbols over '
                 f'{"every symbol" if tier == "thorough" else "every symbol of the 3 base models, 7 symbols of each variant"}'
                 f', create_joint_distribution over all pairs of IIV etas, split over every eta) x {K} input points '
                 f'(parameters within bounds, etas, epsilons, data rows, t, amounts); code generation and read back '
                 f'({", ".join(_REASSIGN_REFACTORINGS[tier])}) of {", ".join(_REASSIGN_BASES[tier])} with a re-assignment '
                 f'inserted after the last assignment of every symbol of the model code x {len(_REASSIGN_FORMS)} forms '
                 f'(piecewise with literal 0 / 1 / previous value as otherwise branch, three branches, unconditional, new '
                 f'indicator symbol; thresholds between the grid values of a data column); extractors and numeric '
                 f'evaluators (evaluate_expression, population / individual prediction, eta and epsilon gradient) against '
                 f'direct evaluation and central finite differences on $PRED models with {_SYNTH_BOUNDS[tier][0][0]}..'
                 f'{_SYNTH_BOUNDS[tier][0][-1]} covariates x {_SYNTH_BOUNDS[tier][1][0]}..{_SYNTH_BOUNDS[tier][1][-1]} '
                 f'etas (up to {_SYNTH_BOUNDS[tier][0][-1] + 1 + _SYNTH_BOUNDS[tier][1][-1]} free symbols) and on '
                 f'pheno_linear, pheno, moxo, at {K} records x 2 parameter sets, and on $PRED models with inter-occasion '
                 f'variability on two parameters (one IOV eta per occasion, BLOCK SAME, selected by an occasion column): '
                 f'covariates {list(_SYNTH_IOV_BOUNDS[tier][0])} x IIV etas {list(_SYNTH_IOV_BOUNDS[tier][1])} x occasions '
                 f'{list(_SYNTH_IOV_BOUNDS[tier][2])}; refactorings that look at the random variables '
                 f'({", ".join(_OMEGA_REFACTORINGS[tier])}) on $PRED models with every OMEGA structure on 3 etas '
                 f'({len(omega_specs())} structures: all compositions into consecutive blocks x (diagonal element estimated '
                 f'/ FIX / 0 FIX; block estimated / FIX with every pattern of covariances that are exactly 0 / all 0 FIX)) '
                 f'and on {sum(len(v) for _, v in _BASE_VARIANTS_OMEGA)} variants of pheno and moxo with a fixed joint '
                 f'distribution whose covariances are 0; {sum(len(v) for _, v in _INPUT_VARIANTS[tier])} variants of pheno '
                 f'and moxo whose compartmental system has a zero-order input (effect compartment, indirect response, '
                 f'TMDD, set_zero_order_input with an individual parameter / an estimated / a fixed theta: '
                 f'{", ".join(b + "/" + v for b, vs in _INPUT_VARIANTS[tier] for v in vs)}) x {len(_INPUT_REFACTORINGS)} '
                 f'in-memory refactorings ({", ".join(_INPUT_REFACTORINGS)}) and rename_symbols over every symbol that '
                 f'occurs in the compartmental system (rates, inputs, lag times, bioavailabilities, doses), the latter '
                 f'also for the {nvar} models above; initial conditions A_X(0) of the amounts are compared as well',
        'samples': [repr(cases[i]) for i in (0, len(cases) // 2, len(cases) - 1)],
        'fails': fails,
    }


def bounded_refactorings_replay(rp):
    res = run_refactoring_case(rp['case'], rp.get('tier', 'quick'))
    want, wfid = rp.get('clause'), rp.get('fid')
    for fid, clause, detail in res['fails']:
        if (want is None or clause == want) and (wfid is None or fid == wfid):
            return False, detail[:900]
    return True, 'ok'


# ----------------------------------------------------------------------------------------------
# (2) extensions  -- C09
# ----------------------------------------------------------------------------------------------

def ref_median(model, cov):
    """median over individuals of the individual's median covariate value (plain numpy)"""
    df = model.dataset
    idc = model.datainfo.id_column.name
    ids = df[idc].to_numpy()
    v = df[cov].to_numpy(dtype=float)
    per = [float(np.median(v[ids == i])) for i in np.unique(ids)]
    return float(np.median(per))


def ref_mode(model, cov):
    """most common category: the value that the largest number of individuals have (ties: smallest)"""
    df = model.dataset
    idc = model.datainfo.id_column.name
    ids = df[idc].to_numpy()
    v = df[cov].to_numpy(dtype=float)
    count = {}
    for i in np.unique(ids):
        for c in set(v[ids == i].tolist()):
            count[c] = count.get(c, 0) + 1
    best = max(count.values())
    return min(c for c, n in count.items() if n == best), sorted(count)


def ref_template(effect, cov, th, ref):
    """documented effect functions of add_covariate_effect (continuous templates)"""
    if effect == 'lin':
        return 1 + th[0] * (cov - ref)
    if effect == 'piece_lin':
        return 1 + th[0] * (cov - ref) if cov <= ref else 1 + th[1] * (cov - ref)
    if effect == 'exp':
        return math.exp(th[0] * (cov - ref))
    if effect == 'pow':
        return (cov / ref) ** th[0]
    raise ValueError(effect)


def documented_bounds(effect, idx, med, cmin, cmax):
    """(init, lower, upper) from the docstring of add_covariate_effect; None where the text is not
    unambiguous (exp: base of the logarithm)"""
    if effect == 'lin':
        up = 100000 if med == cmin else 1 / (med - cmin)
        lo = -100000 if med == cmax else 1 / (med - cmax)
        return 0.001, lo, up
    if effect == 'cat':
        return 0.001, -1, 5
    if effect == 'cat2':
        return 0.001, 0, 6
    if effect == 'piece_lin':
        if idx == 0:
            return 0.001, -100000, 1 / (med - cmin)
        return 0.001, 1 / (med - cmax), 100000
    if effect == 'pow':
        return 0.001, -100, 100000
    return None


_CONT = ('lin', 'piece_lin', 'exp', 'pow')
_CAT = ('cat', 'cat2')
_COV_MODELS = {
    'pheno': (['CL', 'VC'], ['WGT', 'APGR'], ['APGR', 'FA1']),
    'moxo': (['CL', 'V', 'KA'], ['AGE', 'WT', 'CRCL'], ['SEX', 'COMP']),
}


def extension_cases(tier):
    cases = []
    # covariate effects
    for mname in ('pheno', 'moxo'):
        pars, cont, cat = _COV_MODELS[mname]
        for par in pars:
            for eff in _CONT + _CAT:
                for cov in (cont if eff in _CONT else cat):
                    for op in ('*', '+'):
                        cases.append({'family': 'cov', 'model': mname, 'parameter': par, 'covariate': cov,
                                      'effect': eff, 'operation': op})
    # iiv
    for mname, pars in (('pheno', ['S1', 'TVCL', 'CL']), ('moxo', ['ALAG1', 'K', 'V'])):
        for par in pars:
            for expr in ('add', 'prop', 'exp', 'log', 're_log'):
                for op in (('*', '+') if expr == 'exp' else ('*',)):
                    cases.append({'family': 'iiv', 'model': mname, 'parameter': par, 'expression': expr,
                                  'operation': op})
    # remove_iiv of existing etas
    for mname, targets in (('pheno', ['CL', 'VC', 'ETA_CL', None]), ('moxo', ['CL', 'KA', 'ETA_2', None])):
        for tg in targets:
            cases.append({'family': 'remove_iiv', 'model': mname, 'target': tg})
    # iov
    for occ in ('FA1', 'APGR'):
        for pars in (None, ['CL'], ['ETA_VC'], ['CL', 'VC']):
            for dist in ('disjoint', 'joint', 'same-as-iiv'):
                cases.append({'family': 'iov', 'model': 'pheno', 'occ': occ, 'parameters': pars,
                              'distribution': dist})
    for pars in (None, ['V'], ['CL', 'V']):
        cases.append({'family': 'iov', 'model': 'moxo', 'variant': 'remove_iov', 'occ': 'VISI',
                      'parameters': pars, 'distribution': 'disjoint'})
    cases.append({'family': 'remove_iov', 'model': 'moxo'})
    # eta transformations
    for mname, etas in (('pheno', ['ETA_CL', 'ETA_VC']), ('moxo', ['ETA_1', 'ETA_3'])):
        for tr in ('boxcox', 'tdist', 'john_draper'):
            for sel in [None] + [[e] for e in etas] + [etas]:
                cases.append({'family': 'transform', 'model': mname, 'transformation': tr, 'etas': sel})
    # allometry
    for mname, variant, var in (('pheno', 'remove_WGT', 'WGT'), ('pheno', 'none', 'WGT'), ('pheno', 'none', 'APGR'),
                                ('moxo', 'none', 'WT'), ('moxo', 'add_peripheral_compartment', 'WT')):
        for ref in (70, 1.5):
            for pars in (None, 'first', 'last'):
                for fixed in (True, False):
                    cases.append({'family': 'allometry', 'model': mname, 'variant': variant, 'variable': var,
                                  'reference_value': ref, 'parameters': pars, 'fixed': fixed})
    # error models: sequences of <= 2 setters
    setters = ['additive', 'proportional', 'combined', 'additive_log', 'proportional_log', 'combined_log',
               'proportional_nozp', 'power_on_ruv', 'power_on_ruv_zp', 'time_varying', 'weighted', 'remove']
    second = ['additive', 'proportional', 'combined', 'power_on_ruv', 'time_varying', 'weighted', 'remove']
    first = ['additive', 'proportional', 'combined', 'remove', 'power_on_ruv', 'time_varying', 'weighted']
    for mname in ('pheno', 'moxo'):
        for s in setters:
            cases.append({'family': 'error', 'model': mname, 'setters': [s]})
        for a in first:
            for b in second:
                cases.append({'family': 'error', 'model': mname, 'setters': [a, b]})
        if tier == 'thorough':
            for a in first:
                for b in second:
                    for c in second:
                        cases.append({'family': 'error', 'model': mname, 'setters': [a, b, c]})
    # error models on models with two dependent variables: each one in turn, both in sequence, one twice
    for variant in (_TWO_DV_THOROUGH if tier == 'thorough' else _TWO_DV_QUICK):
        for start in ('as_built', 'additive'):
            singles = [[s, dv] for dv in (1, 2) for s in _DV_SETTERS]
            for a in singles:
                cases.append({'family': 'error_dv', 'model': 'pheno', 'variant': variant, 'start': start,
                              'steps': [a]})
            for a in singles:
                for b in singles:
                    if a[1] != b[1] or tier == 'thorough':
                        cases.append({'family': 'error_dv', 'model': 'pheno', 'variant': variant, 'start': start,
                                      'steps': [a, b]})
            if tier == 'thorough':
                for a in singles:
                    for b in singles:
                        for c in singles:
                            if len({a[1], b[1], c[1]}) == 2:
                                cases.append({'family': 'error_dv', 'model': 'pheno', 'variant': variant,
                                              'start': start, 'steps': [a, b, c]})
    # transit compartments: every sequence n -> m (0 -> m is the request m on the model as it is)
    top = 6 if tier == 'thorough' else 4
    for mname, variant in (_TRANSIT_MODELS if tier == 'thorough' else _TRANSIT_MODELS[:4]):
        for n in range(top + 1):
            for k in range(top + 1):
                cases.append({'family': 'transit', 'model': mname, 'variant': variant, 'ns': [n, k]})
        if tier == 'thorough':
            for n in range(5):
                for k in range(5):
                    for j in range(5):
                        cases.append({'family': 'transit', 'model': mname, 'variant': variant, 'ns': [n, k, j]})
    # sequences of two covariate effects on the same parameter: every ordered pair of operations and effect kinds
    cases.extend(cov2_cases(tier))
    # add_iiv followed by remove_iiv (templates for which the round trip restores the function: add, prop, exp
    # with '*') on a parameter whose statement already contains an exponential factor with a sum inside, and
    # remove_iiv (by eta name, by parameter name, all) on models in which the IIV eta meets an IOV eta or a
    # covariate effect: in a sum inside the exponential, through an intermediate statement, in a re-assignment
    for mname, variant, pars in _EXP_SUM_ADD:
        for par in pars:
            for expr in ('add', 'prop', 'exp'):
                cases.append({'family': 'iiv', 'model': mname, 'variant': variant, 'parameter': par,
                              'expression': expr, 'operation': '*'})
    for mname, variant, targets in _EXP_SUM_REMOVE:
        for tg in targets:
            cases.append({'family': 'remove_iiv', 'model': mname, 'variant': variant, 'target': tg})
    # add_allometry on models in which a subset of the clearance / volume parameters already has an effect of the
    # allometric variable (those are skipped): default parameter list, explicit lists in both orders, with the
    # default exponents and with a different exponent and different bounds requested for every listed parameter
    for mname, pre, var, cands, subsets, plists, fixeds in _allometry_skip_domain(tier):
        for sub in subsets:
            variant = f"cov_on:{var}:{'+'.join(sub)}" + (f':{pre}' if pre else '')
            for pl, explicit in plists:
                pars = None if pl is None else (list(cands) if pl == 'forward' else list(cands[::-1]))
                for fixed in fixeds:
                    cases.append({'family': 'allometry', 'model': mname, 'variant': variant, 'variable': var,
                                  'reference_value': 70, 'parameters': pars, 'fixed': fixed, 'explicit': explicit})
    # remove_iov with an explicit list of etas on models with several IOV extensions
    cases.extend(remove_iov_sel_cases(tier))
    return cases


def _allometry_skip_domain(tier):
    all_plists = [(None, False), ('forward', False), ('reversed', False), ('forward', True), ('reversed', True)]
    pheno = ['CL', 'VC']
    periph = ['CL', 'QP1', 'V', 'VP1']
    pperiph = ['CL', 'QP1', 'VC', 'VP1']

    def subsets(c):
        return [[p for i, p in enumerate(c) if bits >> i & 1] for bits in range(2 ** len(c))]

    if tier == 'thorough':
        return [('pheno', None, 'WGT', pheno, subsets(pheno), all_plists, (True, False)),
                ('moxo', 'add_peripheral_compartment', 'WT', periph, subsets(periph), all_plists, (True, False)),
                ('pheno', 'add_peripheral_compartment', 'WGT', pperiph, subsets(pperiph), all_plists, (True, False))]
    return [('pheno', None, 'WGT', pheno, subsets(pheno), all_plists, (True, False)),
            ('moxo', 'add_peripheral_compartment', 'WT', periph, [[p] for p in periph] + [['CL', 'V']],
             [(None, False), ('forward', True), ('reversed', True)], (True,))]


_IOV_SEQUENCES = {
    'quick': [[[['CL'], 'disjoint'], [['VC'], 'disjoint']],
              [[['CL', 'VC'], 'disjoint']],
              [[['CL', 'VC'], 'joint']],
              [[['CL', 'VC'], 'same-as-iiv']],
              [[['CL'], 'disjoint']],
              [[None, 'disjoint']]],
    'thorough': [[[['CL'], 'disjoint'], [['VC'], 'disjoint']],
                 [[['CL', 'VC'], 'disjoint']],
                 [[['CL', 'VC'], 'joint']],
                 [[['CL', 'VC'], 'same-as-iiv']],
                 [[['CL'], 'disjoint']],
                 [[None, 'disjoint']],
                 [[['VC'], 'disjoint'], [['CL'], 'disjoint']],
                 [[['CL'], 'joint'], [['VC'], 'joint']],
                 [[['CL'], 'same-as-iiv'], [['VC'], 'disjoint']],
                 [[None, 'joint']],
                 [[None, 'same-as-iiv']]],
}


def remove_iov_sel_cases(tier):
    cases = []
    sels = [['group', g, w] for g in (0, 1) for w in ('first', 'last', 'all')] + [['every'], None]
    variants = ('none', 'equal_iiv_inits') + (('add_iiv_S1',) if tier == 'thorough' else ())
    for variant in variants:
        for steps in _IOV_SEQUENCES[tier]:
            for sel in sels:
                cases.append({'family': 'remove_iov_sel', 'model': 'pheno', 'variant': variant, 'occ': 'FA1',
                              'steps': steps, 'to_remove': sel})
    if tier == 'thorough':
        # an occasion column with 10 categories (10 etas per parameter)
        for steps in _IOV_SEQUENCES[tier][:4]:
            for sel in sels:
                cases.append({'family': 'remove_iov_sel', 'model': 'pheno', 'variant': 'equal_iiv_inits',
                              'occ': 'APGR', 'steps': steps, 'to_remove': sel})
    # the IOV that moxo comes with (two parameters, BLOCK SAME over two occasions)
    for sel in sels:
        cases.append({'family': 'remove_iov_sel', 'model': 'moxo', 'variant': 'none', 'occ': 'VISI', 'steps': [],
                      'to_remove': sel})
    return cases


_EXP_SUM_ADD = (('moxo', 'none', ['CL']),)
_EXP_SUM_REMOVE = (('moxo', 'none', ['V', 'ETA_1', 'ETA_3']),
                   ('pheno', 'add_iov_FA1', ['ETA_CL', 'CL', 'VC', None]),
                   ('pheno', 'add_covariate_effect_CL_APGR_exp', ['ETA_CL', 'CL', None]))


_TRANSIT_MODELS = (('pheno', 'none'), ('moxo', 'none'), ('pheno', 'set_first_order_absorption'),
                   ('moxo', 'remove_lag_time'), ('pheno', 'add_peripheral_compartment'))


def _ext_variant(case):
    base = case['model']
    variant = case.get('variant', 'none')
    if variant == 'remove_WGT':
        key = (base, variant)
        if key not in _MODEL_CACHE:
            m = base_model(base)
            m = pm().remove_covariate_effect(m, 'CL', 'WGT')
            m = pm().remove_covariate_effect(m, 'VC', 'WGT')
            _MODEL_CACHE[key] = m
        return _MODEL_CACHE[key]
    if variant.startswith('cov_on:') or variant == 'equal_iiv_inits':
        key = (base, variant)
        if key not in _MODEL_CACHE:
            _MODEL_CACHE[key] = _build_ext_variant(base, variant)
        return _MODEL_CACHE[key]
    return variant_model(base, variant)


def _build_ext_variant(base, variant):
    P = pm()
    if variant == 'equal_iiv_inits':
        # every IIV variance that is a distribution of its own gets the same initial estimate (the default of
        # add_iiv / add_pk_iiv)
        m = base_model(base)
        names = [_sp(d.variance).name for d in m.random_variables.iiv if len(d.names) == 1]
        return P.set_initial_estimates(m, {n: 0.09 for n in names})
    # 'cov_on:<covariate>:<P1+P2..>[:<earlier transformation>]': exactly the listed parameters (of the clearance
    # and volume parameters) have an effect of the covariate
    parts = variant.split(':')
    var, listed = parts[1], [x for x in parts[2].split('+') if x]
    m = base_model(base)
    if len(parts) > 3:
        m = _variants()[parts[3]](m)
    for par in _allometry_candidates(m):
        if _depends_numerically(m, par, var):
            m = P.remove_covariate_effect(m, par, var)
    for par in listed:
        m = P.add_covariate_effect(m, par, var, 'exp')
    return m


def _allometry_candidates(model):
    return [p for p in _observables(model)[1] if p.startswith(('CL', 'V', 'Q'))]


_DOC_EXC = (ValueError, NotImplementedError)


class _Fails:
    def __init__(self, fid, tag):
        self.fid = fid
        self.tag = tag
        self.items = []
        self.seen = set()

    def __call__(self, clause, detail, fid=None):
        key = (fid or self.fid, clause)
        if key not in self.seen:
            self.seen.add(key)
            self.items.append((fid or self.fid, clause, f'{self.tag}: {detail}'))


def _exc_detail(e):
    tb = traceback.format_exc().strip().splitlines()
    loc = [ln.strip() for ln in tb if ln.strip().startswith('File')][-1:]
    return f'raised {type(e).__name__}: {str(e)[:200]} {loc}'


def _grid(model, K, extra=()):
    pts = make_points(model, K)
    for k, pt in enumerate(pts):
        if 'AMT' in pt and k % 2 == 0:
            pt['AMT'] = 25.0 * (k + 1)
    return pts


def _eval_or_none(model, pt):
    try:
        return eval_model(model, pt)
    except Undefined:
        return None


def _unchanged(fail, clause, m0, m1, pts, names=None, skip=()):
    """every observable (dependent variables + individual parameters of m0, or `names`) and the
    compartmental system have the same value in m0 and m1 at every point"""
    dvs, ips = _observables(m0)
    names = list(names) if names is not None else dvs + ips
    for k, pt in enumerate(pts):
        r0 = _eval_or_none(m0, pt)
        if r0 is None:
            continue
        try:
            d1, sig1, _ = eval_model(m1, pt)
        except Undefined as e:
            fail('every symbol used is defined', str(e))
            return False
        d0, sig0, _ = r0
        for n in names:
            if n in skip or n not in d0 or _isbad(d0[n]):
                continue
            if n not in d1:
                fail(clause, f'{n} is no longer assigned')
                return False
            if not close(d0[n], d1[n]):
                fail(clause, f'{n}: {d0[n]!r} before, {d1[n]!r} after at point {_short_pt(pt)}')
                return False
        diff = sig_diff(sig0, sig1)
        if diff:
            fail(clause, f'compartmental system: {diff}')
            return False
    return True


# -- covariate effects ---------------------------------------------------------------------------

def _run_cov(case, K):
    P = pm()
    fid = _fid(P.add_covariate_effect)
    par, cov, eff, op = case['parameter'], case['covariate'], case['effect'], case['operation']
    fail = _Fails(fid, f"{case['model']} add_covariate_effect({par},{cov},{eff},{op!r})")
    m0 = base_model(case['model'])
    snap = _snapshot(m0)
    nested = _depends_numerically(m0, par, cov)
    results = []
    for allow in ([False, True] if nested else [False]):
        try:
            m1 = P.add_covariate_effect(m0, par, cov, eff, op, allow_nested=allow)
        except Exception as e:
            fail('completes without an undocumented exception', _exc_detail(e))
            continue
        results.append((allow, m1))
    after = _snapshot(m0)
    if not all(a == b for a, b in zip(snap, after)):
        fail('input model is not modified', 'input model changed')
    for allow, m1 in results:
        if nested and not allow:
            # documented: nothing is added when the effect exists and allow_nested is False
            _unchanged(fail, 'with allow_nested=False an existing parameter-covariate relation is left unchanged',
                       m0, m1, _grid(m0, K))
            if m1.parameters.names != m0.parameters.names:
                fail('with allow_nested=False an existing parameter-covariate relation is left unchanged',
                     f'parameters {m1.parameters.names}')
            continue
        _check_cov_effect(case, fail, m0, m1, K)
    return {'nontrivial': True, 'fails': fail.items}


def _depends_numerically(model, par, cov):
    """does the value of `par` change when only the covariate changes? (reference for 'effect exists')"""
    pts = _grid(model, 4)
    for pt in pts:
        vals = set()
        for delta in (0.0, 1.0, -0.5, 3.0):
            q = dict(pt)
            q[cov] = pt[cov] + delta
            r = _eval_or_none(model, q)
            if r is None or par not in r[0]:
                continue
            vals.add(round(r[0][par], 12))
        if len(vals) > 1:
            return True
    return False


def _check_cov_effect(case, fail, m0, m1, K):
    P = pm()
    par, cov, eff, op = case['parameter'], case['covariate'], case['effect'], case['operation']
    new_th = [n for n in m1.parameters.names if n not in m0.parameters.names]
    if not new_th:
        fail(f'[{eff}] new theta parameters are added', 'no new parameter')
        return
    df = m0.dataset
    cmin, cmax = float(df[cov].min()), float(df[cov].max())
    if eff in _CONT:
        ref = ref_median(m0, cov)
        cats = []
        specials = [ref, cmin, cmax, (ref + cmax) / 2, (ref + cmin) / 2]
    else:
        ref, cats = ref_mode(m0, cov)
        specials = [ref] + [c for c in cats if c != ref]
    base_pts = _grid(m1, K)
    pts = list(base_pts)
    for j, sv in enumerate(specials):
        q = dict(base_pts[j % len(base_pts)])
        q[cov] = sv
        pts.append(q)
    neutral = 1.0 if op == '*' else 0.0
    used_theta = {}
    dvs, ips = _observables(m0)
    for k, pt in enumerate(pts):
        r0 = _eval_or_none(m0, pt)
        if r0 is None or par not in r0[0] or _isbad(r0[0][par]):
            continue
        try:
            d1, sig1, _ = eval_model(m1, pt)
        except Undefined as e:
            fail('every symbol used is defined', str(e))
            return
        d0, sig0, _ = r0
        c = pt[cov]
        th = [pt[n] for n in new_th]
        old, new = d0[par], d1.get(par, float('nan'))
        if eff in _CONT:
            if eff == 'piece_lin' and len(th) != 2 or eff != 'piece_lin' and len(th) != 1:
                fail(f'[{eff}] number of new thetas is as documented', f'{new_th}')
                return
            try:
                t = ref_template(eff, c, th, ref)
            except (ZeroDivisionError, ValueError, OverflowError):
                continue
            if isinstance(t, complex):
                continue
            want = old * t if op == '*' else old + t
            if not close(want, new, rtol=1e-7):
                fail(f'[{eff}] parameter equals old parameter (op) documented effect function of the covariate '
                     f'centred on the median over individuals',
                     f'{par}: old {old!r}, {cov}={c}, thetas {dict(zip(new_th, th))}, median {ref}: expected '
                     f'{want!r}, model gives {new!r}')
        else:
            got = new / old if op == '*' else new - old
            if c == ref:
                if not close(got, 1.0, rtol=1e-7):
                    fail(f'[{eff}] effect is 1 for the most common category',
                         f'{cov}={c} (most common among individuals): effect {got!r}')
            elif c in cats:
                cand = [n for n in new_th if close(got, (1 + pt[n]) if eff == 'cat' else pt[n], rtol=1e-7)]
                if len(cand) != 1:
                    fail(f'[{eff}] effect of another category is the documented function of exactly one new theta',
                         f'{cov}={c}: effect {got!r}, thetas {dict(zip(new_th, th))}')
                else:
                    prev = used_theta.setdefault(cand[0], c)
                    if prev != c:
                        fail(f'[{eff}] different categories use different thetas',
                             f'{cand[0]} used for {prev} and {c}')
        if c == ref:
            # neutral element of the operation at the reference covariate value
            for n in dvs + ips:
                if n in d0 and n in d1 and not _isbad(d0[n]) and not close(d0[n], d1[n], rtol=1e-7):
                    fail(f'[operation {op}] effect is the neutral element at the reference covariate value '
                         f'(all individual parameters and observations unchanged there)',
                         f'effect {eff}, {cov}={c} (reference): {n} was {d0[n]!r}, now {d1[n]!r}')
                    break
        for n in ips:
            if n != par and n in d0 and not _isbad(d0[n]) and not _downstream(m0, par, n):
                if n not in d1 or not close(d0[n], d1[n]):
                    fail('individual parameters that do not depend on the target parameter are unchanged',
                         f'{n}: {d0[n]!r} -> {d1.get(n)!r}')
    if eff in _CAT:
        want_n = len(cats) - 1
        if len(new_th) != want_n:
            fail(f'[{eff}] one theta per additional category', f'{len(cats)} categories, thetas {new_th}')
    if cs_symbolic(m0) != cs_symbolic(m1):
        fail('compartmental system is not modified', f'{cs_symbolic(m0)} -> {cs_symbolic(m1)}')
    # initial estimates and bounds as documented
    for i, n in enumerate(new_th):
        doc = documented_bounds(eff, i, ref_median(m0, cov), cmin, cmax)
        if doc is None:
            continue
        p = m1.parameters[n]
        got = (float(p.init), float(p.lower), float(p.upper))
        # NOTE (triage): clauses about the documented *initial estimate and bounds* of new thetas and about
        # the number of thetas per transformed eta were removed: C09 speaks about the model function
        # (documented formula, neutrality at the reference), not about initial estimates or bounds, so these
        # clauses asked for more than the property states (see DESIGN.md section 5, false alarms).
        if False and not all(abs(a - b) <= 5e-5 + 1e-4 * abs(b) for a, b in zip(got, doc)):
            fail(f'[{eff}] new theta has the documented initial estimate and bounds',
                 f'{n}: (init, lower, upper) = {got}, documented {tuple(round(x, 4) for x in doc)} '
                 f'(median {ref_median(m0, cov)}, min {cmin}, max {cmax})')
            break
    for n in new_th:
        p = m1.parameters[n]
        if not (float(p.lower) <= float(p.init) <= float(p.upper)):
            fail('initial estimate lies within the bounds', f'{n}: {p.init} not in [{p.lower}, {p.upper}]')
    # removal restores the previous function
    fidr = _fid(P.remove_covariate_effect)
    if not _depends_numerically(m0, par, cov):
        try:
            m2 = P.remove_covariate_effect(m1, par, cov)
        except Exception as e:
            fail('completes without an undocumented exception', _exc_detail(e), fid=fidr)
            return
        f2 = _Fails(fidr, fail.tag + ' then remove_covariate_effect')
        _unchanged(f2, 'remove_covariate_effect after add_covariate_effect restores the model function',
                   m0, m2, _grid(m0, K))
        left = [n for n in new_th if n in m2.parameters.names]
        if left:
            f2('remove_covariate_effect removes the thetas of the effect', f'{left} still present')
        fail.items.extend(f2.items)


# -- sequences of two covariate effects on the same parameter -----------------------------------------------

def _cov_for(mname, eff, first, avoid=None):
    """covariate used for an effect kind in a sequence: the first (second step: the last) covariate of the
    kind (continuous / categorical) that differs from `avoid`"""
    _, cont, cat = _COV_MODELS[mname]
    lst = list(cont if eff in _CONT else cat)
    for c in (lst if first else lst[::-1]):
        if c != avoid:
            return c
    return None


def cov2_cases(tier):
    cases = []
    ops = [('*', '+'), ('+', '*'), ('*', '*'), ('+', '+')]
    if tier == 'thorough':
        for mname in ('pheno', 'moxo'):
            pars, cont, cat = _COV_MODELS[mname]
            for par in pars:
                for e1 in _CONT + _CAT:
                    for e2 in _CONT + _CAT:
                        for c1 in (cont if e1 in _CONT else cat):
                            for c2 in (cont if e2 in _CONT else cat):
                                if c1 != c2:
                                    for o1, o2 in ops:
                                        cases.append({'family': 'cov2', 'model': mname, 'parameter': par,
                                                      'steps': [[c1, e1, o1], [c2, e2, o2]]})
        return cases
    for mname, par, effs in (('pheno', 'CL', _CONT + _CAT), ('moxo', 'V', ('lin', 'exp', 'cat'))):
        for e1 in effs:
            for e2 in effs:
                c1 = _cov_for(mname, e1, True)
                c2 = _cov_for(mname, e2, False, avoid=c1)
                for o1, o2 in ops:
                    cases.append({'family': 'cov2', 'model': mname, 'parameter': par,
                                  'steps': [[c1, e1, o1], [c2, e2, o2]]})
    return cases


def _effect_as_documented(eff, got, c, ref, cats, th):
    """is `got` the value of the documented effect function `eff` at covariate value c?  th: values of the new
    thetas.  None when the documentation does not determine the value at c"""
    if eff in _CONT:
        if (eff == 'piece_lin') != (len(th) == 2) or len(th) not in (1, 2):
            return False
        try:
            t = ref_template(eff, c, th, ref)
        except (ZeroDivisionError, ValueError, OverflowError):
            return None
        if isinstance(t, complex):
            return None
        return close(got, t, rtol=1e-7)
    if c == ref:
        return close(got, 1.0, rtol=1e-7)
    if c in cats:
        return sum(1 for v in th if close(got, (1 + v) if eff == 'cat' else v, rtol=1e-7)) == 1
    return None


def _run_cov2(case, K):
    """two covariate effects added one after the other to the same parameter: the second call must compose with
    the result of the first as documented, par2 = par1 (op2) effect2(cov2), whatever form (grouped effect
    statement or not, same or other operation) the first call left the parameter in"""
    P = pm()
    fid = _fid(P.add_covariate_effect)
    par = case['parameter']
    (c1, e1, o1), (c2, e2, o2) = case['steps']
    fail = _Fails(fid, f"{case['model']} add_covariate_effect({par},{c1},{e1},{o1!r}) ; "
                       f"add_covariate_effect({par},{c2},{e2},{o2!r})")
    m0 = base_model(case['model'])
    try:
        m1 = P.add_covariate_effect(m0, par, c1, e1, o1, allow_nested=True)
    except Exception:
        return {'nontrivial': False, 'fails': []}      # the single effect: family 'cov'
    snap = _snapshot(m1)
    try:
        m2 = P.add_covariate_effect(m1, par, c2, e2, o2, allow_nested=True)
    except Exception as e:
        fail('completes without an undocumented exception', _exc_detail(e))
        return {'nontrivial': True, 'fails': fail.items}
    if not all(a == b for a, b in zip(snap, _snapshot(m1))):
        fail('input model is not modified', 'input model changed')
    seq = f'[{o1} then {o2}] '
    th1 = [n for n in m1.parameters.names if n not in m0.parameters.names]
    th2 = [n for n in m2.parameters.names if n not in m1.parameters.names]
    if not th2 or any(n not in m2.parameters.names for n in th1):
        fail(seq + 'the second effect adds its thetas and keeps the thetas of the first effect',
             f'first {th1}, second {th2}, parameters {m2.parameters.names}')
        return {'nontrivial': True, 'fails': fail.items}
    df = m0.dataset
    refs, cats, specials = {}, {}, []
    for cov, eff in ((c2, e2), (c1, e1)):
        cmin, cmax = float(df[cov].min()), float(df[cov].max())
        if eff in _CONT:
            refs[cov], cats[cov] = ref_median(m0, cov), []
            sp = [refs[cov], cmin, cmax, (refs[cov] + cmax) / 2, (refs[cov] + cmin) / 2]
        else:
            refs[cov], cats[cov] = ref_mode(m0, cov)
            sp = [refs[cov]] + [c for c in cats[cov] if c != refs[cov]]
        specials += [(cov, v) for v in sp]
    base_pts = _grid(m2, K)
    pts = list(base_pts)
    for j, (cov, sv) in enumerate(specials):
        q = dict(base_pts[j % len(base_pts)])
        q[cov] = sv
        pts.append(q)
    dvs, ips = _observables(m0)
    nontriv = False

    def apply(op, a, b):
        return a * b if op == '*' else a + b

    def effect_of(op, new, old):
        return new / old if op == '*' else new - old

    for pt in pts:
        r0, r1 = _eval_or_none(m0, pt), _eval_or_none(m1, pt)
        if r0 is None or r1 is None or par not in r1[0] or _isbad(r1[0][par]) or par not in r0[0] \
                or _isbad(r0[0][par]):
            continue
        try:
            d2 = eval_model(m2, pt)[0]
        except Undefined as e:
            fail('every symbol used is defined', str(e))
            break
        d0, d1 = r0[0], r1[0]
        p0, p1, p2 = d0[par], d1[par], d2.get(par, float('nan'))
        if p1 == 0 and o2 == '*':
            continue
        nontriv = True
        got = effect_of(o2, p2, p1)
        ok = _effect_as_documented(e2, got, pt[c2], refs[c2], cats[c2], [pt[n] for n in th2])
        if ok is False:
            fail(seq + 'after a second covariate effect the parameter equals (parameter with the first effect) '
                 '(second operation) documented effect function of the second covariate',
                 f'{par}: {p0!r} without effects, {p1!r} with the effect {e1} of {c1}={pt[c1]}; second effect {e2} of '
                 f'{c2}={pt[c2]} (reference {refs[c2]}) with {o2!r} and thetas { {n: pt[n] for n in th2} }: model gives '
                 f'{p2!r}, i.e. an effect value {got!r}')
        if e1 in _CONT and e2 in _CONT and p0 != 0:
            try:
                t1 = ref_template(e1, pt[c1], [pt[n] for n in th1], refs[c1])
                t2 = ref_template(e2, pt[c2], [pt[n] for n in th2], refs[c2])
            except (ZeroDivisionError, ValueError, OverflowError, IndexError):
                t1 = t2 = None
            if t1 is not None and not isinstance(t1, complex) and not isinstance(t2, complex):
                want = apply(o2, apply(o1, p0, t1), t2)
                if not close(want, p2, rtol=1e-7):
                    fail(seq + 'the parameter equals ((parameter without effects) (first operation) first effect '
                         'function) (second operation) second effect function',
                         f'{par}: {p0!r} without effects; {e1}({c1}={pt[c1]}) = {t1!r} with {o1!r}, then '
                         f'{e2}({c2}={pt[c2]}) = {t2!r} with {o2!r}: expected {want!r}, model gives {p2!r}')
        for n in ips:
            if n != par and n in d1 and not _isbad(d1[n]) and not _downstream(m1, par, n):
                if n not in d2 or not close(d1[n], d2[n]):
                    fail('individual parameters that do not depend on the target parameter are unchanged',
                         f'{n}: {d1[n]!r} -> {d2.get(n)!r}')
    if cs_symbolic(m1) != cs_symbolic(m2):
        fail('compartmental system is not modified', f'{cs_symbolic(m1)} -> {cs_symbolic(m2)}')
    # removing the effect added last restores the function with the first effect only (remove_covariate_effect
    # removes every effect of the covariate on the parameter: only when there was none before)
    fidr = _fid(P.remove_covariate_effect)
    if _depends_numerically(m1, par, c2):
        return {'nontrivial': nontriv, 'fails': fail.items}
    try:
        m3 = P.remove_covariate_effect(m2, par, c2)
    except Exception as e:
        fail('completes without an undocumented exception', _exc_detail(e), fid=fidr)
        return {'nontrivial': nontriv, 'fails': fail.items}
    f2 = _Fails(fidr, fail.tag + f' ; remove_covariate_effect({par},{c2})')
    _unchanged(f2, seq + 'remove_covariate_effect of the effect added last restores the model function with the '
               'first effect', m1, m3, _grid(m1, K))
    left = [n for n in th2 if n in m3.parameters.names]
    if left:
        f2('remove_covariate_effect removes the thetas of the effect', f'{left} still present')
    fail.items.extend(f2.items)
    return {'nontrivial': nontriv, 'fails': fail.items}


def _downstream(model, par, other):
    """does `other` change when the value assigned to `par` is perturbed? (numeric dependency)"""
    from pharmpy.model import Assignment

    pt = _grid(model, 1)[0]
    env = dict(pt)
    env2 = dict(pt)
    hit = False
    for s in model.statements:
        if not isinstance(s, Assignment):
            continue
        try:
            v = num(s.expression, env)
            v2 = num(s.expression, env2)
        except Undefined:
            return True
        k = _sname(s.symbol)
        env[k] = v
        env2[k] = v2 * 1.37 + 0.11 if k == par else v2
        if k == other:
            hit = not close(env[k], env2[k])
    return hit


def cs_symbolic(model):
    """printable description of the compartmental system (used as a frame condition: not modified)"""
    from pharmpy.model import Compartment

    cs = model.statements.ode_system
    if cs is None:
        return None
    comps = sorted((c.name, str(c.doses), str(_sp(c.lag_time)), str(_sp(c.bioavailability)), str(_sp(c.input)))
                   for c in cs._g.nodes if isinstance(c, Compartment))
    edges = sorted((u.name, getattr(v, 'name', 'OUTPUT'), str(_sp(d['rate']))) for u, v, d in cs._g.edges(data=True))
    return comps, edges


# -- IIV -----------------------------------------------------------------------------------------

def ref_iiv(expr, op, theta, eta):
    """documented formulas of add_iiv for a statement CL = THETA"""
    if expr == 'add':
        return theta + eta
    if expr == 'prop':
        return theta * (1 + eta)
    if expr == 'exp':
        return theta * math.exp(eta) if op == '*' else theta + math.exp(eta)
    if expr == 'log':
        return theta * math.exp(eta) / (math.exp(eta) + 1)
    if expr == 're_log':
        phi = math.log(theta / (1 - theta))
        return math.exp(phi * eta) / (1 + math.exp(phi * eta))
    raise ValueError(expr)


def _run_iiv(case, K):
    P = pm()
    fid = _fid(P.add_iiv)
    par, expr, op = case['parameter'], case['expression'], case['operation']
    fail = _Fails(fid, (f"{case['model']}" + (f"/{case['variant']}" if 'variant' in case else '')
                        + f" add_iiv({par},{expr},{op!r})"))
    m0 = _ext_variant(case)
    snap = _snapshot(m0)
    try:
        m1 = P.add_iiv(m0, par, expr, operation=op)
    except Exception as e:
        fail('completes without an undocumented exception', _exc_detail(e))
        return {'nontrivial': True, 'fails': fail.items}
    if not all(a == b for a, b in zip(snap, _snapshot(m0))):
        fail('input model is not modified', 'input model changed')
    new_eta = [n for n in m1.random_variables.names if n not in m0.random_variables.names]
    new_par = [n for n in m1.parameters.names if n not in m0.parameters.names]
    if len(new_eta) != 1 or len(new_par) != 1:
        fail('one new eta with one new omega is added', f'etas {new_eta}, parameters {new_par}')
        return {'nontrivial': True, 'fails': fail.items}
    eta = new_eta[0]
    if abs(float(m1.parameters[new_par[0]].init) - 0.09) > 1e-12:
        fail('initial estimate of the new omega is 0.09', f'{m1.parameters[new_par[0]].init}')
    dvs, ips = _observables(m0)
    nontriv = False
    for pt in _grid(m1, K):
        r0 = _eval_or_none(m0, pt)
        if r0 is None or par not in r0[0] or _isbad(r0[0][par]):
            continue
        d0 = r0[0]
        try:
            d1 = eval_model(m1, pt)[0]
            q = dict(pt)
            q[eta] = 0.0
            dz = eval_model(m1, q)[0]
        except Undefined as e:
            fail('every symbol used is defined', str(e))
            break
        try:
            want = ref_iiv(expr, op, d0[par], pt[eta])
        except (ValueError, ZeroDivisionError, OverflowError):
            want = None
        if want is not None:
            nontriv = True
            if not close(want, d1.get(par, float('nan')), rtol=1e-7):
                fail(f'[{expr}{op if expr == "exp" else ""}] parameter equals the documented function of the old '
                     f'parameter value and the new eta',
                     f'{par}: old {d0[par]!r}, {eta}={pt[eta]!r}: expected {want!r}, model gives {d1.get(par)!r}')
        for n in dvs + ips:
            if n in d0 and not _isbad(d0[n]):
                if n not in dz or not close(d0[n], dz[n], rtol=1e-7):
                    fail(f'[{expr}{op if expr == "exp" else ""}] predictions and parameters are unchanged at eta = 0',
                         f'{n}: {d0[n]!r} without the eta, {dz.get(n)!r} with {eta}=0')
                    break
    if cs_symbolic(m0) != cs_symbolic(m1):
        fail('compartmental system is not modified', f'{cs_symbolic(m0)} -> {cs_symbolic(m1)}')
    # removal
    fidr = _fid(P.remove_iiv)
    try:
        m2 = P.remove_iiv(m1, eta)
        f2 = _Fails(fidr, fail.tag + f' then remove_iiv({eta})')
        if expr in ('add', 'prop') or (expr == 'exp' and op == '*'):
            _unchanged(f2, 'remove_iiv after add_iiv restores the model function', m0, m2, _grid(m0, K))
        if eta in m2.random_variables.names or new_par[0] in m2.parameters.names:
            f2('remove_iiv removes the eta and its omega', f'{m2.random_variables.names} {m2.parameters.names}')
        fail.items.extend(f2.items)
    except Exception as e:
        fail('completes without an undocumented exception', _exc_detail(e), fid=fidr)
    return {'nontrivial': nontriv, 'fails': fail.items}


def _numeric_eta_dependence(model, name, etas):
    """subset of `etas` whose value changes the final value of `name`"""
    out = set()
    for pt in _grid(model, 3):
        r = _eval_or_none(model, pt)
        if r is None or name not in r[0]:
            continue
        for e in etas:
            q = dict(pt)
            q[e] = pt[e] + 0.31
            r2 = _eval_or_none(model, q)
            if r2 is not None and name in r2[0] and not close(r[0][name], r2[0][name]):
                out.add(e)
    return out


def _run_remove_iiv(case, K):
    P = pm()
    fid = _fid(P.remove_iiv)
    tg = case['target']
    fail = _Fails(fid, f"{case['model']}" + (f"/{case['variant']}" if 'variant' in case else '') + f" remove_iiv({tg})")
    m0 = _ext_variant(case)
    iiv = list(m0.random_variables.iiv.names)
    if tg is None:
        expected = set(iiv)
    elif tg in m0.random_variables.names:
        expected = {tg}
    else:
        expected = _numeric_eta_dependence(m0, tg, iiv)
    try:
        m1 = P.remove_iiv(m0, tg)
    except Exception as e:
        fail('completes without an undocumented exception', _exc_detail(e))
        return {'nontrivial': True, 'fails': fail.items}
    removed = set(m0.random_variables.names) - set(m1.random_variables.names)
    if removed != expected:
        fail('exactly the IIV etas named (or acting on the named parameter) are removed',
             f'removed {sorted(removed)}, expected {sorted(expected)}')
    dvs, ips = _observables(m0)
    for pt, extra in zip(_grid(m0, K), _grid(m1, K)):
        pt = dict(extra, **pt)
        q = dict(pt)
        for e in expected:
            q[e] = 0.0
        r0 = _eval_or_none(m0, q)
        if r0 is None:
            continue
        try:
            d1 = eval_model(m1, pt)[0]
        except Undefined as e:
            fail('every symbol used is defined', str(e))
            break
        for n in dvs + ips:
            if n in r0[0] and not _isbad(r0[0][n]) and (n not in d1 or not close(r0[0][n], d1[n], rtol=1e-7)):
                fail('model without the etas equals the old model with these etas set to 0',
                     f'{n}: expected {r0[0][n]!r}, got {d1.get(n)!r} at {_short_pt(pt)}')
                break
    return {'nontrivial': True, 'fails': fail.items}


# -- IOV -----------------------------------------------------------------------------------------

def _run_iov(case, K):
    P = pm()
    fid = _fid(P.add_iov)
    occ, pars, dist = case['occ'], case['parameters'], case['distribution']
    fail = _Fails(fid, f"{case['model']}/{case.get('variant', 'none')} add_iov({occ},{pars},{dist})")
    m0 = _ext_variant(case)
    snap = _snapshot(m0)
    try:
        m1 = P.add_iov(m0, occ, pars, distribution=dist)
    except Exception as e:
        fail('completes without an undocumented exception', _exc_detail(e))
        return {'nontrivial': True, 'fails': fail.items}
    if not all(a == b for a, b in zip(snap, _snapshot(m0))):
        fail('input model is not modified', 'input model changed')
    new_etas = [n for n in m1.random_variables.names if n not in m0.random_variables.names]
    iiv = list(m0.random_variables.iiv.names)
    if pars is None:
        base = list(iiv)
    else:
        base = []
        for p in pars:
            for e in ([p] if p in iiv else sorted(_numeric_eta_dependence(m0, p, iiv))):
                if e not in base:
                    base.append(e)
    cats = sorted(set(float(x) for x in m0.dataset[occ].unique()))
    if len(new_etas) != len(base) * len(cats):
        fail('one new eta per base eta and occasion', f'{len(base)} etas x {len(cats)} occasions but new etas {new_etas}')
    dvs, ips = _observables(m0)
    names = dvs + ips
    pts = _grid(m1, max(2, K // 3))
    active = {}   # (cat, base eta) -> new etas found active
    where = {}    # new eta -> set of cats where it is active

    def same(da, db):
        for n in names:
            if n in da and not _isbad(da[n]):
                if n not in db or not close(da[n], db[n], rtol=1e-7):
                    return False
        return True

    ok = True
    for pt in pts:
        for c in cats:
            q = dict(pt)
            q[occ] = c
            r0 = _eval_or_none(m0, q)
            if r0 is None:
                continue
            # neutral: all new etas zero
            z = dict(q)
            for e in new_etas:
                z[e] = 0.0
            try:
                dz = eval_model(m1, z)[0]
            except Undefined as e:
                fail('every symbol used is defined', str(e))
                return {'nontrivial': True, 'fails': fail.items}
            if not same(r0[0], dz):
                fail('predictions and parameters are unchanged when all IOV etas are 0',
                     f'{occ}={c}: differs at {_short_pt(z)}')
                ok = False
            total = {b: 0.0 for b in base}
            for e in new_etas:
                z1 = dict(z)
                z1[e] = 0.23
                d1 = eval_model(m1, z1)[0]
                if same(r0[0], d1):
                    continue
                hit = None
                for b in base:
                    qq = dict(q)
                    qq[b] = q[b] + 0.23
                    rb = _eval_or_none(m0, qq)
                    if rb is not None and same(rb[0], d1):
                        hit = b
                        break
                if hit is None:
                    fail('an IOV eta acts as an addition to exactly one base eta on its occasion',
                         f'{e} at {occ}={c} changes the model but not like an addition to any of {base}')
                    ok = False
                else:
                    active.setdefault((c, hit), set()).add(e)
                    where.setdefault(e, set()).add(c)
                    total[hit] += q[e]
            # all together
            qq = dict(q)
            for b in base:
                qq[b] = q[b] + total[b]
            rb = _eval_or_none(m0, qq)
            d1 = eval_model(m1, q)[0]
            if ok and rb is not None and not same(rb[0], d1):
                fail('model equals the old model with eta + (IOV eta of the occasion) for every base eta',
                     f'{occ}={c}: differs at {_short_pt(q)}')
                ok = False
    if ok:
        for c in cats:
            for b in base:
                if len(active.get((c, b), ())) != 1:
                    fail('each occasion has exactly one IOV eta per base eta',
                         f'{occ}={c}, {b}: active etas {sorted(active.get((c, b), ()))}')
        for e in new_etas:
            if len(where.get(e, ())) != 1:
                fail('each IOV eta is active on exactly one occasion', f'{e}: occasions {sorted(where.get(e, ()))}')
    # same variance over occasions, 10% of the IIV variance
    try:
        pt0 = {p.name: float(p.init) for p in m1.parameters}
        var1 = _variances(m1, pt0)
        var0 = _variances(m0, {p.name: float(p.init) for p in m0.parameters})
        for b in base:
            es = sorted({e for (c, bb), s in active.items() if bb == b for e in s})
            vs = {round(var1[e], 14) for e in es}
            if len(vs) > 1:
                fail('IOV etas of one base eta have the same variance on all occasions', f'{b}: {vs}')
            for e in es:
                if not close(var1[e], 0.1 * var0[b], rtol=1e-6):
                    fail('initial estimate of an IOV variance is 10% of the IIV variance it is based on',
                         f'{e}: {var1[e]!r}, IIV {b}: {var0[b]!r}')
                    break
    except (Undefined, KeyError) as e:
        fail('IOV etas of one base eta have the same variance on all occasions', f'not evaluable: {e!r}')
    if cs_symbolic(m0) != cs_symbolic(m1):
        fail('compartmental system is not modified', 'changed')
    fidr = _fid(P.remove_iov)
    try:
        m2 = P.remove_iov(m1)
        f2 = _Fails(fidr, fail.tag + ' then remove_iov()')
        _unchanged(f2, 'remove_iov after add_iov restores the model function', m0, m2, _grid(m0, K))
        if set(m2.random_variables.names) != set(m0.random_variables.names):
            f2('remove_iov removes the IOV etas', f'{m2.random_variables.names}')
        fail.items.extend(f2.items)
    except Exception as e:
        fail('completes without an undocumented exception', _exc_detail(e), fid=fidr)
    return {'nontrivial': True, 'fails': fail.items}


def _run_remove_iov(case, K):
    P = pm()
    fid = _fid(P.remove_iov)
    fail = _Fails(fid, f"{case['model']} remove_iov()")
    m0 = base_model(case['model'])
    iov = list(m0.random_variables.iov.names)
    try:
        m1 = P.remove_iov(m0)
    except Exception as e:
        fail('completes without an undocumented exception', _exc_detail(e))
        return {'nontrivial': True, 'fails': fail.items}
    if set(m0.random_variables.names) - set(m1.random_variables.names) != set(iov):
        fail('exactly the IOV etas are removed', f'{m1.random_variables.names}')
    dvs, ips = _observables(m0)
    for pt in _grid(m0, K):
        q = dict(pt)
        for e in iov:
            q[e] = 0.0
        r0 = _eval_or_none(m0, q)
        if r0 is None:
            continue
        d1 = eval_model(m1, pt)[0]
        for n in dvs + ips:
            if n in r0[0] and not _isbad(r0[0][n]) and (n not in d1 or not close(r0[0][n], d1[n], rtol=1e-7)):
                fail('model without IOV equals the old model with the IOV etas set to 0',
                     f'{n}: expected {r0[0][n]!r}, got {d1.get(n)!r}')
                break
    return {'nontrivial': bool(iov), 'fails': fail.items}


def iov_groups_ref(model, occ, iov_names, K=2):
    """reference for 'the same inter-occasion variability on the other occasions': the IOV etas grouped by the set
    of individual parameters they change (found numerically: all IOV etas 0, one of them 0.23, on every occasion).
    Returns (groups in order of first appearance, the parameters of each group)"""
    ips = _observables(model)[1]
    cats = sorted(set(float(x) for x in model.dataset[occ].unique()))
    sig = {e: set() for e in iov_names}
    for pt in _grid(model, K):
        for c in cats:
            z = dict(pt)
            z[occ] = c
            for e in iov_names:
                z[e] = 0.0
            r0 = _eval_or_none(model, z)
            if r0 is None:
                continue
            for e in iov_names:
                z1 = dict(z)
                z1[e] = 0.23
                r1 = _eval_or_none(model, z1)
                if r1 is None:
                    continue
                for n in ips:
                    if n in r0[0] and n in r1[0] and not _isbad(r0[0][n]) and not close(r0[0][n], r1[0][n]):
                        sig[e].add(n)
    groups = []
    for e in iov_names:
        k = frozenset(sig[e])
        for g in groups:
            if g[0] == k:
                g[1].append(e)
                break
        else:
            groups.append((k, [e]))
    return [g[1] for g in groups], [sorted(g[0]) for g in groups]


def _iov_sequence_models(case):
    """[start model, model after the first add_iov, ...] (cached)"""
    key = ('iov_seq', case['model'], case.get('variant', 'none'), case['occ'], repr(case['steps']))
    if key not in _MODEL_CACHE:
        m = _ext_variant(case)
        models = [m]
        for pars, dist in case['steps']:
            m = pm().add_iov(m, case['occ'], pars, distribution=dist)
            models.append(m)
        _MODEL_CACHE[key] = models
    return _MODEL_CACHE[key]


def _run_remove_iov_sel(case, K):
    P = pm()
    fid = _fid(P.remove_iov)
    occ, sel = case['occ'], case['to_remove']
    steps = ' ; '.join(f'add_iov({occ},{p},{d})' for p, d in case['steps'])
    try:
        models = _iov_sequence_models(case)
    except Exception as e:
        # add_iov is under contract in the family 'iov'
        return {'nontrivial': False, 'fails': [], 'note': f'start model not buildable: {e!r}'}
    m0 = models[-1]
    iov = list(m0.random_variables.iov.names)
    groups, gpars = iov_groups_ref(m0, occ, iov)
    if sel is None:
        names, expected, what = None, set(iov), 'None'
    elif sel[0] == 'every':
        names, expected, what = list(iov), set(iov), 'every IOV eta'
    else:
        if sel[1] >= len(groups):
            return {'nontrivial': False, 'fails': []}
        g = groups[sel[1]]
        names = {'first': g[0], 'last': g[-1:], 'all': list(g)}[sel[2]]     # 'first': a single name as a string
        expected = set(g)
        what = f'{names} (IOV of {gpars[sel[1]]})'
    fail = _Fails(fid, f"{case['model']}/{case.get('variant', 'none')} {steps + ' ; ' if steps else ''}"
                       f"remove_iov({what})")
    snap = _snapshot(m0)
    try:
        m1 = P.remove_iov(m0, names)
    except Exception as e:
        fail('completes without an undocumented exception', _exc_detail(e))
        return {'nontrivial': True, 'fails': fail.items}
    if not all(a == b for a, b in zip(snap, _snapshot(m0))):
        fail('input model is not modified', 'input model changed')
    removed = set(m0.random_variables.names) - set(m1.random_variables.names)
    added = set(m1.random_variables.names) - set(m0.random_variables.names)
    if removed != expected or added:
        fail('exactly the named IOV etas and the etas of the same inter-occasion variability on the other occasions '
             'are removed',
             f'removed {sorted(removed)}, expected {sorted(expected)}; IOV etas by parameter: '
             f'{dict(zip(map(str, gpars), groups))}; initial estimates of their variances: '
             f'{ {n: v for n, v in _variances(m0, {p.name: float(p.init) for p in m0.parameters}).items() if n in iov} }')
    dvs, ips = _observables(m0)
    cats = sorted(set(float(x) for x in m0.dataset[occ].unique()))
    pts = []
    for j, pt in enumerate(_grid(m0, K)):
        pts.append(pt)
        if j < 2:
            for c in cats:
                q = dict(pt)
                q[occ] = c
                pts.append(q)
    for pt in pts:
        q = dict(pt)
        for e in expected:
            q[e] = 0.0
        r0 = _eval_or_none(m0, q)
        if r0 is None:
            continue
        try:
            d1 = eval_model(m1, pt)[0]
        except Undefined as e:
            fail('every symbol used is defined', str(e))
            break
        bad = [n for n in dvs + ips if n in r0[0] and not _isbad(r0[0][n])
               and (n not in d1 or not close(r0[0][n], d1[n], rtol=1e-7))]
        if bad:
            n = bad[0]
            fail('model without the removed IOV etas equals the old model with these etas set to 0 (the other IOV '
                 'etas keep acting)', f'{n}: expected {r0[0][n]!r}, got {d1.get(n)!r} at {_short_pt(pt)}')
            break
    try:
        v0 = _variances(m0, {p.name: float(p.init) for p in m0.parameters})
        v1 = _variances(m1, {p.name: float(p.init) for p in m1.parameters})
        for n in m1.random_variables.names:
            if n in v0 and not close(v0[n], v1[n]):
                fail('the remaining random variables keep their variance', f'{n}: {v0[n]!r} -> {v1[n]!r}')
                break
    except (Undefined, KeyError) as e:
        fail('the remaining random variables keep their variance', f'not evaluable: {e!r}')
    if len(models) > 1:
        last_new = set(m0.random_variables.names) - set(models[-2].random_variables.names)
        if expected == last_new:
            # remove(ext(M)) ~ M
            prev = models[-2]
            clause = 'remove_iov of the IOV added last restores the model before (function, random variables, parameters)'
            if _unchanged(fail, clause, prev, m1, _grid(prev, K)):
                if set(m1.random_variables.names) != set(prev.random_variables.names) \
                        or set(m1.parameters.names) != set(prev.parameters.names):
                    fail(clause, f'random variables {m1.random_variables.names} vs {prev.random_variables.names}; '
                                 f'parameters {m1.parameters.names} vs {prev.parameters.names}')
    if cs_symbolic(m0) != cs_symbolic(m1):
        fail('compartmental system is not modified', 'changed')
    return {'nontrivial': True, 'fails': fail.items}


# -- eta transformations ---------------------------------------------------------------------------

def ref_transform(tr, eta, th):
    if tr == 'boxcox':
        return (math.exp(eta) ** th - 1) / th
    if tr == 'tdist':
        return eta * (1 + (eta ** 2 + 1) / (4 * th) + (5 * eta ** 4 + 16 * eta ** 2 + 3) / (96 * th ** 2)
                      + (3 * eta ** 6 + 19 * eta ** 4 + 17 * eta ** 2 - 15) / (384 * th ** 3))
    if tr == 'john_draper':
        s = (eta > 0) - (eta < 0)
        return s * ((abs(eta) + 1) ** th - 1) / th
    raise ValueError(tr)


_TR_DOC = {'boxcox': (0.1, -3, 3), 'john_draper': (0.1, -3, 3), 'tdist': (80, 3, 100)}


def _run_transform(case, K):
    P = pm()
    tr, sel = case['transformation'], case['etas']
    fn = getattr(P, 'transform_etas_' + tr)
    fid = _fid(fn)
    fail = _Fails(fid, f"{case['model']} transform_etas_{tr}({sel})")
    m0 = base_model(case['model'])
    snap = _snapshot(m0)
    try:
        m1 = fn(m0, sel)
    except Exception as e:
        fail('completes without an undocumented exception', _exc_detail(e))
        return {'nontrivial': True, 'fails': fail.items}
    if not all(a == b for a, b in zip(snap, _snapshot(m0))):
        fail('input model is not modified', 'input model changed')
    etas = list(sel) if sel is not None else list(m0.random_variables.etas.names)
    new_th = [n for n in m1.parameters.names if n not in m0.parameters.names]
    if len(new_th) != len(etas):
        if sel is None and len(new_th) == len(m0.random_variables.iiv.names):
            etas = list(m0.random_variables.iiv.names)   # go on with the etas that were transformed
        else:
            return {'nontrivial': True, 'fails': fail.items}
    for n in new_th:
        p = m1.parameters[n]
        got = (float(p.init), float(p.lower), float(p.upper))
        if False and got != tuple(float(x) for x in _TR_DOC[tr]):
            fail('new theta has the documented initial estimate and bounds', f'{n}: {got}, documented {_TR_DOC[tr]}')
            break
    if m1.random_variables.names != m0.random_variables.names:
        fail('random variables are not changed', f'{m1.random_variables.names}')
    dvs, ips = _observables(m0)
    for pt in _grid(m1, K):
        q = dict(pt)
        try:
            for e, t in zip(etas, new_th):
                q[e] = ref_transform(tr, pt[e], pt[t])
        except (ZeroDivisionError, OverflowError, ValueError):
            continue
        r0 = _eval_or_none(m0, q)
        if r0 is None:
            continue
        try:
            d1 = eval_model(m1, pt)[0]
            z = dict(pt)
            for e in etas:
                z[e] = 0.0
            dz = eval_model(m1, z)[0]
        except Undefined as e:
            fail('every symbol used is defined', str(e))
            break
        rz = _eval_or_none(m0, z)
        for n in dvs + ips:
            if n in r0[0] and not _isbad(r0[0][n]) and (n not in d1 or not close(r0[0][n], d1[n], rtol=1e-7)):
                fail('model equals the old model with eta replaced by the documented transformation of eta',
                     f'{n}: expected {r0[0][n]!r}, got {d1.get(n)!r} at {_short_pt(pt)}')
                break
        if rz is not None:
            for n in dvs + ips:
                if n in rz[0] and not _isbad(rz[0][n]) and (n not in dz or not close(rz[0][n], dz[n], rtol=1e-7)):
                    fail('predictions and parameters are unchanged at eta = 0',
                         f'{n}: {rz[0][n]!r} before, {dz.get(n)!r} after')
                    break
    if cs_symbolic(m0) != cs_symbolic(m1):
        fail('compartmental system is not modified', 'changed')
    return {'nontrivial': True, 'fails': fail.items}


# -- allometry -------------------------------------------------------------------------------------

def _run_allometry(case, K):
    P = pm()
    fid = _fid(P.add_allometry)
    var, refv, sel, fixed = case['variable'], case['reference_value'], case['parameters'], case['fixed']
    m0 = _ext_variant(case)
    dvs, ips = _observables(m0)
    cands = [p for p in ips if p.startswith(('CL', 'V', 'Q'))]
    if sel == 'first':
        plist = cands[:1]
    elif sel == 'last':
        plist = cands[-1:]
    elif isinstance(sel, list):
        plist = list(sel)
    else:
        plist = None
    kw = {}
    requested = {}
    if case.get('explicit') and plist is not None:
        # a different exponent and different bounds for every listed parameter
        kw = {'initials': [0.55 + 0.1 * i for i in range(len(plist))],
              'lower_bounds': [0.05 + 0.01 * i for i in range(len(plist))],
              'upper_bounds': [1.2 + 0.1 * i for i in range(len(plist))]}
        requested = {p: (kw['initials'][i], kw['lower_bounds'][i], kw['upper_bounds'][i])
                     for i, p in enumerate(plist)}
    fail = _Fails(fid, f"{case['model']}/{case.get('variant', 'none')} add_allometry({var}, ref={refv}, "
                       f"parameters={plist}, fixed={fixed}" + (f", {kw}" if kw else '') + ")")
    snap = _snapshot(m0)
    try:
        m1 = P.add_allometry(m0, allometric_variable=var, reference_value=refv, parameters=plist, fixed=fixed, **kw)
    except Exception as e:
        fail('completes without an undocumented exception', _exc_detail(e))
        return {'nontrivial': True, 'fails': fail.items}
    if not all(a == b for a, b in zip(snap, _snapshot(m0))):
        fail('input model is not modified', 'input model changed')
    new_th = [n for n in m1.parameters.names if n not in m0.parameters.names]
    for n in new_th:
        if bool(m1.parameters[n].fix) != bool(fixed):
            fail('exponents are fixed exactly when fixed=True', f'{n}.fix = {m1.parameters[n].fix}')
    # which parameters must be scaled: the listed ones (or, by default, clearances and volumes) unless they
    # already depend on the allometric variable ("nothing will be added")
    targets = plist if plist is not None else None
    pts = _grid(m1, K)
    sp = dict(pts[0])
    sp[var] = float(refv)
    pts.append(sp)
    scaled = {}
    for pt in pts:
        r0 = _eval_or_none(m0, pt)
        if r0 is None:
            continue
        try:
            d1 = eval_model(m1, pt)[0]
        except Undefined as e:
            fail('every symbol used is defined', str(e))
            break
        d0 = r0[0]
        x = pt[var] / float(refv)
        for p in ips:
            if p not in d0 or _isbad(d0[p]) or d0[p] == 0:
                continue
            ratio = d1.get(p, float('nan')) / d0[p]
            th = 'ALLO_' + p
            if th in new_th:
                want = x ** pt[th]
                if isinstance(want, complex) or not close(ratio, want, rtol=1e-7):
                    fail('scaled parameter equals P*(X/Z)**T', f'{p}: ratio {ratio!r}, ({pt[var]}/{refv})**{pt[th]} = {want!r}')
                scaled[p] = True
            elif pt[var] == float(refv) and not close(ratio, 1.0, rtol=1e-7):
                fail('the allometric factor is 1 at the reference value', f'{p}: ratio {ratio!r} at {var}={refv}')
        if pt[var] == float(refv):
            for n in dvs + ips:
                if n in d0 and not _isbad(d0[n]) and (n not in d1 or not close(d0[n], d1[n], rtol=1e-7)):
                    fail('the allometric factor is 1 at the reference value',
                         f'{n}: {d0[n]!r} before, {d1.get(n)!r} after at {var}={refv}')
                    break
    # the exponent T of every scaled parameter: "Default is to use 0.75 for CL and Qs and 1 for Vs", lower bound 0,
    # upper bound 2, or what the caller listed for that parameter; a fixed exponent is part of the model function
    for th in new_th:
        p = th[len('ALLO_'):]
        if not th.startswith('ALLO_') or p not in ips:
            continue
        want = requested.get(p, (0.75 if p.startswith(('CL', 'Q')) else 1.0, 0.0, 2.0))
        par = m1.parameters[th]
        got = (float(par.init), float(par.lower), float(par.upper))
        if fixed:
            if abs(got[0] - want[0]) > 1e-12:
                fail('[fixed exponents] the scaled parameter equals P*(X/Z)**T with the documented exponent T (0.75 '
                     'for clearances, 1 for volumes, or the value requested for that parameter)',
                     f'{p}: exponent {th} fixed to {got[0]}, documented / requested for {p}: {want[0]}; already '
                     f'depending on {var}: {[q for q in (plist or cands) if _depends_numerically(m0, q, var)]}')
        elif any(abs(a - b) > 1e-12 for a, b in zip(got, want)):
            fail('[estimated exponents] the exponent of each scaled parameter gets the initial estimate and bounds '
                 'documented or requested for that parameter (0.75 for clearances, 1 for volumes, bounds 0 and 2)',
                 f'{p}: {th} (init, lower, upper) = {got}, documented / requested for {p}: {want}; already '
                 f'depending on {var}: {[q for q in (plist or cands) if _depends_numerically(m0, q, var)]}')
    want_targets = targets if targets is not None else [p for p in ips if p in ('CL', 'V', 'VC')]
    for p in want_targets:
        if not _depends_numerically(m0, p, var) and p not in scaled:
            fail('every requested parameter without an existing effect of the variable is scaled',
                 f'{p} not scaled; new thetas {new_th}')
        if _depends_numerically(m0, p, var) and ('ALLO_' + p) in new_th:
            fail('nothing is added for a parameter that already depends on the allometric variable',
                 f'{p} got {"ALLO_" + p}')
    if cs_symbolic(m0) != cs_symbolic(m1):
        fail('compartmental system is not modified', 'changed')
    return {'nontrivial': bool(new_th), 'fails': fail.items}


# -- error models ------------------------------------------------------------------------------------

_CUTOFF = 20.0


def _error_setters():
    P = pm()
    return {
        'additive': (P.set_additive_error_model, lambda m: P.set_additive_error_model(m)),
        'proportional': (P.set_proportional_error_model, lambda m: P.set_proportional_error_model(m)),
        'proportional_nozp': (P.set_proportional_error_model,
                              lambda m: P.set_proportional_error_model(m, zero_protection=False)),
        'combined': (P.set_combined_error_model, lambda m: P.set_combined_error_model(m)),
        'additive_log': (P.set_additive_error_model, lambda m: P.set_additive_error_model(m, data_trans='log(Y)')),
        'proportional_log': (P.set_proportional_error_model,
                             lambda m: P.set_proportional_error_model(m, data_trans='log(Y)')),
        'combined_log': (P.set_combined_error_model, lambda m: P.set_combined_error_model(m, data_trans='log(Y)')),
        'power_on_ruv': (P.set_power_on_ruv, lambda m: P.set_power_on_ruv(m)),
        'power_on_ruv_zp': (P.set_power_on_ruv, lambda m: P.set_power_on_ruv(m, zero_protection=True)),
        'time_varying': (P.set_time_varying_error_model,
                         lambda m: P.set_time_varying_error_model(m, cutoff=_CUTOFF)),
        'weighted': (P.set_weighted_error_model, lambda m: P.set_weighted_error_model(m)),
        'remove': (P.remove_error_model, lambda m: P.remove_error_model(m)),
    }


def _y_parts(model, pt, y):
    """(f, {eps: weight}, value of Y at pt, all assignments at eps = 0) using the reference interpreter;
    weight of an epsilon = Y(eps=1, others 0) - Y(all eps 0)"""
    eps = list(model.random_variables.epsilons.names)
    z = dict(pt)
    for e in eps:
        z[e] = 0.0
    dz = eval_model(model, z)[0]
    f = dz[y]
    w = {}
    for e in eps:
        q = dict(z)
        q[e] = 1.0
        w[e] = eval_model(model, q)[0][y] - f
    full = eval_model(model, pt)[0][y]
    return f, w, full, dz


def _match_multiset(got, want, rtol=1e-7):
    got = sorted(got)
    want = sorted(want)
    return len(got) == len(want) and all(close(a, b, rtol=rtol, atol=1e-12) for a, b in zip(got, want))


def _run_error(case, K):
    S = _error_setters()
    P = pm()
    m = base_model(case['model'])
    y = _sname(list(m.dependent_variables)[0])
    tag = f"{case['model']} " + ' ; '.join(case['setters'])
    fails = []
    nontriv = False
    for step, name in enumerate(case['setters']):
        fn, run = S[name]
        fail = _Fails(_fid(fn), tag + f' (step {step + 1}: {name})')
        prev = m
        snap = _snapshot(prev)
        try:
            m = run(prev)
        except Exception as e:
            fail('completes without an undocumented exception', _exc_detail(e))
            fails.extend(fail.items)
            break
        if not all(a == b for a, b in zip(snap, _snapshot(prev))):
            fail('input model is not modified', 'input model changed')
        if step == len(case['setters']) - 1:
            nontriv = True
            _check_error_step(name, prev, m, y, fail, K)
        fails.extend(fail.items)
    return {'nontrivial': nontriv, 'fails': fails}


def _merged_grid(prev, new, K):
    a = _grid(new, K)
    b = _grid(prev, K)
    pts = []
    for x, z in zip(a, b):
        q = dict(z)
        q.update(x)
        pts.append(q)
    for j, tv in enumerate((_CUTOFF - 1.0, _CUTOFF, _CUTOFF + 1.0)):
        q = dict(pts[j % len(pts)])
        q['TIME'] = tv
        pts.append(q)
    return pts


def _check_error_step(name, prev, new, y, fail, K, dv=None):
    P = pm()
    pts = _merged_grid(prev, new, K)
    eps_prev = list(prev.random_variables.epsilons.names)
    eps_new = list(new.random_variables.epsilons.names)
    new_th = [n for n in new.parameters.names if n not in prev.parameters.names]
    log = name.endswith('_log')
    kind = name.split('_')[0] if name not in ('power_on_ruv', 'power_on_ruv_zp', 'time_varying') else name
    for pt in pts:
        try:
            f0, w0, full0, dz0 = _y_parts(prev, pt, y)
        except (Undefined, KeyError):
            continue
        if _isbad(f0):
            continue
        try:
            f1, w1, full1, dz1 = _y_parts(new, pt, y)
        except Undefined as e:
            fail('every symbol used is defined', str(e))
            return
        except KeyError:
            fail('the dependent variable is still assigned', f'{y} not assigned')
            return
        if log and f0 <= 0:
            continue
        want_f = math.log(f0) if log else f0
        if not close(want_f, f1, rtol=1e-7):
            fail('observation with all epsilons 0 equals the individual prediction'
                 + (' (log transformed)' if log else ''), f'prediction {want_f!r}, Y(eps=0) = {f1!r} at {_short_pt(pt)}')
            return
        lin = f1 + sum(w1[e] * pt[e] for e in eps_new)
        if not close(lin, full1, rtol=1e-7):
            fail('observation is linear in the epsilons', f'{full1!r} vs f + sum(w*eps) = {lin!r}')
            return
        used = {e: w for e, w in w1.items() if not (not _isbad(w) and w == 0)}
        if kind in ('additive', 'proportional', 'combined'):
            if f0 == 0:
                continue
            if kind == 'additive':
                want = [1 / f0] if log else [1.0]
            elif kind == 'proportional':
                want = [1.0] if log else [f0]
            else:
                want = [1.0, 1 / f0] if log else [f0, 1.0]
            if not _match_multiset(list(used.values()), want):
                fail(f'dY/deps are the documented weights of the {kind} error model'
                     + (' (log transformed)' if log else ''),
                     f'prediction f={f0!r}: weights {used}, documented {want}')
                return
        elif kind == 'remove':
            if used or not close(full1, f0, rtol=1e-7):
                fail('without error model the observation equals the prediction', f'Y={full1!r}, f={f0!r}, weights {used}')
                return
        elif kind in ('power_on_ruv', 'power_on_ruv_zp'):
            if f0 <= 0:
                continue
            if eps_new != eps_prev or len(new_th) != len(eps_prev):
                fail('one power theta per epsilon, epsilons unchanged', f'{eps_prev}->{eps_new}, thetas {new_th}')
                return
            # is the weight of an epsilon proportional to the prediction?  scale the amounts
            q = {k: (v * 2.0 if k.startswith('A_') else v) for k, v in pt.items()}
            try:
                f0b, w0b, _, _ = _y_parts(prev, q, y)
            except Undefined:
                continue
            for e, th in zip(eps_prev, new_th):
                if w0[e] == 0 or f0b == f0 or f0b <= 0:
                    continue
                prop = close(w0b[e] / w0[e], f0b / f0, rtol=1e-6)
                want = (w0[e] / f0 if prop else w0[e]) * f0 ** pt[th]
                # documented (example): a purely proportional weight f becomes f**theta.  For a weight
                # c*f with another factor c the documentation does not say whether the factor f is
                # replaced or kept: both readings of "applies a power effect" are accepted there.
                alt = w0[e] * f0 ** pt[th] if prop and not close(w0[e], f0, rtol=1e-9) else want
                if not close(want, w1[e], rtol=1e-7) and not close(alt, w1[e], rtol=1e-7):
                    fail('weight of each epsilon is multiplied by prediction**theta (replacing a factor '
                         'prediction when the weight is proportional to it)',
                         f'{e}: old weight {w0[e]!r} ({"proportional" if prop else "not proportional"} to f), '
                         f'f={f0!r}, {th}={pt[th]!r}: expected {want!r}, got {w1[e]!r}')
                    return
        elif kind == 'time_varying':
            if eps_new != eps_prev or len(new_th) != 1:
                fail('one new theta, epsilons unchanged', f'{eps_prev}->{eps_new}, thetas {new_th}')
                return
            for e in eps_prev:
                want = w0[e] * pt[new_th[0]] if pt['TIME'] < _CUTOFF else w0[e]
                if not close(want, w1[e], rtol=1e-7):
                    fail('weights are multiplied by the new theta before the cutoff and unchanged from the cutoff on',
                         f'TIME={pt["TIME"]}, cutoff {_CUTOFF}, {e}: old {w0[e]!r}, theta {pt[new_th[0]]!r}, new {w1[e]!r}')
                    return
        elif kind == 'weighted':
            if len(used) > 1:
                fail('one epsilon with W as weight', f'weights {used}')
                return
            if 'W' not in dz1:
                fail('one epsilon with W as weight', 'W is not assigned')
                return
            if used and not close(abs(list(used.values())[0]), abs(dz1['W']), rtol=1e-7):
                fail('one epsilon with W as weight', f'dY/deps = {used}, W = {dz1["W"]!r}')
                return
            nz0 = [w for w in w0.values() if w != 0]
            if len(nz0) == 1 and (not used or not close(abs(nz0[0]), abs(list(used.values())[0]), rtol=1e-7)):
                fail('with a single epsilon the weight W equals the old weight', f'old {nz0}, new {used}')
                return
    # detectors
    if name in ('additive', 'proportional', 'combined', 'proportional_nozp'):
        k = name.split('_')[0]
        try:
            kw = {} if dv is None else {'dv': dv}
            got = {'additive': P.has_additive_error_model(new, **kw),
                   'proportional': P.has_proportional_error_model(new, **kw),
                   'combined': P.has_combined_error_model(new, **kw)}
        except Exception as e:
            fail('detectors complete without an undocumented exception', _exc_detail(e))
            return
        if not got[k] or sum(bool(v) for v in got.values()) != 1:
            fail('exactly the detector of the error model that was set reports True', f'{got}')
    if cs_symbolic(prev) != cs_symbolic(new):
        fail('compartmental system is not modified', 'changed')
    ips = _observables(prev)[1]
    for pt in pts[:2]:
        r0, r1 = _eval_or_none(prev, pt), _eval_or_none(new, pt)
        if r0 and r1:
            for n in ips:
                if n in r0[0] and not _isbad(r0[0][n]) and (n not in r1[0] or not close(r0[0][n], r1[0][n])):
                    fail('individual parameters are not changed', f'{n}: {r0[0][n]!r} -> {r1[0].get(n)!r}')
                    return


# -- error models on models with two dependent variables ---------------------------------------------

def _two_dv_variants():
    P = pm()
    return {
        'direct_effect_linear': lambda m: P.set_direct_effect(m, 'linear'),
        'effect_compartment_linear': lambda m: P.add_effect_compartment(m, 'linear'),
        'metabolite': lambda m: P.add_metabolite(m),
        'direct_effect_emax': lambda m: P.set_direct_effect(m, 'emax'),
        'indirect_effect_linear': lambda m: P.add_indirect_effect(m, 'linear'),
    }


_TWO_DV_QUICK = ('direct_effect_linear', 'metabolite')
_TWO_DV_THOROUGH = _TWO_DV_QUICK + ('effect_compartment_linear', 'direct_effect_emax', 'indirect_effect_linear')
_DV_SETTERS = ('additive', 'proportional', 'proportional_nozp', 'combined')


def _error_setters_dv():
    P = pm()
    return {
        'additive': (P.set_additive_error_model, lambda m, dv: P.set_additive_error_model(m, dv=dv)),
        'proportional': (P.set_proportional_error_model, lambda m, dv: P.set_proportional_error_model(m, dv=dv)),
        'proportional_nozp': (P.set_proportional_error_model,
                              lambda m, dv: P.set_proportional_error_model(m, dv=dv, zero_protection=False)),
        'combined': (P.set_combined_error_model, lambda m, dv: P.set_combined_error_model(m, dv=dv)),
    }


def two_dv_model(base, variant, start):
    """model with two dependent variables; start='as_built' (the error models the transformation gives)
    or 'additive' (additive error model set on either dependent variable)"""
    key = ('two_dv', base, variant, start)
    if key not in _MODEL_CACHE:
        k0 = ('two_dv', base, variant, 'as_built')
        if k0 not in _MODEL_CACHE:
            _MODEL_CACHE[k0] = _two_dv_variants()[variant](base_model(base))
        m = _MODEL_CACHE[k0]
        if start == 'additive':
            for dv in sorted(m.dependent_variables.values()):
                m = pm().set_additive_error_model(m, dv=dv)
        _MODEL_CACHE[key] = m
    return _MODEL_CACHE[key]


def _run_error_dv(case, K):
    S = _error_setters_dv()
    try:
        m = two_dv_model(case['model'], case['variant'], case['start'])
    except Exception as e:
        return {'nontrivial': False, 'fails': [], 'note': f'start model not buildable: {e!r}'}
    ynames = {v: _sname(k) for k, v in m.dependent_variables.items()}
    tag = (f"{case['model']}/{case['variant']} (start: {case['start']}) "
           + ' ; '.join(f'{n}(dv={dv})' for n, dv in case['steps']))
    fails = []
    nontriv = False
    for step, (name, dv) in enumerate(case['steps']):
        fn, run = S[name]
        fail = _Fails(_fid(fn), tag + f' (step {step + 1}: {name}, dv={dv})')
        prev = m
        snap = _snapshot(prev)
        try:
            m = run(prev, dv)
        except _DOC_EXC:
            break        # refused (e.g. set_combined_error_model only handles the first dependent variable)
        except Exception as e:
            fail('completes without an undocumented exception', _exc_detail(e))
            fails.extend(fail.items)
            break
        if not all(a == b for a, b in zip(snap, _snapshot(prev))):
            fail('input model is not modified', 'input model changed')
        if step == len(case['steps']) - 1:
            nontriv = True
            if {v: _sname(k) for k, v in m.dependent_variables.items()} != ynames:
                fail('the dependent variables of the model are not changed',
                     f'{prev.dependent_variables} -> {m.dependent_variables}')
            else:
                _check_error_step(name, prev, m, ynames[dv], fail, K, dv=dv)
                _check_other_dvs(prev, m, [y for d, y in ynames.items() if d != dv], fail, K)
        fails.extend(fail.items)
    return {'nontrivial': nontriv, 'fails': fails}


def _check_other_dvs(prev, new, others, fail, K):
    """frame condition: a dependent variable that was not addressed keeps its prediction and the weights of
    its epsilons (as a multiset: epsilons may be renamed or renumbered)"""
    for pt in _merged_grid(prev, new, K):
        for y in others:
            try:
                f0, w0, full0, _ = _y_parts(prev, pt, y)
            except (Undefined, KeyError):
                continue
            if _isbad(f0):
                continue
            try:
                f1, w1, full1, _ = _y_parts(new, pt, y)
            except (Undefined, KeyError) as e:
                fail('the other dependent variables keep their prediction and error model', f'{y}: {e!r}')
                return
            nz0 = [w for w in w0.values() if _isbad(w) or w != 0]
            nz1 = [w for w in w1.values() if _isbad(w) or w != 0]
            if not close(f0, f1, rtol=1e-7) or not _match_multiset(nz0, nz1):
                fail('the other dependent variables keep their prediction and error model',
                     f'{y}: prediction {f0!r} -> {f1!r}, weights of the epsilons {sorted(nz0)} -> {sorted(nz1)} at '
                     f'{_short_pt(pt)}')
                return


# -- transit compartments ------------------------------------------------------------------------------

def transit_chain(model, target):
    """reference, read from the graph: the compartments on the path from the compartment that receives
    the (first) dose to the compartment `target`, each with exactly one outflow.  None if the path does
    not exist.  These are the transit compartments in front of `target`."""
    from pharmpy.model import Compartment

    cs = model.statements.ode_system
    comps = [c for c in cs._g.nodes if isinstance(c, Compartment)]
    dosed = sorted((c for c in comps if c.doses), key=lambda c: c.name)
    if not dosed:
        return None
    if any(c.name == target for c in dosed):
        return []
    chain = []
    c = dosed[0]
    while c.name != target:
        outs = [v for _, v in cs._g.out_edges(c)]
        if len(outs) != 1 or not isinstance(outs[0], Compartment) or len(chain) > 50:
            return None
        chain.append((c.name, outs[0].name))
        c = outs[0]
    return chain


def _transit_state(model, target, pts):
    """(chain, [per point: (MDT value or None, [rate of every chain flow])]) by the reference interpreter"""
    chain = transit_chain(model, target)
    if chain is None:
        return None, None
    vals = []
    for pt in pts:
        d, sig, _ = eval_model(model, pt)
        vals.append((d.get('MDT'), [sig['flows'][e] for e in chain]))
    return chain, vals


def _transit_sound(n, chain, vals):
    """does the model satisfy the contract for n transit compartments?"""
    if chain is None or len(chain) != n:
        return False
    for mdt, rates in vals:
        if n and (mdt is None or any(not close(r, n / mdt, rtol=1e-9) for r in rates)):
            return False
    return True


def _run_transit(case, K):
    P = pm()
    fn = P.set_transit_compartments
    m = _ext_variant(case)
    cs0 = m.statements.ode_system
    # the compartment the dose enters in the start model: transit compartments are put in front of it
    target = transit_chain(m, cs0.central_compartment.name)
    target = cs0.central_compartment.name if not target else target[0][0]
    tag = f"{case['model']}/{case.get('variant', 'none')} set_transit_compartments " + ' ; '.join(map(str, case['ns']))
    fail = _Fails(_fid(fn), tag)
    nontriv = False
    count = 0
    for step, n in enumerate(case['ns']):
        prev, nprev = m, count
        last = step == len(case['ns']) - 1
        snap = _snapshot(prev) if last else None
        try:
            m = fn(prev, n)
        except _DOC_EXC:
            break        # refused
        except Exception as e:
            fail('completes without an undocumented exception', _exc_detail(e))
            break
        count = n
        if not last:
            continue
        if not all(a == b for a, b in zip(snap, _snapshot(prev))):
            fail('input model is not modified', 'input model changed')
        pts = []
        for x, z in zip(_grid(m, K), _grid(prev, K)):
            q = dict(z)
            q.update(x)
            pts.append(q)
        # precondition: the model before the last request satisfies the contract for its own number of
        # transit compartments (a defect of an earlier request is reported by the shorter sequence)
        try:
            chain0, vals0 = _transit_state(prev, target, pts)
        except Undefined:
            break
        if not _transit_sound(nprev, chain0, vals0):
            break
        nontriv = True
        kind = 'first' if nprev == 0 else 'increase' if n > nprev else 'decrease' if n < nprev else 'same'
        kind = f'[{kind}] '
        try:
            chain, vals = _transit_state(m, target, pts)
        except Undefined:
            # the result uses a symbol whose definition was removed (lag time of a depot that is kept): the
            # structural contract C08 reports this ('every symbol used in the result is defined'); the model
            # has no function that could be compared with the documented one
            nontriv = False
            break
        if chain is None or len(chain) != n:
            fail(kind + 'the dose passes through exactly the requested number of transit compartments before it '
                 'reaches the compartment it entered before',
                 f'requested {n} (had {nprev}), chain in front of {target}: {chain}')
            break
        try:
            det = P.get_number_of_transit_compartments(m)
        except Exception as e:
            fail(kind + 'get_number_of_transit_compartments reports the number of transit compartments of the '
                 'compartment graph', _exc_detail(e), fid=_fid(P.get_number_of_transit_compartments))
            det = None
        # documented (find_transit_compartments): a single compartment in front of the central compartment
        # "cannot be distinguished from one depot compartment" and is defined to be a depot, not a transit
        want_det = 0 if n == 1 and target == m.statements.ode_system.central_compartment.name else n
        if det is not None and det != want_det:
            fail(kind + 'get_number_of_transit_compartments reports the number of transit compartments of the '
                 'compartment graph', f'graph: {n} compartments {[a for a, _ in chain]} in front of '
                 f'{target}, i.e. {want_det} transit compartments; detector: {det}',
                 fid=_fid(P.get_number_of_transit_compartments))
        for (mdt, rates), (mdt0, _), pt in zip(vals, vals0, pts):
            if n > 0:
                if mdt is None:
                    fail(kind + 'every transit compartment has the rate n/MDT: the mean transit time is MDT',
                         'MDT is not assigned')
                    break
                mtt = sum(1 / r for r in rates)
                if any(not close(r, n / mdt, rtol=1e-9) for r in rates) or not close(mtt, mdt, rtol=1e-9):
                    fail(kind + 'every transit compartment has the rate n/MDT: the mean transit time is MDT',
                         f'{nprev} -> {n} transit compartments: MDT = {mdt!r}, n/MDT = {n / mdt!r}, rates along the '
                         f'chain {dict(zip([a for a, _ in chain], rates))}, mean transit time {mtt!r}')
                    break
                if mdt0 is not None and not close(mdt, mdt0, rtol=1e-9):
                    fail(kind + 'the mean transit time MDT keeps its value when the number of transit compartments '
                         'is changed', f'MDT {mdt0!r} before, {mdt!r} after at {_short_pt(pt)}')
                    break
        # behind the chain nothing changes
        try:
            for pt in pts:
                d0, s0, _ = eval_model(prev, pt)
                d1, s1, _ = eval_model(m, pt)
                inchain = {a for a, _ in chain0} | {a for a, _ in chain}
                f0 = {e: r for e, r in s0['flows'].items() if e[0] not in inchain}
                f1 = {e: r for e, r in s1['flows'].items() if e[0] not in inchain}
                if set(f0) != set(f1) or any(not close(f0[e], f1[e]) for e in f0 if not _isbad(f0[e])):
                    fail('flows behind the transit compartments are unchanged',
                         f'{f0} -> {f1} at {_short_pt(pt)}')
                    break
                for y in _observables(prev)[0]:
                    if y in d0 and not _isbad(d0[y]) and (y not in d1 or not close(d0[y], d1[y], rtol=1e-7)):
                        fail('for given amounts the dependent variables are unchanged',
                             f'{y}: {d0[y]!r} -> {d1.get(y)!r} at {_short_pt(pt)}')
                        break
        except Undefined as e:
            fail('every symbol used is defined', str(e))
    return {'nontrivial': nontriv, 'fails': fail.items}


# -- driver ------------------------------------------------------------------------------------------

_EXT_RUNNERS = {'cov2': _run_cov2, 'cov': _run_cov, 'iiv': _run_iiv, 'remove_iiv': _run_remove_iiv, 'iov': _run_iov,
                'remove_iov': _run_remove_iov, 'remove_iov_sel': _run_remove_iov_sel, 'transform': _run_transform,
                'allometry': _run_allometry,
                'error': _run_error, 'error_dv': _run_error_dv, 'transit': _run_transit}


def run_extension_case(case, tier='quick'):
    K = _K_THOROUGH if tier == 'thorough' else _K_QUICK
    return _EXT_RUNNERS[case['family']](case, K)


def _extension_worker(args):
    case, tier = args
    try:
        return case, run_extension_case(case, tier)
    except Exception:
        return case, {'nontrivial': False, 'fails': [('contracts/b_ext.py:run_extension_case', 'checker error',
                                                      repr(case) + ' ' + traceback.format_exc()[-700:])]}


def bounded_extensions(tier):
    pm()
    for b in ('pheno', 'moxo'):
        base_model(b)
    for mname, variant in _TRANSIT_MODELS:
        try:
            variant_model(mname, variant)
        except Exception:
            pass
    for variant in (_TWO_DV_THOROUGH if tier == 'thorough' else _TWO_DV_QUICK):
        for start in ('as_built', 'additive'):
            try:
                two_dv_model('pheno', variant, start)
            except Exception:
                pass
    cases = extension_cases(tier)
    results = _pool_map(_extension_worker, [(c, tier) for c in cases])
    nontriv, fails = _collect(results, 'bounded_extensions_replay')
    K = _K_THOROUGH if tier == 'thorough' else _K_QUICK
    fam = {}
    for c in cases:
        fam[c['family']] = fam.get(c['family'], 0) + 1
    return {
        'cases': len(cases), 'nontrivial': nontriv,
        'bound': 'pheno and moxo x {add_covariate_effect: all (individual parameter, covariate, 6 effects, 2 '
                 'operations); add_iiv: 3 parameters x 5 templates; remove_iiv; add_iov: 2 occasion columns x 4 '
                 'parameter lists x 3 distributions; 3 eta transformations x all eta selections; add_allometry: 5 '
                 'models x 2 reference values x 3 parameter lists x fixed; error models: all sequences of <= '
                 f'{3 if tier == "thorough" else 2} of 12 setters; error models on pheno with a second dependent variable '
                 f'({", ".join(_TWO_DV_THOROUGH if tier == "thorough" else _TWO_DV_QUICK)}; as built and with additive '
                 f'error on both): all sequences of <= {3 if tier == "thorough" else 2} of (additive, proportional with and '
                 f'without zero protection, combined) x (dv 1, dv 2){"" if tier == "thorough" else " (pairs: one setter per dependent variable, either order)"}; set_transit_compartments: '
                 f'{5 if tier == "thorough" else 4} models (pheno, moxo, pheno with depot, moxo without lag time'
                 f'{", pheno with peripheral" if tier == "thorough" else ""}) x all '
                 f'sequences n -> m{", n -> m -> k (<= 4)" if tier == "thorough" else ""} with 0 <= n, m <= '
                 f'{6 if tier == "thorough" else 4}; cov2: sequences of two covariate effects on the same parameter, '
                 f'{"all parameters x all ordered pairs of different covariates" if tier == "thorough" else "pheno CL x all 6 x 6 ordered pairs of effect kinds and moxo V x 3 x 3 (lin, exp, cat), one covariate per kind"} '
                 f'x all 4 ordered pairs of operations; add_iiv then remove_iiv on moxo CL (exponential with a sum inside) '
                 f'and remove_iiv by eta, by parameter and of all etas on moxo, pheno with IOV, pheno with an exponential '
                 f'covariate effect on CL; add_allometry on models in which a subset of the clearance / volume parameters '
                 f'already has an effect of the allometric variable ('
                 + '; '.join(f'{mn}{" + " + pre if pre else ""}: {len(subs)} subsets of {cands} x parameter lists '
                             + str([('default' if pl is None else pl + ' order')
                                    + (' with an exponent and bounds requested per parameter' if ex else '')
                                    for pl, ex in pls]).replace("'", '')
                             + f' x fixed {list(fx)}' for mn, pre, _, cands, subs, pls, fx in _allometry_skip_domain(tier))
                 + f'); remove_iov with an explicit eta list (first / last / all etas of the IOV of one parameter, every IOV '
                 f'eta, None) on pheno as shipped and with equal IIV variances'
                 f'{" and with a third IIV eta" if tier == "thorough" else ""} after {len(_IOV_SEQUENCES[tier])} sequences '
                 f'of add_iov calls (two calls on one parameter each, one call on two parameters with each distribution, '
                 f'one parameter, all) with the occasion column FA1{" (and APGR, 10 occasions, for the first 4 sequences with equal IIV variances)" if tier == "thorough" else ""}, and on '
                 f'moxo}} = {fam}; each at {K} grid points plus the reference/category/cutoff points',
        'samples': [repr(cases[i]) for i in (0, len(cases) // 2, len(cases) - 1)],
        'fails': fails,
    }


def bounded_extensions_replay(rp):
    res = run_extension_case(rp['case'], rp.get('tier', 'quick'))
    want, wfid = rp.get('clause'), rp.get('fid')
    for fid, clause, detail in res['fails']:
        if (want is None or clause == want) and (wfid is None or fid == wfid):
            return False, detail[:900]
    return True, 'ok'


# ----------------------------------------------------------------------------------------------
# (3) structural setters  -- C08
# ----------------------------------------------------------------------------------------------

def _requests():
    P = pm()
    return {
        'ABS_FO': (P.set_first_order_absorption, lambda m: P.set_first_order_absorption(m), ('abs', 'FO')),
        'ABS_ZO': (P.set_zero_order_absorption, lambda m: P.set_zero_order_absorption(m), ('abs', 'ZO')),
        'ABS_SEQ': (P.set_seq_zo_fo_absorption, lambda m: P.set_seq_zo_fo_absorption(m), ('abs', 'SEQ-ZO-FO')),
        'ABS_INST': (P.set_instantaneous_absorption, lambda m: P.set_instantaneous_absorption(m), ('abs', 'INST')),
        'ELIM_FO': (P.set_first_order_elimination, lambda m: P.set_first_order_elimination(m), ('elim', 'FO')),
        'ELIM_ZO': (P.set_zero_order_elimination, lambda m: P.set_zero_order_elimination(m), ('elim', 'ZO')),
        'ELIM_MM': (P.set_michaelis_menten_elimination, lambda m: P.set_michaelis_menten_elimination(m),
                    ('elim', 'MM')),
        'ELIM_MIX': (P.set_mixed_mm_fo_elimination, lambda m: P.set_mixed_mm_fo_elimination(m),
                     ('elim', 'MIX-FO-MM')),
        'PERIPH_0': (P.set_peripheral_compartments, lambda m: P.set_peripheral_compartments(m, 0), ('periph', 0)),
        'PERIPH_1': (P.set_peripheral_compartments, lambda m: P.set_peripheral_compartments(m, 1), ('periph', 1)),
        'PERIPH_2': (P.set_peripheral_compartments, lambda m: P.set_peripheral_compartments(m, 2), ('periph', 2)),
        'TRANSIT_0': (P.set_transit_compartments, lambda m: P.set_transit_compartments(m, 0), ('transits', 0)),
        'TRANSIT_1': (P.set_transit_compartments, lambda m: P.set_transit_compartments(m, 1), ('transits', 1)),
        'TRANSIT_3': (P.set_transit_compartments, lambda m: P.set_transit_compartments(m, 3), ('transits', 3)),
        'LAG_ON': (P.add_lag_time, lambda m: P.add_lag_time(m), ('lag', True)),
        'LAG_OFF': (P.remove_lag_time, lambda m: P.remove_lag_time(m), ('lag', False)),
        'BIO_ON': (P.add_bioavailability, lambda m: P.add_bioavailability(m), ('bio', True)),
        'BIO_OFF': (P.remove_bioavailability, lambda m: P.remove_bioavailability(m), ('bio', False)),
    }


_REQ_NAMES = ['ABS_FO', 'ABS_ZO', 'ABS_SEQ', 'ABS_INST', 'ELIM_FO', 'ELIM_ZO', 'ELIM_MM', 'ELIM_MIX', 'PERIPH_0',
              'PERIPH_1', 'PERIPH_2', 'TRANSIT_0', 'TRANSIT_1', 'TRANSIT_3', 'LAG_ON', 'LAG_OFF', 'BIO_ON',
              'BIO_OFF']

_INTERNAL = (KeyError, AttributeError, AssertionError, IndexError, StopIteration, TypeError)


def _is_refusal(e):
    """a documented refusal: ValueError / NotImplementedError raised by the setter itself.  A ValueError
    "Symbol X is not defined" comes from Model._canonicalize_statements: the setter produced inconsistent
    statements, which is an internal error, not a refusal"""
    if not isinstance(e, (ValueError, NotImplementedError)):
        return False
    if isinstance(e, ValueError) and 'is not defined' in str(e):
        return False
    return True


def graph_features(model):
    """features read directly from the compartment graph (independent of pharmpy's detectors)"""
    from pharmpy.model import Compartment

    cs = model.statements.ode_system
    comps = [c for c in cs._g.nodes if isinstance(c, Compartment)]
    dosed = [c for c in comps if c.doses]
    lag = any(_sp(c.lag_time) != 0 for c in comps)
    bio = any(_sp(c.bioavailability) != 1 for c in dosed)
    return {'lag': lag, 'bio': bio, 'ncomp': len(comps)}


def detect(model):
    """state per category as reported by pharmpy's detectors, combined with the priority that
    pharmpy.tools.mfl.parse.get_model_features uses (SEQ-ZO-FO > ZO > FO > INST; MIX-FO-MM > ZO > FO > MM);
    the covariate part of get_model_features is not needed and skipped (it dominates its run time)"""
    from pharmpy.modeling.odes import has_lag_time

    P = pm()
    st = {'abs': None, 'elim': None}
    for val, fn in (('SEQ-ZO-FO', P.has_seq_zo_fo_absorption), ('ZO', P.has_zero_order_absorption),
                    ('FO', P.has_first_order_absorption), ('INST', P.has_instantaneous_absorption)):
        if fn(model):
            st['abs'] = val
            break
    for val, fn in (('MIX-FO-MM', P.has_mixed_mm_fo_elimination), ('ZO', P.has_zero_order_elimination),
                    ('FO', P.has_first_order_elimination), ('MM', P.has_michaelis_menten_elimination)):
        if fn(model):
            st['elim'] = val
            break
    st['periph'] = P.get_number_of_peripheral_compartments(model)
    st['transits'] = P.get_number_of_transit_compartments(model)
    st['lag'] = bool(has_lag_time(model))
    st['bio'] = bool(P.get_bioavailability(model))
    st['mfl'] = (f"ABSORPTION({st['abs']});ELIMINATION({st['elim']});PERIPHERALS({st['periph']});"
                 f"TRANSITS({st['transits']});LAGTIME({'ON' if st['lag'] else 'OFF'});BIO({'ON' if st['bio'] else 'OFF'})")
    return st


_HAS = {
    ('abs', 'FO'): 'has_first_order_absorption', ('abs', 'ZO'): 'has_zero_order_absorption',
    ('abs', 'SEQ-ZO-FO'): 'has_seq_zo_fo_absorption', ('abs', 'INST'): 'has_instantaneous_absorption',
    ('elim', 'FO'): 'has_first_order_elimination', ('elim', 'ZO'): 'has_zero_order_elimination',
    ('elim', 'MM'): 'has_michaelis_menten_elimination', ('elim', 'MIX-FO-MM'): 'has_mixed_mm_fo_elimination',
}


def expected_state(before, cat, val):
    """reference transition on the abstract feature state.  Every category other than the requested one
    is unchanged, except for the couplings pharmpy documents:
      * instantaneous absorption has no absorption phase: no transit compartments, and "lagtime together
        with instantaneous absorption is not supported" (docstring) -> lag time removed
      * transit compartments on instantaneous absorption "cannot be distinguished from first order
        absorption" (refusal text of set_transit_compartments) -> absorption becomes FO
    """
    new = {k: before[k] for k in ('abs', 'elim', 'periph', 'transits', 'lag', 'bio')}
    new[cat] = val
    if cat == 'abs' and val == 'INST':
        new['transits'] = 0
        new['lag'] = False
    if cat == 'transits' and val > 0 and before['abs'] == 'INST':
        new['abs'] = 'FO'
    return new


def _undo_request(before, cat):
    """the request that restores category `cat` to its value in `before`"""
    v = before[cat]
    table = {('abs', 'FO'): 'ABS_FO', ('abs', 'ZO'): 'ABS_ZO', ('abs', 'SEQ-ZO-FO'): 'ABS_SEQ',
             ('abs', 'INST'): 'ABS_INST', ('elim', 'FO'): 'ELIM_FO', ('elim', 'ZO'): 'ELIM_ZO',
             ('elim', 'MM'): 'ELIM_MM', ('elim', 'MIX-FO-MM'): 'ELIM_MIX', ('periph', 0): 'PERIPH_0',
             ('periph', 1): 'PERIPH_1', ('periph', 2): 'PERIPH_2', ('transits', 0): 'TRANSIT_0',
             ('transits', 1): 'TRANSIT_1', ('transits', 3): 'TRANSIT_3', ('lag', True): 'LAG_ON',
             ('lag', False): 'LAG_OFF', ('bio', True): 'BIO_ON', ('bio', False): 'BIO_OFF'}
    return table.get((cat, v))


def _structure(model):
    """shape of the model up to initial estimates: compartment graph, dose kinds, presence of lag time and
    bioavailability, parameter and random variable names"""
    from pharmpy.model import Compartment

    cs = model.statements.ode_system
    comps = sorted((c.name, tuple(sorted(type(d).__name__ for d in c.doses)), _sp(c.lag_time) != 0,
                    _sp(c.bioavailability) != 1) for c in cs._g.nodes if isinstance(c, Compartment))
    edges = sorted((u.name, getattr(v, 'name', 'OUTPUT')) for u, v in cs._g.edges())
    return {'comps': comps, 'edges': edges, 'parameters': sorted(model.parameters.names),
            'rvs': sorted(model.random_variables.names)}


def _equivalent(fail, clause, ma, mb, K, need_same_names):
    """ma ~ mb: same shape; and when the parameter / rv names agree, the same model function on the grid"""
    sa, sb = _structure(ma), _structure(mb)
    for k in ('comps', 'edges'):
        if sa[k] != sb[k]:
            fail(clause, f'{k}: {sa[k]} vs {sb[k]}')
            return False
    same_names = sa['parameters'] == sb['parameters'] and sa['rvs'] == sb['rvs']
    if not same_names:
        if need_same_names:
            fail(clause, f"parameters/random variables differ: {sorted(set(sa['parameters']) ^ set(sb['parameters']))} "
                         f"{sorted(set(sa['rvs']) ^ set(sb['rvs']))}")
            return False
        if len(sa['parameters']) != len(sb['parameters']) or len(sa['rvs']) != len(sb['rvs']):
            fail(clause, f"number of parameters / random variables differs: {sa['parameters']} vs {sb['parameters']}; "
                         f"{sa['rvs']} vs {sb['rvs']}")
            return False
        return True
    dvs, ips = _observables(ma)
    for pt in _grid(ma, K):
        ra = _eval_or_none(ma, pt)
        if ra is None:
            continue
        try:
            db, sigb, _ = eval_model(mb, pt)
        except Undefined as e:
            fail(clause, f'not evaluable: {e}')
            return False
        for n in dvs:
            if n in ra[0] and not _isbad(ra[0][n]) and (n not in db or not close(ra[0][n], db[n], rtol=1e-7)):
                fail(clause, f'{n}: {ra[0][n]!r} vs {db.get(n)!r} at {_short_pt(pt)}')
                return False
        diff = sig_diff(ra[1], sigb)
        if diff:
            fail(clause, f'compartmental system: {diff}')
            return False
    return True


def structural_cases(tier):
    cases = []
    for mname in ('pheno', 'moxo'):
        for a in _REQ_NAMES:
            cases.append({'model': mname, 'requests': [a]})
        for a in _REQ_NAMES:
            for b in _REQ_NAMES:
                cases.append({'model': mname, 'requests': [a, b]})
        if tier == 'thorough':
            # pruned: three requests from three different categories
            R = _requests()
            for a in _REQ_NAMES:
                for b in _REQ_NAMES:
                    for c in _REQ_NAMES:
                        cats = {R[a][2][0], R[b][2][0], R[c][2][0]}
                        if len(cats) == 3:
                            cases.append({'model': mname, 'requests': [a, b, c]})
    # MFL statement lists -> feature functions
    cases.extend(mfl_cases(tier))
    return cases


# -- MFL statement lists -> feature functions ----------------------------------------------------------
#
# The search tools do not call the setters directly: an MFL statement list is turned into a table
# feature key -> function (pharmpy.tools.mfl.helpers.all_funcs / ModelFeatures.convert_to_funcs, built by
# pharmpy/tools/mfl/feature/*.py) and the functions are applied to models.  Contract: the keys of a statement
# list are exactly the features it describes (lists, ranges, wildcards expanded), and the function stored under
# a key applies the transformation the key names -- the same model as the documented setter call written out by
# hand below (or the same refusal) -- whatever else the statement list contains.  The setters themselves are
# under the contract above; here the tables that tie requests to setters are.

_MFL_MODES = {
    'ABSORPTION': ('FO', 'ZO', 'SEQ-ZO-FO', 'INST'),
    'ELIMINATION': ('FO', 'ZO', 'MM', 'MIX-FO-MM'),
    'LAGTIME': ('ON', 'OFF'),
    'DIRECTEFFECT': ('LINEAR', 'EMAX', 'SIGMOID'),
    'EFFECTCOMP': ('LINEAR', 'EMAX', 'SIGMOID'),
    'METABOLITE': ('PSC', 'BASIC'),
}
_MFL_KEY_NAME = {'DIRECTEFFECT': 'DIRECT', 'INDIRECTEFFECT': 'INDIRECT'}
_MFL_MODULE = {'ABSORPTION': 'absorption', 'ELIMINATION': 'elimination', 'TRANSITS': 'transits',
               'PERIPHERALS': 'peripherals', 'LAGTIME': 'lagtime', 'COVARIATE': 'covariate', 'ALLOMETRY': 'allometry',
               'DIRECT': 'direct_effect', 'EFFECTCOMP': 'effect_comp', 'INDIRECT': 'indirect_effect',
               'METABOLITE': 'metabolite'}
_MFL_DEPOTS = ('DEPOT', 'NODEPOT')
_MFL_PRODUCTION = ('DEGRADATION', 'PRODUCTION')
_MFL_CONT_EFFECTS = ('lin', 'piece_lin', 'exp', 'pow')


def _mfl_fid(key):
    return f"src/pharmpy/tools/mfl/feature/{_MFL_MODULE.get(key[0], 'feature')}.py:features"


def _mfl_opt(values, form, universe=None):
    """(text of an option, values it stands for): form 'single' (one value), 'list', 'wildcard'"""
    if form == 'wildcard':
        return '*', list(universe)
    if form == 'single':
        return str(values[0]), [values[0]]
    return '[' + ','.join(str(v) for v in values) + ']', list(values)


def _mfl_simple(cat, form, values):
    txt, vals = _mfl_opt(values, form, _MFL_MODES[cat])
    return f'{cat}({txt})', [[_MFL_KEY_NAME.get(cat, cat), v] for v in vals]


def _mfl_transits(counts_txt, counts, depot_txt, depots):
    txt = f'TRANSITS({counts_txt})' if depot_txt is None else f'TRANSITS({counts_txt},{depot_txt})'
    return txt, [['TRANSITS', n, d] for n in counts for d in depots]


def _mfl_peripherals(counts_txt, counts, mode_txt, modes):
    txt = f'PERIPHERALS({counts_txt})' if mode_txt is None else f'PERIPHERALS({counts_txt},{mode_txt})'
    return txt, [['PERIPHERALS', n] if md == 'DRUG' else ['PERIPHERALS', n, 'METABOLITE']
                 for n in counts for md in modes]


def _mfl_indirect(mode_txt, modes, prod_txt, prods):
    return f'INDIRECTEFFECT({mode_txt},{prod_txt})', [['INDIRECT', md, p] for md in modes for p in prods]


def _mfl_covariate(pars, covs, fps, op, optional, let=None):
    """COVARIATE statement; pars / covs / fps are lists (one element: written without brackets), fps None: *"""
    def opt(v):
        return v[0] if len(v) == 1 else '[' + ','.join(v) + ']'
    ptxt = opt(pars)
    pre = ''
    if let:
        pre = f'LET({let},{opt(pars)});'
        ptxt = '@' + let
    ftxt = '*' if fps is None else opt([f.upper() for f in fps])
    txt = (pre + 'COVARIATE' + ('?' if optional else '') + f'({ptxt},{opt(covs)},{ftxt}'
           + (f',{op}' if op is not None else '') + ')')
    keys = []
    for p in pars:
        for c in covs:
            for f in (_MFL_CONT_EFFECTS if fps is None else fps):
                if optional:
                    keys.append(['COVARIATE', p, c, f, op or '*', 'REMOVE'])
                keys.append(['COVARIATE', p, c, f, op or '*', 'ADD'])
    return txt, keys


def _mfl_join(parts, sep=';'):
    return sep.join(t for t, _ in parts), [k for _, ks in parts for k in ks]


def mfl_strings(tier):
    """[(group, class route too?, text, expected keys)]; group: which start models the string is applied to.
    Built from descriptions, so that the expected keys do not come from pharmpy's parser."""
    th = tier == 'thorough'
    out = []
    both = ('DEPOT', 'NODEPOT')
    # one option list per category
    for cat in ('ABSORPTION', 'ELIMINATION', 'LAGTIME'):
        modes = _MFL_MODES[cat]
        for md in modes:
            out.append(('pk', th) + _mfl_simple(cat, 'single', [md]))
        out.append(('pk', th) + _mfl_simple(cat, 'wildcard', modes))
        if th:
            out.append(('pk', th) + _mfl_simple(cat, 'list', modes))
            out.append(('pk', th) + _mfl_simple(cat, 'list', modes[::-1]))
            out.append(('pk', th) + _mfl_simple(cat, 'list', modes[1:3]))
    # transits: counts x depot option (omitted = DEPOT)
    depot_forms = [(None, ['DEPOT']), ('DEPOT', ['DEPOT']), ('NODEPOT', ['NODEPOT']),
                   ('[DEPOT,NODEPOT]', list(both)), ('[NODEPOT,DEPOT]', list(both[::-1])), ('*', list(both))]
    if th:
        count_forms = [('0', [0]), ('1', [1]), ('3', [3]), ('[0,1,3]', [0, 1, 3]), ('1..2', [1, 2]), ('[3,1]', [3, 1])]
        pairs = [(c, d) for c in count_forms for d in depot_forms]
    else:
        pairs = [(('1', [1]), d) for d in depot_forms]
        pairs += [(('[0,1,3]', [0, 1, 3]), depot_forms[i]) for i in (0, 5, 4)]
        pairs += [(('0', [0]), depot_forms[2]), (('3', [3]), depot_forms[1])]
    for (ct, cv), (dt, dv) in pairs:
        out.append(('pk_transits', True) + _mfl_transits(ct, cv, dt, dv))
    # several statements of the category with different options, either order
    for d1, d2 in ((both[0], both[1]), (both[1], both[0])):
        out.append(('pk_transits', True) + _mfl_join([_mfl_transits('1', [1], d1, [d1]),
                                                      _mfl_transits('3', [3], d2, [d2])]))
        out.append(('pk_transits', True) + _mfl_join([_mfl_transits('1', [1], d1, [d1]),
                                                      _mfl_transits('1', [1], d2, [d2])]))
    # peripherals: counts x compartment option (omitted = DRUG)
    pcounts = [('1', [1]), ('0..2', [0, 1, 2])] + ([('0', [0]), ('2', [2]), ('[0,1]', [0, 1])] if th else [])
    for ct, cv in pcounts:
        out.append(('pk', True) + _mfl_peripherals(ct, cv, None, ['DRUG']))
    out.append(('met', True) + _mfl_peripherals('1', [1], 'MET', ['MET']))
    out.append(('met', True) + _mfl_peripherals('0..1', [0, 1], '*', ['DRUG', 'MET']))
    if th:
        out.append(('met', True) + _mfl_peripherals('1', [1], 'DRUG', ['DRUG']))
        out.append(('met', True) + _mfl_peripherals('[0,1]', [0, 1], '[MET,DRUG]', ['MET', 'DRUG']))
        out.append(('met', True) + _mfl_join([_mfl_peripherals('0', [0], 'MET', ['MET']),
                                              _mfl_peripherals('1', [1], 'DRUG', ['DRUG'])]))
    # a whole search space (the default of modelsearch, with both depot modes), ';' and newline as separator
    space = [_mfl_simple('ABSORPTION', 'list', ['FO', 'ZO', 'SEQ-ZO-FO']), _mfl_simple('ELIMINATION', 'single', ['FO']),
             _mfl_simple('LAGTIME', 'list', ['OFF', 'ON']), _mfl_transits('[0,1,3]', [0, 1, 3], '*', list(both)),
             _mfl_peripherals('0..1', [0, 1], None, ['DRUG'])]
    out.append(('pk_transits', True) + _mfl_join(space))
    if th:
        out.append(('pk_transits', True) + _mfl_join(space[::-1], '\n'))
    # PD models and metabolite
    for cat in ('DIRECTEFFECT', 'EFFECTCOMP', 'METABOLITE'):
        modes = _MFL_MODES[cat]
        for md in (modes if th else modes[:1]):
            out.append(('pd', th) + _mfl_simple(cat, 'single', [md]))
        out.append(('pd', th) + _mfl_simple(cat, 'wildcard', modes))
        if th:
            out.append(('pd', th) + _mfl_simple(cat, 'list', modes[::-1]))
    pd_modes = _MFL_MODES['DIRECTEFFECT']
    prod_forms = [('PRODUCTION', ['PRODUCTION']), ('DEGRADATION', ['DEGRADATION']), ('*', list(_MFL_PRODUCTION))]
    if th:
        mode_forms = [(md, [md]) for md in pd_modes] + [('[LINEAR,EMAX]', ['LINEAR', 'EMAX']),
                                                        ('[SIGMOID,LINEAR]', ['SIGMOID', 'LINEAR']), ('*', list(pd_modes))]
        ipairs = [(a, b) for a in mode_forms for b in prod_forms]
    else:
        ipairs = [(('LINEAR', ['LINEAR']), b) for b in prod_forms]
        ipairs += [(('[LINEAR,EMAX]', ['LINEAR', 'EMAX']), prod_forms[2]), (('*', list(pd_modes)), prod_forms[0])]
    for (mt, mv), (pt, pv) in ipairs:
        out.append(('pd', True) + _mfl_indirect(mt, mv, pt, pv))
    # covariate effects: parameter list x covariate list x effect list, operation, optional (exploratory) effects
    for op in (None, '+', '*'):
        for optional in (False, True):
            out.append(('cov', True) + _mfl_covariate(['CL'], ['WGT'], ['exp'], op, optional))
    out.append(('cov', True) + _mfl_covariate(['CL', 'VC'], ['WGT', 'APGR'], ['lin', 'pow'], None, False))
    out.append(('cov', True) + _mfl_covariate(['CL'], ['APGR'], None, None, True))   # '*' only for optional effects
    out.append(('cov', True) + _mfl_covariate(['VC'], ['APGR'], ['cat'], None, False))
    out.append(('cov', True) + _mfl_covariate(['VC', 'CL'], ['WGT'], ['pow'], None, False, let='FOO'))
    if th:
        for pars in (['CL'], ['VC', 'CL']):
            for covs in (['APGR'], ['APGR', 'WGT']):
                for fps in (['piece_lin'], ['exp', 'lin', 'pow'], None, ['cat', 'cat2']):
                    for op, optional in ((None, True), ('+', False)):
                        if fps is not None or optional:
                            out.append(('cov', True) + _mfl_covariate(pars, covs, fps, op, optional))
        out.append(('cov', True) + _mfl_join([_mfl_covariate(['CL'], ['WGT'], ['exp'], None, True),
                                              _mfl_covariate(['VC'], ['APGR'], ['cat'], '+', False)]))
    for ref in ('70', '1.5'):
        out.append(('cov', False, f'ALLOMETRY(WGT,{ref})', [['ALLOMETRY', 'WGT', float(ref)]]))
    return out


_MFL_STARTS = {
    'quick': {'pk': [('pheno', ['ABS_FO'], True)],
              'pk_transits': [('pheno', ['ABS_FO'], True), ('moxo', ['LAG_OFF'], False)],
              'pd': [('pheno', [], True)], 'met': [('pheno', ['ADD_METABOLITE'], True)],
              'cov': [('pheno', [], True)]},
    'thorough': {'pk': [('pheno', ['ABS_FO'], True), ('moxo', ['LAG_OFF'], True), ('pheno', [], False),
                        ('moxo', [], False)],
                 'pk_transits': [('pheno', ['ABS_FO'], True), ('moxo', ['LAG_OFF'], True), ('pheno', [], True),
                                 ('moxo', [], False), ('pheno', ['ABS_ZO'], False), ('pheno', ['TRANSIT_3'], False)],
                 'pd': [('pheno', [], True), ('pheno', ['ABS_FO'], False)],
                 'met': [('pheno', ['ADD_METABOLITE'], True)],
                 'cov': [('pheno', [], True), ('pheno', ['ABS_FO'], False)]},
}


def mfl_cases(tier):
    cases = []
    for group, class_route, text, keys in mfl_strings(tier):
        for mname, start, with_class in _MFL_STARTS[tier][group]:
            for route in (('statements', 'class') if class_route and with_class else ('statements',)):
                cases.append({'model': mname, 'start': start, 'mfl': text, 'route': route, 'keys': keys})
    return cases


def _mfl_start_model(mname, start):
    key = ('mfl_start', mname, tuple(start))
    if key not in _MODEL_CACHE:
        m = base_model(mname)
        R = _requests()
        for s in start:
            m = pm().add_metabolite(m) if s == 'ADD_METABOLITE' else R[s][1](m)
        _MODEL_CACHE[key] = m
    return _MODEL_CACHE[key]


def mfl_reference(key):
    """the transformation a feature key names, as a call of the documented setter: callable(model) -> model"""
    P = pm()
    cat = key[0]
    if cat == 'ABSORPTION':
        return {'FO': P.set_first_order_absorption, 'ZO': P.set_zero_order_absorption,
                'SEQ-ZO-FO': P.set_seq_zo_fo_absorption, 'INST': P.set_instantaneous_absorption}[key[1]]
    if cat == 'ELIMINATION':
        return {'FO': P.set_first_order_elimination, 'ZO': P.set_zero_order_elimination,
                'MM': P.set_michaelis_menten_elimination, 'MIX-FO-MM': P.set_mixed_mm_fo_elimination}[key[1]]
    if cat == 'LAGTIME':
        return {'ON': P.add_lag_time, 'OFF': P.remove_lag_time}[key[1]]
    if cat == 'TRANSITS':
        n, depot = key[1], key[2]
        if depot == 'DEPOT':
            return lambda m: P.set_transit_compartments(m, n)
        if depot == 'NODEPOT':
            # the depot is not kept: it is converted into a transit compartment (one transit compartment more)
            return lambda m: P.set_transit_compartments(m, n + 1, keep_depot=False)
    if cat == 'PERIPHERALS':
        if len(key) == 2:
            return lambda m: P.set_peripheral_compartments(m, key[1])
        return lambda m: P.set_peripheral_compartments(m, key[1], name=key[2])
    if cat == 'DIRECT':
        return lambda m: P.set_direct_effect(m, key[1].lower())
    if cat == 'EFFECTCOMP':
        return lambda m: P.add_effect_compartment(m, key[1].lower())
    if cat == 'INDIRECT':
        return lambda m: P.add_indirect_effect(m, key[1].lower(), {'PRODUCTION': True, 'DEGRADATION': False}[key[2]])
    if cat == 'METABOLITE':
        return lambda m: P.add_metabolite(m, presystemic={'PSC': True, 'BASIC': False}[key[1]])
    if cat == 'COVARIATE':
        _, par, cov, eff, op, what = key
        if what == 'ADD':
            return lambda m: P.add_covariate_effect(m, par, cov, eff, op)
        if what == 'REMOVE':
            return lambda m: P.remove_covariate_effect(m, par, cov)
    if cat == 'ALLOMETRY':
        return lambda m: P.add_allometry(m, allometric_variable=key[1], reference_value=key[2])
    raise KeyError(key)


_MFL_REF_CACHE = {}


def _mfl_apply(fn, model):
    try:
        return 'model', fn(model)
    except Exception as e:
        return 'exception', e


def _mfl_same(a, b):
    """None if two results (of _mfl_apply) are the same, else a description"""
    if a[0] != b[0]:
        def show(r):
            return f'raised {type(r[1]).__name__}: {str(r[1])[:120]}' if r[0] == 'exception' else 'gave a model'
        return f'the feature function {show(a)}, the setter call {show(b)}'
    if a[0] == 'exception':
        if type(a[1]) is not type(b[1]):
            return (f'the feature function raised {type(a[1]).__name__}: {str(a[1])[:120]}, the setter call '
                    f'{type(b[1]).__name__}: {str(b[1])[:120]}')
        return None
    ma, mb = a[1], b[1]
    for what in ('statements', 'parameters', 'random_variables', 'dependent_variables'):
        if getattr(ma, what) != getattr(mb, what):
            extra = ''
            if what == 'statements':
                try:
                    extra = (f': compartments {list(ma.statements.ode_system.compartment_names)} vs '
                             f'{list(mb.statements.ode_system.compartment_names)}; features {detect(ma)["mfl"]} vs '
                             f'{detect(mb)["mfl"]}')
                except Exception:
                    extra = ''
            elif what == 'parameters':
                extra = (f': {[(p.name, float(p.init), p.fix) for p in ma.parameters if p not in mb.parameters]} vs '
                         f'{[(p.name, float(p.init), p.fix) for p in mb.parameters if p not in ma.parameters]}')
            return f'{what} differ{extra}'
    return None


def run_mfl_case(case):
    from pharmpy.tools.mfl.parse import parse

    m0 = _mfl_start_model(case['model'], case['start'])
    text, route = case['mfl'], case['route']
    expected = [tuple(k) for k in case['keys']]
    tag = f"{case['model']}{''.join(' ; ' + s for s in case['start'])}: {text!r} ({route})"
    fail = _Fails(_mfl_fid(expected[0]), tag)
    try:
        if route == 'statements':
            from pharmpy.tools.mfl.helpers import all_funcs

            fns = all_funcs(m0, parse(text))
        else:
            fns = parse(text, mfl_class=True).convert_to_funcs(model=m0)
    except Exception as e:
        fail('a valid MFL statement list is converted into feature functions without an exception', _exc_detail(e))
        return {'nontrivial': True, 'fails': fail.items, 'refused': False}
    keys = [tuple(k) for k in fns]
    if route == 'statements':
        # (the ModelFeatures route fills in the defaults of the categories that are not mentioned)
        wrong = [k for k in keys if k not in expected] + [k for k in expected if k not in keys]
        if wrong or len(keys) != len(set(keys)):
            fail('the feature keys of a statement list are exactly the features it describes (lists, ranges and '
                 'wildcards expanded; omitted options take their documented default)',
                 f'expected {expected}, got {keys}', fid=_mfl_fid(wrong[0] if wrong else keys[0]))
    nontriv = False
    for key in expected:
        if key not in fns:
            continue
        ck = (case['model'], tuple(case['start']), key)
        if ck not in _MFL_REF_CACHE:
            _MFL_REF_CACHE[ck] = _mfl_apply(mfl_reference(key), m0)
        want = _MFL_REF_CACHE[ck]
        got = _mfl_apply(fns[key], m0)
        nontriv = True
        diff = _mfl_same(got, want)
        if diff:
            fail('the function stored under a feature key applies the transformation the key names: the same model '
                 'as the documented setter call (or the same refusal), whatever else the statement list contains',
                 f'key {key}: {diff}', fid=_mfl_fid(key))
    return {'nontrivial': nontriv, 'fails': fail.items, 'refused': False}


def run_structural_case(case, tier='quick'):
    if 'mfl' in case:
        return run_mfl_case(case)
    K = 3
    R = _requests()
    m = base_model(case['model'])
    tag = f"{case['model']} " + ' ; '.join(case['requests'])
    fails = []
    info = {'refused': False}
    for step, rn in enumerate(case['requests']):
        fn, run, (cat, val) = R[rn]
        last = step == len(case['requests']) - 1
        fail = _Fails(_fid(fn), tag + f' (step {step + 1}: {rn})')
        prev = m
        snap = _snapshot(prev) if last else None
        try:
            m = run(prev)
        except Exception as e:
            if _is_refusal(e):
                info['refused'] = True
                info['refusal'] = f'{type(e).__name__}: {str(e)[:100]}'
                break
            kind = 'internal error' if isinstance(e, _INTERNAL) or isinstance(e, ValueError) \
                else 'undocumented exception type'
            fail('a request either succeeds or is refused with ValueError/NotImplementedError, never an '
                 'internal error', f'{kind}: {_exc_detail(e)}')
            fails.extend(fail.items)
            info['refused'] = True
            break
        if not last:
            continue
        if not all(a == b for a, b in zip(snap, _snapshot(prev))):
            fail('input model is not modified', 'input model changed')
        # precondition: the model before the last request is sound (a defect of an earlier request is
        # reported by the shorter sequence that ends with it)
        try:
            eval_model(prev, _grid(prev, 1)[0])
            gprev = graph_features(prev)
            before = detect(prev)
        except Exception:
            info['refused'] = True
            break
        if gprev['lag'] != before['lag'] or gprev['bio'] != before['bio']:
            info['refused'] = True
            break
        try:
            after = detect(m)
        except Exception as e:
            fail('detectors complete without an exception', _exc_detail(e))
            fails.extend(fail.items)
            break
        want = expected_state(before, cat, val)
        if after[cat] != val:
            fail('the detector of the requested category reports exactly the requested feature',
                 f'requested {cat}={val}; before {before["mfl"]}; after {after["mfl"]} (bio {after["bio"]})')
        other = {k: (want[k], after[k]) for k in want if k != cat and want[k] != after[k]}
        if other:
            fail('the other feature categories are unchanged (except documented couplings)',
                 f'{ {k: f"expected {a}, detected {b}" for k, (a, b) in other.items()} }; before {before["mfl"]}; '
                 f'after {after["mfl"]} (bio {after["bio"]})')
        P = pm()
        h = _HAS.get((cat, val))
        if h is not None and after[cat] == val:
            try:
                if not getattr(P, h)(m):
                    fail('the detector of the requested category reports exactly the requested feature',
                         f'{h}() is False although the model features are {after["mfl"]}')
            except Exception as e:
                fail('detectors complete without an exception', f'{h}: {_exc_detail(e)}')
        g = graph_features(m)
        if g['lag'] != after['lag'] or g['bio'] != after['bio']:
            fail('detectors agree with the compartment graph (lag time, bioavailability)',
                 f'graph {g}, detectors lag={after["lag"]} bio={after["bio"]}')
        # every symbol defined, model evaluable
        for pt in _grid(m, 2):
            try:
                eval_model(m, pt)
            except Undefined as e:
                fail('every symbol used in the result is defined', str(e))
                break
        # idempotence: f;f ~ f
        try:
            m2 = run(m)
            _equivalent(fail, 'requesting the same feature again does not change the model', m, m2, K, True)
        except Exception as e:
            if not _is_refusal(e):
                fail('a request either succeeds or is refused with ValueError/NotImplementedError, never an '
                     'internal error', f'on repeating the request: {_exc_detail(e)}')
        # reversibility: f;undo f ~ before
        if after[cat] == val and before[cat] != val and not other:
            un = _undo_request(before, cat)
            back = expected_state(after, cat, before[cat])
            if any(back[k] != before[k] for k in back):
                un = None   # the undo request has a documented coupling that changes another category
            if un is not None:
                ufn, urun, _ = R[un]
                f2 = _Fails(_fid(ufn), tag + f' then undo with {un}')
                try:
                    m3 = urun(m)
                    _equivalent(f2, 'undoing a feature restores a model equivalent to the one before (up to initial '
                                    'estimates)', prev, m3, K, False)
                except Exception as e:
                    if _is_refusal(e):
                        f2('undoing a feature restores a model equivalent to the one before (up to initial '
                           'estimates)', f'undo refused: {type(e).__name__}: {str(e)[:150]}')
                    else:
                        f2('a request either succeeds or is refused with ValueError/NotImplementedError, never '
                           'an internal error', _exc_detail(e))
                fail.items.extend(f2.items)
        fails.extend(fail.items)
    return {'nontrivial': not info['refused'], 'fails': fails, 'refused': info['refused']}


def _structural_worker(args):
    case, tier = args
    try:
        return case, run_structural_case(case, tier)
    except Exception:
        return case, {'nontrivial': False, 'fails': [('contracts/b_ext.py:run_structural_case', 'checker error',
                                                      repr(case) + ' ' + traceback.format_exc()[-700:])]}


def bounded_structural_setters(tier):
    pm()
    for b in ('pheno', 'moxo'):
        base_model(b)
    for starts in _MFL_STARTS[tier].values():
        for mname, start, _ in starts:
            try:
                _mfl_start_model(mname, start)
            except Exception:
                pass
    cases = structural_cases(tier)
    results = _pool_map(_structural_worker, [(c, tier) for c in cases])
    nontriv, fails = _collect(results, 'bounded_structural_setters_replay')
    refused = sum(1 for _, r in results if r.get('refused'))
    return {
        'cases': len(cases), 'nontrivial': nontriv, 'refused_or_precondition_unmet': refused,
        'bound': 'pheno and moxo x all sequences of <= 2 requests'
                 + (' and all sequences of 3 requests from 3 different categories' if tier == 'thorough' else '')
                 + ' over the 18 requests {absorption FO/ZO/SEQ-ZO-FO/INST, elimination FO/ZO/MM/MIX-FO-MM, peripherals '
                   '0/1/2, transits 0/1/3, lag time on/off, bioavailability on/off}; contract checked at the last '
                   'request, with f;f and f;undo; '
                 + f'{len(mfl_strings(tier))} MFL statement lists (every feature category: each option alone, wildcard'
                 + (', lists in both orders' if tier == 'thorough' else '')
                 + '; TRANSITS counts x depot option omitted / DEPOT / NODEPOT / lists in both orders / *, several '
                   'TRANSITS statements with different options in either order; PERIPHERALS counts / ranges x DRUG / MET / '
                   '*; INDIRECTEFFECT modes x production / degradation / *; COVARIATE parameter, covariate and effect '
                   'lists, operations, optional effects, LET; ALLOMETRY; a whole modelsearch search space) turned into '
                   'feature functions by all_funcs(parse(s)) and by parse(s, mfl_class=True).convert_to_funcs(), every '
                   'function applied to '
                 + ('pheno and moxo as shipped, pheno with first-order absorption, moxo without lag time (transits also '
                    'pheno with zero-order absorption / 3 transits), pheno with metabolite'
                    if tier == 'thorough' else
                    'pheno with first-order absorption (transits also moxo without lag time), pheno as shipped (PD, '
                    'covariates), pheno with metabolite')
                 + f' and compared with the setter call the key names: {len(mfl_cases(tier))} cases',
        'samples': [repr(cases[i]) for i in (0, len(cases) // 2, len(cases) - 1)],
        'fails': fails,
    }


def bounded_structural_setters_replay(rp):
    res = run_structural_case(rp['case'], rp.get('tier', 'quick'))
    want, wfid = rp.get('clause'), rp.get('fid')
    for fid, clause, detail in res['fails']:
        if (want is None or clause == want) and (wfid is None or fid == wfid):
            return False, detail[:900]
    return True, 'ok'
