"""Bounded contract checks ("bounded stand-ins") for C07 / C09 / C08.

  bounded_refactorings(tier)        C07  refactorings documented as function preserving
  bounded_extensions(tier)          C09  model extensions implement the documented formula
  bounded_structural_setters(tier)  C08  structural setters: detectable, idempotent, reversible, total

All three evaluate the REAL pharmpy functions over an exhaustively enumerated finite domain and compare
with an independent reference that lives in this file: a per-statement numeric interpreter of a model
(`eval_model`), which walks the statements in order, looks symbols up in an environment of inputs
(parameters, etas, epsilons, data columns, t, compartment amounts A_x(t)) and never calls pharmpy's
own full_expression / evaluators; a numeric signature of the compartmental system read from the graph;
a matrix-exponential reference solution of linear compartmental systems; documented covariate-effect
templates written out by hand; dataset statistics computed with numpy from the raw columns.

Labelled bounded, never counted as proved.
"""
import warnings

warnings.filterwarnings('ignore')

import cmath
import itertools
import math
import multiprocessing
import os
import traceback

import numpy as np
import sympy
from sympy.core.function import AppliedUndef

_PM = None


def pm():
    """pharmpy.modeling, imported lazily (and quietly)"""
    global _PM
    if _PM is None:
        import pharmpy.modeling as _pm

        _PM = _pm
    return _PM


# ----------------------------------------------------------------------------------------------
# reference interpreter
# ----------------------------------------------------------------------------------------------

class Undefined(Exception):
    pass


def _sp(e):
    """pharmpy Expr / BooleanExpr / str / number -> sympy"""
    if hasattr(e, '_sympy_'):
        return e._sympy_()
    return sympy.sympify(e)


def _sname(e):
    """name of an assignment target: 'CL' for a symbol, 'A_CENTRAL' for the function A_CENTRAL(t)"""
    s = _sp(e)
    if isinstance(s, sympy.Symbol):
        return s.name
    if isinstance(s, AppliedUndef):
        return s.func.__name__
    raise Undefined(f'unsupported assignment target {s!r}')


def _tonum(v):
    if isinstance(v, (int, np.integer)):
        return sympy.Integer(int(v))
    if isinstance(v, (float, np.floating)):
        f = float(v)
        if f == int(f) and abs(f) < 1e9:
            return sympy.Integer(int(f))
        return sympy.Float(f)
    if isinstance(v, complex):
        if v.imag == 0:
            return _tonum(v.real)
        return sympy.Float(v.real) + sympy.I * sympy.Float(v.imag)
    return sympy.sympify(v)


def num(expr, env):
    """numeric value of an expression in the environment env: name -> python number"""
    e = _sp(expr)
    rep = {}
    for a in e.atoms(AppliedUndef):
        k = a.func.__name__
        if k not in env:
            raise Undefined(f'undefined function symbol {a}')
        rep[a] = _tonum(env[k])
    for a in e.atoms(sympy.Symbol):
        if a.name in env:
            rep[a] = _tonum(env[a.name])
    e2 = e.xreplace(rep)
    if e2.free_symbols:
        names = sorted(s.name for s in e2.free_symbols)
        raise Undefined(f'undefined symbol(s) {names}')
    if e2.atoms(AppliedUndef):
        raise Undefined(f'undefined function symbol(s) {sorted(map(str, e2.atoms(AppliedUndef)))}')
    try:
        v = complex(sympy.N(e2, 17))
    except (TypeError, ValueError):
        if e2 in (sympy.zoo, sympy.nan, sympy.oo, -sympy.oo):
            return float('nan')
        raise Undefined(f'not numeric: {e2!r}')
    if v.imag == 0:
        return v.real
    return v


def _isbad(v):
    if isinstance(v, complex):
        return True
    return math.isnan(v) or math.isinf(v)


def close(a, b, rtol=1e-8, atol=1e-11):
    if _isbad(a) or _isbad(b):
        return False
    return abs(a - b) <= atol + rtol * max(abs(a), abs(b))


def ode_signature(cs, env):
    """numeric description of a compartmental system read directly from its graph"""
    from pharmpy.model import Bolus, Infusion, Compartment

    comps = {}
    flows = {}
    for c in cs._g.nodes:
        if not isinstance(c, Compartment):
            continue
        doses = []
        for d in c.doses:
            if isinstance(d, Bolus):
                doses.append(('bolus', d.admid, num(d.amount, env), None, None))
            elif isinstance(d, Infusion):
                doses.append(('infusion', d.admid, num(d.amount, env),
                              None if d.rate is None else num(d.rate, env),
                              None if d.duration is None else num(d.duration, env)))
            else:
                doses.append((type(d).__name__, d.admid, None, None, None))
        doses.sort(key=lambda x: (x[0], x[1]))
        comps[c.name] = {'doses': doses, 'lag': num(c.lag_time, env), 'bio': num(c.bioavailability, env),
                         'input': num(c.input, env), 'amount': _sname(c.amount)}
    for u, v, d in cs._g.edges(data=True):
        dst = v.name if isinstance(v, Compartment) else 'OUTPUT'
        flows[(u.name, dst)] = num(d['rate'], env)
    return {'comps': comps, 'flows': flows}


def _same_num(a, b):
    if a is None or b is None:
        return a is None and b is None
    return close(a, b)


def sig_diff(s1, s2):
    """None if two signatures agree (compartments matched by name), else a description"""
    if s1 is None or s2 is None:
        if s1 is None and s2 is None:
            return None
        return 'one model has a compartmental system, the other has none'
    if set(s1['comps']) != set(s2['comps']):
        return f"compartments {sorted(s1['comps'])} vs {sorted(s2['comps'])}"
    for n, c1 in s1['comps'].items():
        c2 = s2['comps'][n]
        if len(c1['doses']) != len(c2['doses']):
            return f"doses of {n}: {c1['doses']} vs {c2['doses']}"
        for d1, d2 in zip(c1['doses'], c2['doses']):
            if d1[0] != d2[0] or d1[1] != d2[1] or not all(_same_num(x, y) for x, y in zip(d1[2:], d2[2:])):
                return f"dose of {n}: {d1} vs {d2}"
        for k in ('lag', 'bio', 'input'):
            if not close(c1[k], c2[k]):
                return f"{k} of {n}: {c1[k]!r} vs {c2[k]!r}"
    nz1 = {k: v for k, v in s1['flows'].items() if not (not _isbad(v) and v == 0)}
    nz2 = {k: v for k, v in s2['flows'].items() if not (not _isbad(v) and v == 0)}
    if set(nz1) != set(nz2):
        return f"flows {sorted(nz1)} vs {sorted(nz2)}"
    for k in nz1:
        if not close(nz1[k], nz2[k]):
            return f"rate {k[0]}->{k[1]}: {nz1[k]!r} vs {nz2[k]!r}"
    return None


def ode_reference_amounts(sig, t):
    """amounts at time t after ONE dose event at time 0 (every bolus dose given once at time 0) for a
    linear system with constant rates: A(t) = expm(K (t - lag)) F dose.  Independent of sympy.dsolve."""
    names = sorted(sig['comps'])
    idx = {n: i for i, n in enumerate(names)}
    n = len(names)
    K = np.zeros((n, n))
    for (u, v), r in sig['flows'].items():
        K[idx[u], idx[u]] -= r
        if v != 'OUTPUT':
            K[idx[v], idx[u]] += r
    out = np.zeros(n)
    for name, c in sig['comps'].items():
        for d in c['doses']:
            if d[0] != 'bolus':
                raise Undefined('reference solution only for bolus doses')
            tt = t - c['lag']
            if tt < 0:
                continue
            a0 = np.zeros(n)
            a0[idx[name]] = d[2] * c['bio']
            out += _expm(K * tt) @ a0
    return {sig['comps'][nm]['amount']: float(out[idx[nm]]) for nm in names}


def _expm(M):
    # scaling and squaring with a Taylor series: small matrices, modest norms
    nrm = np.linalg.norm(M, 1)
    s = max(0, int(math.ceil(math.log2(nrm))) + 4) if nrm > 0 else 0
    A = M / (2 ** s)
    E = np.eye(M.shape[0])
    term = np.eye(M.shape[0])
    for k in range(1, 40):
        term = term @ A / k
        E = E + term
    for _ in range(s):
        E = E @ E
    return E


def eval_model(model, point, amounts='input'):
    """walk the statements in order.  Returns (defined: name -> value of its LAST assignment,
    signature of the compartmental system or None, env at the end).
    amounts='input': A_x(t) are free inputs taken from `point`;
    amounts='ode'  : A_x(t) come from the reference solution of the compartmental system at point['t']"""
    from pharmpy.model import Assignment, CompartmentalSystem

    env = dict(point)
    defined = {}
    sig = None
    for s in model.statements:
        if isinstance(s, Assignment):
            v = num(s.expression, env)
            k = _sname(s.symbol)
            env[k] = v
            defined[k] = v
        elif isinstance(s, CompartmentalSystem):
            sig = ode_signature(s, env)
            if amounts == 'ode':
                am = ode_reference_amounts(sig, env['t'])
                env.update(am)
                defined.update(am)
        else:
            raise Undefined(f'unknown statement type {type(s).__name__}')
    return defined, sig, env


# ----------------------------------------------------------------------------------------------
# grid of input points
# ----------------------------------------------------------------------------------------------

_FACT = [0.7, 1.3, 1.0, 0.85, 1.2, 1.1, 0.6, 1.45, 0.95, 1.05, 0.8, 1.25]
_OFFS = [0.013, -0.007, 0.0, 0.004, -0.011, 0.009, 0.002, -0.003, 0.006, -0.005, 0.001, 0.008]
_TIMES = [0.5, 1.75, 0.0, 3.0, 12.0, 24.5, 0.25, 7.0, 2.0, 48.0, 5.5, 1.0]
_SYNTH = [3, 8, 1, 0, 5, 2]


def _pval(p, i, k):
    init = float(p.init)
    if p.fix:
        return init
    lo, up = float(p.lower), float(p.upper)
    f = _FACT[(i + k) % len(_FACT)]
    o = _OFFS[(2 * i + k) % len(_OFFS)]
    for v in (init * f + o, init * f, init + o, init):
        if lo < v < up and (v != 0 or init == 0):
            return v
    return init


def zero_variance_rvs(model):
    """names of random variables whose variance is a parameter fixed to 0 (or literally 0)"""
    out = set()
    pars = {p.name: p for p in model.parameters}
    for dist in model.random_variables:
        var = dist.variance
        names = dist.names
        if len(names) == 1:
            diag = [var]
        else:
            diag = [var[i, i] for i in range(len(names))]
        for n, v in zip(names, diag):
            sv = _sp(v)
            if sv == 0:
                out.add(n)
            elif isinstance(sv, sympy.Symbol) and sv.name in pars and pars[sv.name].fix \
                    and float(pars[sv.name].init) == 0:
                out.add(n)
    return out


def data_rows(model, K):
    """K rows of the dataset chosen at evenly spaced positions (deterministic) or None"""
    df = model.dataset
    if df is None or len(df) == 0:
        return None
    n = len(df)
    pos = [(j * (n - 1)) // max(1, K - 1) for j in range(K)]
    return [df.iloc[p] for p in pos]


def make_points(model, K):
    """K input points for a model: name -> number"""
    from pharmpy.model import CompartmentalSystem

    rows = data_rows(model, K)
    zero = zero_variance_rvs(model)
    pts = []
    cs = model.statements.ode_system
    amount_names = []
    if cs is not None:
        amount_names = sorted(_sname(c.amount) for c in cs._g.nodes if hasattr(c, 'amount'))
    # amounts assigned explicitly (solved systems)
    for s in model.statements:
        if not isinstance(s, CompartmentalSystem) and isinstance(_sp(s.symbol), AppliedUndef):
            if _sname(s.symbol) not in amount_names:
                amount_names.append(_sname(s.symbol))
    for k in range(K):
        pt = {}
        for i, p in enumerate(model.parameters):
            pt[p.name] = _pval(p, i, k)
        for i, n in enumerate(model.random_variables.names):
            if n in zero:
                pt[n] = 0.0
            else:
                sign = -1.0 if (i + k) % 2 else 1.0
                pt[n] = sign * (0.05 + 0.07 * ((i + 2 * k) % 5) + 0.003 * i)
        for j, col in enumerate(model.datainfo.names):
            if rows is not None and col in rows[k].index:
                v = rows[k][col]
                try:
                    v = float(v)
                except (TypeError, ValueError):
                    v = float(_SYNTH[(k + j) % len(_SYNTH)])
                if math.isnan(v):
                    v = 0.0
                pt[col] = v
            else:
                pt[col] = float(_SYNTH[(k + j) % len(_SYNTH)])
        pt['t'] = _TIMES[k % len(_TIMES)]
        for i, a in enumerate(amount_names):
            pt[a] = 0.0 if k % 6 == 3 else 10.0 + 3.1 * i + 7.3 * k
        pts.append(pt)
    return pts


def rename_point(pt, ren):
    return {ren.get(k, k): v for k, v in pt.items()}
