"""Bounded contract checks ("bounded stand-ins") for C07 / C09 / C08.

  bounded_refactorings(tier)        C07  refactorings documented as function preserving
  bounded_extensions(tier)          C09  model extensions implement the documented formula
  bounded_structural_setters(tier)  C08  structural setters: detectable, idempotent, reversible, total

All three evaluate the REAL pharmpy functions over an exhaustively enumerated finite domain and compare
with an independent reference that lives in this file: a per-statement numeric interpreter of a model
(`eval_model`), which walks the statements in order, looks symbols up in an environment of inputs
(parameters, etas, epsilons, data columns, t, compartment amounts A_x(t)) and never calls pharmpy's
own full_expression / evaluators; a numeric signature of the compartmental system read from the graph;
a matrix-exponential reference solution of linear compartmental systems; documented covariate-effect
templates written out by hand; dataset statistics computed with numpy from the raw columns.

Labelled bounded, never counted as proved.
"""
import warnings

warnings.filterwarnings('ignore')

import cmath
import itertools
import math
import multiprocessing
import os
import traceback

import numpy as np
import sympy
from sympy.core.function import AppliedUndef

_PM = None


def pm():
    """pharmpy.modeling, imported lazily (and quietly)"""
    global _PM
    if _PM is None:
        import pharmpy.modeling as _pm

        _PM = _pm
    return _PM


# ----------------------------------------------------------------------------------------------
# reference interpreter
# ----------------------------------------------------------------------------------------------

class Undefined(Exception):
    pass


def _sp(e):
    """pharmpy Expr / BooleanExpr / str / number -> sympy"""
    if hasattr(e, '_sympy_'):
        return e._sympy_()
    return sympy.sympify(e)


def _sname(e):
    """name of an assignment target: 'CL' for a symbol, 'A_CENTRAL' for the function A_CENTRAL(t)"""
    s = _sp(e)
    if isinstance(s, sympy.Symbol):
        return s.name
    if isinstance(s, AppliedUndef):
        return s.func.__name__
    raise Undefined(f'unsupported assignment target {s!r}')


def _tonum(v):
    if isinstance(v, (int, np.integer)):
        return sympy.Integer(int(v))
    if isinstance(v, (float, np.floating)):
        f = float(v)
        if f == int(f) and abs(f) < 1e9:
            return sympy.Integer(int(f))
        return sympy.Float(f)
    if isinstance(v, complex):
        if v.imag == 0:
            return _tonum(v.real)
        return sympy.Float(v.real) + sympy.I * sympy.Float(v.imag)
    return sympy.sympify(v)


def num(expr, env):
    """numeric value of an expression in the environment env: name -> python number"""
    e = _sp(expr)
    rep = {}
    for a in e.atoms(AppliedUndef):
        k = a.func.__name__
        if k not in env:
            raise Undefined(f'undefined function symbol {a}')
        rep[a] = _tonum(env[k])
    for a in e.atoms(sympy.Symbol):
        if a.name in env:
            rep[a] = _tonum(env[a.name])
    e2 = e.xreplace(rep)
    if e2.free_symbols:
        names = sorted(s.name for s in e2.free_symbols)
        raise Undefined(f'undefined symbol(s) {names}')
    if e2.atoms(AppliedUndef):
        raise Undefined(f'undefined function symbol(s) {sorted(map(str, e2.atoms(AppliedUndef)))}')
    try:
        v = complex(sympy.N(e2, 17))
    except (TypeError, ValueError):
        if e2 in (sympy.zoo, sympy.nan, sympy.oo, -sympy.oo):
            return float('nan')
        raise Undefined(f'not numeric: {e2!r}')
    if v.imag == 0:
        return v.real
    return v


def _isbad(v):
    if isinstance(v, complex):
        return True
    return math.isnan(v) or math.isinf(v)


def close(a, b, rtol=1e-8, atol=1e-11):
    if _isbad(a) or _isbad(b):
        return False
    return abs(a - b) <= atol + rtol * max(abs(a), abs(b))


def ode_signature(cs, env):
    """numeric description of a compartmental system read directly from its graph"""
    from pharmpy.model import Bolus, Infusion, Compartment

    comps = {}
    flows = {}
    for c in cs._g.nodes:
        if not isinstance(c, Compartment):
            continue
        doses = []
        for d in c.doses:
            if isinstance(d, Bolus):
                doses.append(('bolus', d.admid, num(d.amount, env), None, None))
            elif isinstance(d, Infusion):
                doses.append(('infusion', d.admid, num(d.amount, env),
                              None if d.rate is None else num(d.rate, env),
                              None if d.duration is None else num(d.duration, env)))
            else:
                doses.append((type(d).__name__, d.admid, None, None, None))
        doses.sort(key=lambda x: (x[0], x[1]))
        comps[c.name] = {'doses': doses, 'lag': num(c.lag_time, env), 'bio': num(c.bioavailability, env),
                         'input': num(c.input, env), 'amount': _sname(c.amount)}
    for u, v, d in cs._g.edges(data=True):
        dst = v.name if isinstance(v, Compartment) else 'OUTPUT'
        flows[(u.name, dst)] = num(d['rate'], env)
    return {'comps': comps, 'flows': flows}


def _same_num(a, b):
    if a is None or b is None:
        return a is None and b is None
    return close(a, b)


def sig_rename(sig, cmap):
    """rename the compartments of a signature (cmap: old name -> new name)"""
    if sig is None or not cmap:
        return sig
    comps = {cmap.get(n, n): c for n, c in sig['comps'].items()}
    flows = {(cmap.get(u, u), cmap.get(v, v)): r for (u, v), r in sig['flows'].items()}
    return {'comps': comps, 'flows': flows}


def cs_structure(model):
    """(compartment name -> (amount function name, number of doses), set of (src, dst) edges) or None"""
    from pharmpy.model import Compartment

    cs = model.statements.ode_system
    if cs is None:
        return None
    comps = {c.name: (_sname(c.amount), len(c.doses)) for c in cs._g.nodes if isinstance(c, Compartment)}
    edges = set()
    for u, v in cs._g.edges():
        edges.add((u.name, v.name if isinstance(v, Compartment) else 'OUTPUT'))
    return comps, edges


def compartment_bijections(st0, st1, limit=24):
    """candidate renamings of compartments (name in model 0 -> name in model 1) that preserve the graph
    shape and the number of doses per compartment; the identity comes first when the names agree"""
    if st0 is None or st1 is None:
        return [{}]
    c0, e0 = st0
    c1, e1 = st1
    if set(c0) == set(c1):
        return [{}]
    if len(c0) != len(c1) or len(c0) > 6:
        return [{}]
    n0 = sorted(c0)
    out = []
    for perm in itertools.permutations(sorted(c1)):
        cmap = dict(zip(n0, perm))
        if any(c0[a][1] != c1[b][1] for a, b in cmap.items()):
            continue
        full = dict(cmap)
        full['OUTPUT'] = 'OUTPUT'
        if {(full[u], full[v]) for u, v in e0} != e1:
            continue
        out.append(cmap)
        if len(out) >= limit:
            break
    return out or [{}]


def sig_diff(s1, s2):
    """None if two signatures agree (compartments matched by name), else a description"""
    if s1 is None or s2 is None:
        if s1 is None and s2 is None:
            return None
        return 'one model has a compartmental system, the other has none'
    if set(s1['comps']) != set(s2['comps']):
        return f"compartments {sorted(s1['comps'])} vs {sorted(s2['comps'])}"
    for n, c1 in s1['comps'].items():
        c2 = s2['comps'][n]
        if len(c1['doses']) != len(c2['doses']):
            return f"doses of {n}: {c1['doses']} vs {c2['doses']}"
        for d1, d2 in zip(c1['doses'], c2['doses']):
            if d1[0] != d2[0] or d1[1] != d2[1] or not all(_same_num(x, y) for x, y in zip(d1[2:], d2[2:])):
                return f"dose of {n}: {d1} vs {d2}"
        for k in ('lag', 'bio', 'input'):
            if not close(c1[k], c2[k]):
                return f"{k} of {n}: {c1[k]!r} vs {c2[k]!r}"
    nz1 = {k: v for k, v in s1['flows'].items() if not (not _isbad(v) and v == 0)}
    nz2 = {k: v for k, v in s2['flows'].items() if not (not _isbad(v) and v == 0)}
    if set(nz1) != set(nz2):
        return f"flows {sorted(nz1)} vs {sorted(nz2)}"
    for k in nz1:
        if not close(nz1[k], nz2[k]):
            return f"rate {k[0]}->{k[1]}: {nz1[k]!r} vs {nz2[k]!r}"
    return None


def ode_reference_amounts(sig, t):
    """amounts at time t after ONE dose event at time 0 (every bolus dose given once at time 0) for a
    linear system with constant rates: A(t) = expm(K (t - lag)) F dose.  Independent of sympy.dsolve."""
    names = sorted(sig['comps'])
    idx = {n: i for i, n in enumerate(names)}
    n = len(names)
    K = np.zeros((n, n))
    for (u, v), r in sig['flows'].items():
        K[idx[u], idx[u]] -= r
        if v != 'OUTPUT':
            K[idx[v], idx[u]] += r
    out = np.zeros(n)
    for name, c in sig['comps'].items():
        for d in c['doses']:
            if d[0] != 'bolus':
                raise Undefined('reference solution only for bolus doses')
            tt = t - c['lag']
            if tt < 0:
                continue
            a0 = np.zeros(n)
            a0[idx[name]] = d[2] * c['bio']
            out += _expm(K * tt) @ a0
    return {sig['comps'][nm]['amount']: float(out[idx[nm]]) for nm in names}


def _expm(M):
    # scaling and squaring with a Taylor series: small matrices, modest norms
    nrm = np.linalg.norm(M, 1)
    s = max(0, int(math.ceil(math.log2(nrm))) + 4) if nrm > 0 else 0
    A = M / (2 ** s)
    E = np.eye(M.shape[0])
    term = np.eye(M.shape[0])
    for k in range(1, 40):
        term = term @ A / k
        E = E + term
    for _ in range(s):
        E = E @ E
    return E


def eval_model(model, point, amounts='input'):
    """walk the statements in order.  Returns (defined: name -> value of its LAST assignment,
    signature of the compartmental system or None, env at the end).
    amounts='input': A_x(t) are free inputs taken from `point`;
    amounts='ode'  : A_x(t) come from the reference solution of the compartmental system at point['t']"""
    from pharmpy.model import Assignment, CompartmentalSystem

    env = dict(point)
    defined = {}
    sig = None
    for s in model.statements:
        if isinstance(s, Assignment):
            v = num(s.expression, env)
            k = _sname(s.symbol)
            env[k] = v
            defined[k] = v
        elif isinstance(s, CompartmentalSystem):
            sig = ode_signature(s, env)
            if amounts == 'ode':
                am = ode_reference_amounts(sig, env['t'])
                env.update(am)
                defined.update(am)
        else:
            raise Undefined(f'unknown statement type {type(s).__name__}')
    return defined, sig, env


# ----------------------------------------------------------------------------------------------
# grid of input points
# ----------------------------------------------------------------------------------------------

_FACT = [0.7, 1.3, 1.0, 0.85, 1.2, 1.1, 0.6, 1.45, 0.95, 1.05, 0.8, 1.25]
_OFFS = [0.013, -0.007, 0.0, 0.004, -0.011, 0.009, 0.002, -0.003, 0.006, -0.005, 0.001, 0.008]
_TIMES = [0.5, 1.75, 0.0, 3.0, 12.0, 24.5, 0.25, 7.0, 2.0, 48.0, 5.5, 1.0]
_SYNTH = [3, 8, 1, 0, 5, 2]


def _pval(p, i, k):
    init = float(p.init)
    if p.fix:
        return init
    lo, up = float(p.lower), float(p.upper)
    f = _FACT[(i + k) % len(_FACT)]
    o = _OFFS[(2 * i + k) % len(_OFFS)]
    for v in (init * f + o, init * f, init + o, init):
        if lo < v < up and (v != 0 or init == 0):
            return v
    return init


def zero_variance_rvs(model):
    """names of random variables whose variance is a parameter fixed to 0 (or literally 0)"""
    out = set()
    pars = {p.name: p for p in model.parameters}
    for dist in model.random_variables:
        var = dist.variance
        names = dist.names
        if len(names) == 1:
            diag = [var]
        else:
            diag = [var[i, i] for i in range(len(names))]
        for n, v in zip(names, diag):
            sv = _sp(v)
            if sv == 0:
                out.add(n)
            elif isinstance(sv, sympy.Symbol) and sv.name in pars and pars[sv.name].fix \
                    and float(pars[sv.name].init) == 0:
                out.add(n)
    return out


def data_rows(model, K):
    """K rows of the dataset chosen at evenly spaced positions (deterministic) or None"""
    df = model.dataset
    if df is None or len(df) == 0:
        return None
    n = len(df)
    pos = [(j * (n - 1)) // max(1, K - 1) for j in range(K)]
    return [df.iloc[p] for p in pos]


def make_points(model, K):
    """K input points for a model: name -> number"""
    from pharmpy.model import CompartmentalSystem

    rows = data_rows(model, K)
    zero = zero_variance_rvs(model)
    pts = []
    cs = model.statements.ode_system
    amount_names = []
    if cs is not None:
        amount_names = sorted(_sname(c.amount) for c in cs._g.nodes if hasattr(c, 'amount'))
    # amounts assigned explicitly (solved systems)
    for s in model.statements:
        if not isinstance(s, CompartmentalSystem) and isinstance(_sp(s.symbol), AppliedUndef):
            if _sname(s.symbol) not in amount_names:
                amount_names.append(_sname(s.symbol))
    for k in range(K):
        pt = {}
        for i, p in enumerate(model.parameters):
            pt[p.name] = _pval(p, i, k)
        for i, n in enumerate(model.random_variables.names):
            if n in zero:
                pt[n] = 0.0
            else:
                sign = -1.0 if (i + k) % 2 else 1.0
                pt[n] = sign * (0.05 + 0.07 * ((i + 2 * k) % 5) + 0.003 * i)
        for j, col in enumerate(model.datainfo.names):
            if rows is not None and col in rows[k].index:
                v = rows[k][col]
                try:
                    v = float(v)
                except (TypeError, ValueError):
                    v = float(_SYNTH[(k + j) % len(_SYNTH)])
                if math.isnan(v):
                    v = 0.0
                pt[col] = v
            else:
                pt[col] = float(_SYNTH[(k + j) % len(_SYNTH)])
        pt['t'] = _TIMES[k % len(_TIMES)]
        for i, a in enumerate(amount_names):
            pt[a] = 0.0 if k % 6 == 3 else 10.0 + 3.1 * i + 7.3 * k
        pts.append(pt)
    return pts


def rename_point(pt, ren):
    return {ren.get(k, k): v for k, v in pt.items()}


# ----------------------------------------------------------------------------------------------
# models: example models and variants reached by one transformation (named, so a case can be replayed)
# ----------------------------------------------------------------------------------------------

_MODEL_CACHE = {}


def base_model(name):
    if name not in _MODEL_CACHE:
        _MODEL_CACHE[name] = pm().load_example_model(name)
    return _MODEL_CACHE[name]


def _variants():
    P = pm()
    return {
        'none': lambda m: m,
        'add_peripheral_compartment': lambda m: P.add_peripheral_compartment(m),
        'set_first_order_absorption': lambda m: P.set_first_order_absorption(m),
        'set_zero_order_absorption': lambda m: P.set_zero_order_absorption(m),
        'set_michaelis_menten_elimination': lambda m: P.set_michaelis_menten_elimination(m),
        'set_transit_compartments_2': lambda m: P.set_transit_compartments(m, 2),
        'add_lag_time': lambda m: P.add_lag_time(m),
        'remove_lag_time': lambda m: P.remove_lag_time(m),
        'add_bioavailability': lambda m: P.add_bioavailability(m),
        'set_proportional_error_model': lambda m: P.set_proportional_error_model(m),
        'set_combined_error_model': lambda m: P.set_combined_error_model(m),
        'set_power_on_ruv': lambda m: P.set_power_on_ruv(m),
        'add_covariate_effect_CL_APGR_exp': lambda m: P.add_covariate_effect(m, 'CL', 'APGR', 'exp'),
        'add_covariate_effect_CL_APGR_cat': lambda m: P.add_covariate_effect(m, 'CL', 'APGR', 'cat'),
        'add_iov_FA1': lambda m: P.add_iov(m, 'FA1'),
        'remove_iov': lambda m: P.remove_iov(m),
        'transform_etas_boxcox': lambda m: P.transform_etas_boxcox(m),
        'create_joint_distribution': lambda m: P.create_joint_distribution(m),
        'split_joint_distribution': lambda m: P.split_joint_distribution(m),
        'fix_second_theta': lambda m: P.fix_parameters(m, [P.get_thetas(m).names[1]]),
        'fix_all_thetas': lambda m: P.fix_parameters(m, P.get_thetas(m).names),
        'fix_last_iiv_omega_to_0': lambda m: P.fix_parameters_to(
            m, {[_sp(d.variance).name for d in m.random_variables.iiv if len(d.names) == 1][-1]: 0}),
        'fix_last_iov_omega_to_0': lambda m: P.fix_parameters_to(
            m, {[_sp(d.variance).name for d in m.random_variables.iov if len(d.names) == 1][-1]: 0}),
        'add_unused_parameter': lambda m: P.add_population_parameter(m, 'FOOUNUSED', 1.5),
        'add_iiv_S1': lambda m: P.add_iiv(m, 'S1', 'exp'),
        'add_allometry': lambda m: P.add_allometry(m, allometric_variable='WGT'),
    }


_BASE_VARIANTS_QUICK = [
    ('pheno', ['none', 'add_peripheral_compartment', 'set_first_order_absorption',
               'set_zero_order_absorption', 'set_michaelis_menten_elimination',
               'set_transit_compartments_2', 'add_lag_time', 'add_bioavailability',
               'set_combined_error_model', 'set_power_on_ruv',
               'add_covariate_effect_CL_APGR_exp', 'add_covariate_effect_CL_APGR_cat', 'add_iov_FA1',
               'transform_etas_boxcox', 'create_joint_distribution', 'fix_second_theta',
               'fix_all_thetas', 'fix_last_iiv_omega_to_0', 'add_unused_parameter', 'add_iiv_S1']),
    ('pheno_linear', ['none', 'add_unused_parameter']),
    ('moxo', ['none', 'add_peripheral_compartment', 'remove_lag_time', 'set_zero_order_absorption',
              'split_joint_distribution', 'fix_second_theta', 'fix_last_iiv_omega_to_0',
              'fix_last_iov_omega_to_0', 'set_combined_error_model', 'remove_iov', 'add_unused_parameter']),
]


def variant_model(base, variant):
    key = (base, variant)
    if key not in _MODEL_CACHE:
        _MODEL_CACHE[key] = _variants()[variant](base_model(base))
    return _MODEL_CACHE[key]


def _fid(fn):
    mod = fn.__module__
    return 'src/' + mod.replace('.', '/') + '.py:' + fn.__name__


# ----------------------------------------------------------------------------------------------
# (1) refactorings  -- C07
# ----------------------------------------------------------------------------------------------

def _positional_renaming(m0, m1):
    """renaming declared by greekify_model: i-th parameter -> i-th parameter, i-th rv -> i-th rv"""
    ren = {}
    if len(m0.parameters) == len(m1.parameters):
        ren.update(dict(zip(m0.parameters.names, m1.parameters.names)))
    if len(m0.random_variables.names) == len(m1.random_variables.names):
        ren.update(dict(zip(m0.random_variables.names, m1.random_variables.names)))
    return ren


def _reparse(m):
    return pm().read_model_from_string(m.code)


def _refactorings():
    """name -> (function under contract, callable(model, arg) -> (new model, declared renaming))"""
    P = pm()

    def plain(fn, **kw):
        return fn, (lambda m, arg: (fn(m, **kw), {}))

    def greek(named):
        def run(m, arg):
            r = P.greekify_model(m, named_subscripts=named)
            return r, _positional_renaming(m, r)
        return P.greekify_model, run

    def rename(m, arg):
        new = arg + 'QX'
        return P.rename_symbols(m, {arg: new}), {arg: new}

    def joint(m, arg):
        return P.create_joint_distribution(m, rvs=arg, individual_estimates=None), {}

    def split(m, arg):
        return P.split_joint_distribution(m, rvs=arg), {}

    def unload_load(m, arg):
        return P.load_dataset(P.unload_dataset(m)), {}

    def to_generic(m, arg):
        return P.convert_model(m, 'generic'), {}

    def generic_nonmem(m, arg):
        return P.convert_model(P.convert_model(m, 'generic'), 'nonmem'), {}

    def generic_nonmem_reparse(m, arg):
        return _reparse(P.convert_model(P.convert_model(m, 'generic'), 'nonmem')), {}

    def code_reparse(m, arg):
        return _reparse(m), {}

    return {
        'mu_reference_model': plain(P.mu_reference_model),
        'make_declarative': plain(P.make_declarative),
        'cleanup_model': plain(P.cleanup_model),
        'greekify_model': greek(False),
        'greekify_model_named': greek(True),
        'rename_symbols': (P.rename_symbols, rename),
        'remove_unused_parameters_and_rvs': plain(P.remove_unused_parameters_and_rvs),
        'create_joint_distribution': (P.create_joint_distribution, joint),
        'split_joint_distribution': (P.split_joint_distribution, split),
        'replace_fixed_thetas': plain(P.replace_fixed_thetas),
        'unload_load_dataset': (P.load_dataset, unload_load),
        'unload_dataset': plain(P.unload_dataset),
        'convert_model_generic': (P.convert_model, to_generic),
        'convert_model_generic_nonmem': (P.convert_model, generic_nonmem),
        'convert_model_generic_nonmem_reparse': (P.convert_model, generic_nonmem_reparse),
        'model_code_reparse': (type(base_model('pheno')).update_source, code_reparse),
        'solve_ode_system': plain(P.solve_ode_system),
        'simplify_expression': (P.simplify_expression, None),
    }


def _assigned_names(model):
    from pharmpy.model import Assignment

    out = []
    for s in model.statements:
        if isinstance(s, Assignment):
            n = _sname(s.symbol)
            if n not in out:
                out.append(n)
    return out


def _rename_targets(model, tier, variant):
    """symbols to rename, one at a time"""
    pars = list(model.parameters.names)
    rvs = list(model.random_variables.names)
    ass = [n for n in _assigned_names(model) if isinstance(n, str)]
    ass = [n for n in ass if not n.startswith('A_')]
    if tier == 'thorough' or variant == 'none':
        return pars + rvs + ass
    ips = [n for n in ass if n in ('CL', 'V', 'VC', 'KA', 'IPRED')]
    cand = pars[:1] + pars[-1:] + rvs[:1] + rvs[-1:] + ips[:2] + ass[-1:]
    out = []
    for c in cand:
        if c not in out:
            out.append(c)
    return out


def _iiv_eta_groups(model):
    etas = model.random_variables.iiv
    names = [n for n in etas.names]
    return names


def refactoring_cases(tier):
    """exhaustive list of cases in small-first order"""
    cases = []
    for base, variants in _BASE_VARIANTS_QUICK:
        for variant in variants:
            try:
                m = variant_model(base, variant)
            except Exception:
                cases.append({'model': base, 'variant': variant, 'refactoring': 'none', 'arg': None})
                continue
            for r in ('mu_reference_model', 'make_declarative', 'cleanup_model', 'greekify_model',
                      'greekify_model_named', 'remove_unused_parameters_and_rvs', 'replace_fixed_thetas',
                      'unload_dataset', 'unload_load_dataset', 'convert_model_generic',
                      'convert_model_generic_nonmem', 'convert_model_generic_nonmem_reparse',
                      'model_code_reparse', 'simplify_expression', 'split_joint_distribution'):
                cases.append({'model': base, 'variant': variant, 'refactoring': r, 'arg': None})
            for s in _rename_targets(m, tier, variant):
                cases.append({'model': base, 'variant': variant, 'refactoring': 'rename_symbols', 'arg': s})
            iiv = _iiv_eta_groups(m)
            cases.append({'model': base, 'variant': variant, 'refactoring': 'create_joint_distribution',
                          'arg': None})
            if len(iiv) > 2 or tier == 'thorough':
                for pair in itertools.combinations(iiv, 2):
                    cases.append({'model': base, 'variant': variant,
                                  'refactoring': 'create_joint_distribution', 'arg': list(pair)})
            for n in iiv:
                cases.append({'model': base, 'variant': variant, 'refactoring': 'split_joint_distribution',
                              'arg': [n]})
            if m.statements.ode_system is not None:
                cases.append({'model': base, 'variant': variant, 'refactoring': 'solve_ode_system',
                              'arg': None})
    return cases


def _observables(model):
    """names whose values define the model function: dependent variables and individual parameters"""
    dvs = [_sname(y) for y in model.dependent_variables]
    try:
        ips = list(pm().get_individual_parameters(model))
    except Exception:
        ips = []
    return dvs, ips


def _variances(model, point):
    """marginal variance value of every random variable at the point (read from the distributions)"""
    out = {}
    for dist in model.random_variables:
        var = dist.variance
        names = dist.names
        if len(names) == 1:
            out[names[0]] = num(var, point)
        else:
            for i, n in enumerate(names):
                out[n] = num(var[i, i], point)
    return out


def _snapshot(model):
    ds = model.dataset
    return (model.statements, model.parameters, model.random_variables,
            None if ds is None else (tuple(ds.columns), ds.shape), model.dependent_variables)


def _ode_is_linear_bolus(model):
    from pharmpy.model import Bolus

    cs = model.statements.ode_system
    if cs is None:
        return False
    amounts = set()
    for c in cs._g.nodes:
        if hasattr(c, 'amount'):
            amounts.add(_sp(c.amount))
            if any(not isinstance(d, Bolus) for d in c.doses):
                return False
            if _sp(c.input) != 0:
                return False
    for u, v, d in cs._g.edges(data=True):
        if _sp(d['rate']).atoms(AppliedUndef) & amounts:
            return False
    return True


def _fixed_variance_rvs(model):
    """random variables whose variance parameter is fixed"""
    out = set()
    pars = {p.name: p for p in model.parameters}
    for dist in model.random_variables:
        names = dist.names
        var = dist.variance
        diag = [var] if len(names) == 1 else [var[i, i] for i in range(len(names))]
        for n, v in zip(names, diag):
            sv = _sp(v)
            if isinstance(sv, sympy.Symbol) and sv.name in pars and pars[sv.name].fix:
                out.add(n)
    return out


def _compare_models(m0, m1, ref, pts, ren, cmap, dvs, ips, solve, ip_must_stay=True):
    """compare the reference evaluation `ref` of m0 with m1 at every point, under the renaming `ren` of
    symbols and the renaming `cmap` of compartments.  Returns [(clause, detail)] (one per clause)."""
    out = []
    seen = set()

    def fail(key, clause, detail):
        if key not in seen:
            seen.add(key)
            out.append((clause, detail))

    am_ren = {}
    st0 = cs_structure(m0)
    st1 = cs_structure(m1)
    if cmap and st0 and st1:
        for a, b in cmap.items():
            am_ren[st0[0][a][0]] = st1[0][b][0]
    full_ren = dict(ren)
    full_ren.update(am_ren)
    for k, pt in enumerate(pts):
        d0, sig0, env0 = ref[k]
        if any(_isbad(d0.get(y, float('nan'))) for y in dvs):
            continue
        pt1 = rename_point(pt, full_ren)
        try:
            d1, sig1, env1 = eval_model(m1, pt1, 'input')
        except Undefined as e:
            fail('defined', 'every symbol used is defined (parameter, random variable, data column, t, amount '
                 'or earlier assignment)', str(e))
            continue
        for y in dvs:
            y1 = ren.get(y, y)
            if y1 not in d1:
                fail('dvdef', 'dependent variables have the same value at every grid point',
                     f'{y1} is not assigned')
            elif not close(d0[y], d1[y1]):
                fail('dv', 'dependent variables have the same value at every grid point',
                     f'{y}: {d0[y]!r} before, {d1[y1]!r} after, at point {k} {_short_pt(pt)}')
        for p in ips:
            p1 = ren.get(p, p)
            if p not in d0 or _isbad(d0[p]):
                continue
            if p1 not in d1:
                if ip_must_stay:
                    fail('ipdef', 'individual parameters stay defined (up to the declared renaming)',
                         f'{p1} is no longer assigned')
            elif not close(d0[p], d1[p1]):
                fail('ip', 'individual parameters have the same value at every grid point',
                     f'{p}: {d0[p]!r} before, {d1[p1]!r} after, at point {k} {_short_pt(pt)}')
        if solve:
            for a, v in ode_reference_amounts(sig0, env0['t']).items():
                if a not in d1:
                    fail('amdef', 'closed-form amounts equal the reference solution of the compartmental system',
                         f'{a}(t) is not assigned after solve_ode_system')
                elif not close(v, d1[a], rtol=1e-6, atol=1e-9):
                    fail('am', 'closed-form amounts equal the reference solution of the compartmental system',
                         f'{a}(t): reference {v!r}, closed form {d1[a]!r} at point {k} {_short_pt(pt)}')
            if sig1 is not None:
                fail('odeleft', 'solve_ode_system leaves no compartmental system', 'ode_system still present')
        else:
            diff = sig_diff(sig_rename(sig0, cmap), sig1)
            if diff:
                fail('sig', 'compartmental system is the same (doses, lag time, bioavailability, rates) at every '
                     'grid point, up to renaming of compartments', f'{diff} at point {k}')
        # marginal variances of the random effects
        try:
            v0 = _variances(m0, pt)
            v1 = _variances(m1, pt1)
            for n, val in v0.items():
                n1 = ren.get(n, n)
                if n1 in v1 and not close(val, v1[n1]):
                    fail('var', 'random effects keep their marginal variance',
                         f'var({n}) {val!r} before, {v1[n1]!r} after at point {k}')
        except Undefined as e:
            fail('vardef', 'random effects keep their marginal variance', f'variance not evaluable: {e}')
    return out


_K_QUICK = 6
_K_THOROUGH = 12


def run_refactoring_case(case, tier='quick'):
    """returns dict(nontrivial=bool, fails=[(fid, clause, detail)])"""
    K = _K_THOROUGH if tier == 'thorough' else _K_QUICK
    fails = []
    R = _refactorings()
    tag = f"{case['model']}/{case['variant']} {case['refactoring']}({case['arg']})"
    try:
        m0 = variant_model(case['model'], case['variant'])
    except Exception as e:
        # the variant itself cannot be built: not a refactoring failure, no precondition
        return {'nontrivial': False, 'fails': [], 'note': f'variant not buildable: {e!r}'}
    if case['refactoring'] == 'none':
        return {'nontrivial': False, 'fails': []}
    fn, run = R[case['refactoring']]
    fid = _fid(fn) if hasattr(fn, '__module__') else str(fn)
    if case['refactoring'] == 'model_code_reparse':
        fid = 'src/pharmpy/model/external/nonmem/model.py:Model.update_source'

    def fail(clause, detail):
        fails.append((fid, clause, f'{tag}: {detail}'))

    pts = make_points(m0, K)
    dose_cols = []
    try:
        dose_cols = list(m0.datainfo.typeix['dose'].names)
    except Exception:
        dose_cols = [c for c in m0.datainfo.names if c == 'AMT']
    for k, pt in enumerate(pts):
        for c in dose_cols:
            if k % 2 == 0:
                pt[c] = 25.0 * (k + 1)

    if case['refactoring'] == 'simplify_expression':
        from pharmpy.model import Assignment

        nontriv = False
        for s in m0.statements:
            if not isinstance(s, Assignment):
                continue
            try:
                simp = pm().simplify_expression(m0, s.expression)
            except Exception as e:
                fail('refactoring completes without an exception on a valid model',
                     f'simplify_expression({s.expression}) raised {type(e).__name__}: {e}')
                continue
            for pt in pts:
                env = dict(pt)
                # symbols defined by earlier statements: any value is an admissible input here
                for j, a in enumerate(sorted(x.name for x in _sp(s.expression).free_symbols)):
                    env.setdefault(a, 0.37 + 0.21 * j)
                try:
                    v0 = num(s.expression, env)
                except Undefined:
                    continue
                if _isbad(v0):
                    continue
                try:
                    v1 = num(simp, env)
                except Undefined as e:
                    fail('every symbol used is defined', f'{s.expression} -> {simp}: {e}')
                    break
                nontriv = True
                if not close(v0, v1):
                    fail('simplified expression has the same value as the original expression',
                         f'{s.expression} = {v0!r} but simplified {simp} = {v1!r} at {_short(env, s)}')
                    break
        return {'nontrivial': nontriv, 'fails': fails}

    # precondition: the original model evaluates
    snap = _snapshot(m0)
    r = case['refactoring']
    solve = r == 'solve_ode_system'
    if solve and not _ode_is_linear_bolus(m0):
        # "can currently only handle the most simple of ODE systems": outside the documented domain
        return {'nontrivial': False, 'fails': []}
    mode0 = 'ode' if solve else 'input'
    try:
        ref = [eval_model(m0, pt, mode0) for pt in pts]
    except Undefined as e:
        return {'nontrivial': False, 'fails': [], 'note': f'original model not evaluable: {e}'}

    nonfixed = []
    if r in ('split_joint_distribution', 'create_joint_distribution'):
        iiv = _iiv_eta_groups(m0)
        fixed = _fixed_variance_rvs(m0)
        nonfixed = [n for n in iiv if n not in fixed]
        if r == 'create_joint_distribution':
            sel = case['arg'] if case['arg'] is not None else nonfixed
            # documented precondition: "The etas must be IIVs and cannot be fixed"
            if len(sel) < 2 or any(n in fixed for n in sel):
                return {'nontrivial': False, 'fails': []}
        elif case['arg'] is not None and any(n in fixed for n in case['arg']):
            return {'nontrivial': False, 'fails': []}
    if r == 'unload_load_dataset' and (m0.dataset is None or m0.datainfo.path is None):
        # load_dataset reads datainfo.path: precondition
        return {'nontrivial': False, 'fails': []}
    try:
        m1, ren = run(m0, case['arg'])
    except Exception as e:
        tb = traceback.format_exc().strip().splitlines()
        loc = [ln.strip() for ln in tb if ln.strip().startswith('File')][-1:]
        fail('refactoring completes without an exception on a valid model',
             f'raised {type(e).__name__}: {str(e)[:200]} {loc}')
        return {'nontrivial': True, 'fails': fails}

    after = _snapshot(m0)
    if not (after[0] == snap[0] and after[1] == snap[1] and after[2] == snap[2] and after[3] == snap[3]
            and after[4] == snap[4]):
        fail('input model is not modified', 'statements/parameters/random variables/dataset of the input changed')

    format_change = r.startswith('convert_model') or r == 'model_code_reparse'
    if format_change:
        # a model format may impose its own names on parameters / random variables (declared by position)
        ren = dict(ren)
        for a, b in _positional_renaming(m0, m1).items():
            if a != b:
                ren[a] = b

    dvs, ips = _observables(m0)
    dv1 = [_sname(y) for y in m1.dependent_variables]
    if sorted(ren.get(y, y) for y in dvs) != sorted(dv1):
        fail('dependent variables are the same up to the declared renaming',
             f'{dvs} -> {dv1} with renaming {ren}')

    st0 = cs_structure(m0)
    st1 = None if solve else cs_structure(m1)
    best = None
    for cmap in compartment_bijections(st0, st1):
        got = _compare_models(m0, m1, ref, pts, ren, cmap, dvs, ips, solve,
                              ip_must_stay=not (format_change or r == 'cleanup_model'))
        if best is None or len(got) < len(best):
            best = got
        if not got:
            break
    for clause, detail in best:
        fail(clause, detail)

    # refactoring specific documented effects
    if r == 'unload_load_dataset' and m0.dataset is not None:
        if m1.dataset is None or not m1.dataset.equals(m0.dataset):
            fail('load_dataset after unload_dataset restores an equal dataset', 'datasets differ')
    if r == 'unload_dataset' and m1.dataset is not None:
        fail('unload_dataset removes the dataset', 'dataset still present')
    if r == 'remove_unused_parameters_and_rvs':
        used = set()
        for s in m1.statements:
            used |= {x.name for x in _sp_free(s)}
        for n in m1.random_variables.names:
            if n not in used:
                fail('no unused random variable is left', f'{n} is not used by any statement')
        for dist in m1.random_variables:
            used |= {x.name for x in _sp(dist.variance).free_symbols} if len(dist.names) == 1 else \
                {x.name for x in sympy.Matrix(dist.variance._sympy_() if hasattr(dist.variance, '_sympy_')
                                              else dist.variance).free_symbols}
        for n in m1.parameters.names:
            if n not in used:
                fail('no unused parameter is left', f'{n} is not used by any statement or distribution')
    if r == 'make_declarative' or r == 'cleanup_model':
        names = [n for n in (_sname(s.symbol) for s in m1.statements if hasattr(s, 'symbol'))]
        dup = sorted({n for n in names if names.count(n) > 1})
        if dup:
            fail('each symbol is assigned only once', f'{dup} assigned more than once')
    if r == 'replace_fixed_thetas':
        left = [p.name for p in pm().get_thetas(m1) if p.fix]
        if left:
            fail('no fixed theta is left as a parameter', f'{left}')
    if r == 'split_joint_distribution':
        sel = case['arg']
        for dist in m1.random_variables.iiv:
            if len(dist.names) > 1 and (sel is None or set(sel) & set(dist.names)):
                if sel is None and set(dist.names) & zero_variance_rvs(m0):
                    continue
                fail('requested etas are no longer part of a joint distribution', f'{dist.names} still joint')
    if r == 'create_joint_distribution':
        sel = case['arg'] if case['arg'] is not None else nonfixed
        together = [set(d.names) for d in m1.random_variables if set(sel) <= set(d.names)]
        if not together:
            fail('requested etas follow one joint distribution', f'{sel} not in one distribution: '
                 f'{[d.names for d in m1.random_variables]}')
    return {'nontrivial': True, 'fails': fails}


def _sp_free(stat):
    from pharmpy.model import Assignment

    if isinstance(stat, Assignment):
        return _sp(stat.expression).free_symbols | _sp(stat.symbol).free_symbols
    out = set()
    for x in stat.free_symbols:
        out |= _sp(x).free_symbols
    return out


def _short_pt(pt):
    return {k: (round(v, 5) if isinstance(v, float) else v) for k, v in list(pt.items())[:40]}


def _short(env, s):
    names = {x.name for x in _sp(s.expression).free_symbols}
    return {k: round(v, 6) for k, v in env.items() if k in names}


def _refactoring_worker(args):
    case, tier = args
    try:
        return case, run_refactoring_case(case, tier)
    except Exception:
        return case, {'nontrivial': False, 'fails': [('contracts/b_ext.py:run_refactoring_case',
                                                      'checker error', traceback.format_exc()[-600:])]}


def _pool_map(worker, items, procs=16):
    if os.environ.get('B_EXT_SERIAL'):
        return [worker(i) for i in items]
    ctx = multiprocessing.get_context('fork')
    with ctx.Pool(procs) as pool:
        return pool.map(worker, items, chunksize=1)


def _collect(results, replay_fn):
    fails = {}
    nontriv = 0
    for case, res in results:
        if res.get('nontrivial'):
            nontriv += 1
        for fid, clause, detail in res['fails']:
            if (fid, clause) not in fails:
                fails[(fid, clause)] = {'fid': fid, 'clause': clause, 'detail': detail[:900], 'case': case,
                                        'replay_fn': replay_fn}
    return nontriv, list(fails.values())


def bounded_refactorings(tier):
    pm()
    for base, variants in _BASE_VARIANTS_QUICK:
        for v in variants:
            try:
                variant_model(base, v)
            except Exception:
                pass
    cases = refactoring_cases(tier)
    results = _pool_map(_refactoring_worker, [(c, tier) for c in cases])
    nontriv, fails = _collect(results, 'bounded_refactorings_replay')
    K = _K_THOROUGH if tier == 'thorough' else _K_QUICK
    nvar = sum(len(v) for _, v in _BASE_VARIANTS_QUICK)
    return {
        'cases': len(cases), 'nontrivial': nontriv,
        'bound': f'{nvar} models (pheno, pheno_linear, moxo and variants reached by one transformation) x '
                 f'18 refactoring kinds (rename_symbols over '
                 f'{"every symbol" if tier == "thorough" else "every symbol of the 3 base models, 7 symbols of each variant"}'
                 f', create_joint_distribution over all pairs of IIV etas, split over every eta) x {K} input points '
                 f'(parameters within bounds, etas, epsilons, data rows, t, amounts)',
        'samples': [repr(cases[i]) for i in (0, len(cases) // 2, len(cases) - 1)],
        'fails': fails,
    }


def bounded_refactorings_replay(rp):
    res = run_refactoring_case(rp['case'], rp.get('tier', 'quick'))
    want = rp.get('clause')
    for fid, clause, detail in res['fails']:
        if want is None or clause == want:
            return False, detail[:900]
    return True, 'ok'
