"""Bounded contract checks for C16 (model database / run context, crash atomicity)
and C04 (NONMEM $THETA/$OMEGA/$SIGMA write-back).

    bounded_store_crash(tier)     + bounded_store_crash_replay(rp)
    bounded_record_updates(tier)  + bounded_record_updates_replay(rp)

Both checks run the REAL pharmpy code over an exhaustively enumerated finite domain
(no sampling); the postconditions are taken from the property statements and are
evaluated with independent references written in this file.
"""

import builtins
import contextlib
import datetime
import io
import itertools
import math
import os
import re
import shutil
import tempfile
import traceback
import warnings

warnings.filterwarnings('ignore')

NPROC = 16

# ======================================================================================
#  Part 1: C16 - store / retrieve with crash points
# ======================================================================================

FID_TXN = 'src/pharmpy/workflows/model_database/local_directory.py:LocalModelDirectoryDatabase.transaction'
FID_STORE_MODEL = (
    'src/pharmpy/workflows/model_database/local_directory.py:'
    'LocalModelDirectoryDatabaseTransaction.store_model'
)
FID_RETR_ENTRY = (
    'src/pharmpy/workflows/model_database/local_directory.py:'
    'LocalModelDirectoryDatabaseSnapshot.retrieve_model_entry'
)
FID_CTX_STORE = 'src/pharmpy/workflows/contexts/baseclass.py:Context._store_model'
FID_CTX_RETR = 'src/pharmpy/workflows/contexts/baseclass.py:Context._retrieve_me'
FID_CTX_INIT = 'src/pharmpy/workflows/contexts/local_directory.py:LocalDirectoryContext.__init__'
FID_STORE_KEY = 'src/pharmpy/workflows/contexts/local_directory.py:LocalDirectoryContext.store_key'
FID_ANN = 'src/pharmpy/workflows/contexts/local_directory.py:LocalDirectoryContext.store_annotation'
FID_MSG = 'src/pharmpy/workflows/contexts/local_directory.py:LocalDirectoryContext.store_message'

# --- clauses (stable keys) -----------------------------------------------------------
CL_NOERR = 'fault-free store/retrieve/log operations raise no exception'
CL_RT_NAME = (
    'retrieve by name after a successful store returns the stored model (function, parameters, '
    'random variables, dataset, datainfo, name, description)'
)
CL_RT_RES = (
    'retrieve by name after a successful store returns the stored modelfit results '
    '(floats to 1e-12) and the log entries verbatim and in order'
)
CL_RT_KEY = 'retrieve by key after a successful store returns the stored model, results and log'
CL_RT_ENTRYLOG = 'a log attached only to the ModelEntry (results without log) is retrieved with the entry'
CL_RT_RENAME = 'storing a different model under an existing name makes that name retrieve the new model'
CL_MSG = 'context log messages are retrieved verbatim and in order'
CL_ANN = 'annotations are retrieved verbatim'
CL_FRAME = 'store does not modify the model entry it is given'
CL_K_REOPEN = 'after a crash the context can be re-opened'
CL_K_PARTIAL = 'after a crash, retrieving the interrupted entry raises or returns exactly what was being stored'
CL_K_EARLIER = 'after a crash, entries committed earlier are retrievable by name and key and equal what was stored'
CL_K_VISIBLE = 'after a crash, every listed model name either fails to retrieve or retrieves what was stored under it'
CL_K_MSGS = 'after a crash, log messages committed earlier are retrieved verbatim and in order and no partial message is visible'
CL_K_LOGWRITE = 'after a crash, a new log message can be written and all complete messages are retrieved verbatim'
CL_K_SHARED_OK = 'after a crash, storing another model that shares the dataset succeeds'
CL_K_SHARED_EQ = 'after a crash, another model that shares the dataset is stored and retrieved equal to what was stored'
CL_K_OTHER_OK = 'after a crash, storing a model with a different dataset succeeds'
CL_K_OTHER_EQ = 'after a crash, a model with a different dataset is stored and retrieved equal to what was stored'
CL_K_RETRY = 'retrying the interrupted store never makes a partial entry readable'
CL_K_RETRY_OK = 'a retried store that returns normally makes the entry retrievable and equal to what was stored'
CL_K_ANN = 'after a crash in an annotation write the annotation is the old or the new text, never a partial one'


class _Kill(BaseException):
    """simulated process death (nothing may touch the file system afterwards)"""


class _Fault(OSError):
    """simulated I/O error raised by one file-system operation"""


_W_MODES = set('wax')


class FaultFS:
    """Counts the mutating file-system operations below `root` and lets the k-th one fail.

    Operations: mkdir / create (os.open O_CREAT of a missing file) / unlink / rmdir / rename /
    replace / symlink / link / open (builtin open in a writing mode: creation or truncation) /
    write (the content of a file opened for writing reaching the disk, at close).
    mode 'exc': the k-th operation raises OSError, later operations work (handlers run);
    mode 'kill': the k-th operation raises a BaseException and every later mutating operation
    raises as well until restart() (process death).  torn=True (write operations only): the
    first half of the content reaches the file before the crash.
    """

    def __init__(self, root):
        self.root = os.path.realpath(root)
        self.n = 0
        self.trace = []
        self.crash_at = None
        self.mode = 'exc'
        self.torn = False
        self.dead = False
        self.hit = None
        self.hit_index = None
        self._saved = {}

    # -- control --------------------------------------------------------------------
    def arm(self, crash_at, mode, torn):
        self.crash_at, self.mode, self.torn = crash_at, mode, torn

    def restart(self):
        self.crash_at = None
        self.dead = False

    def _exc(self):
        if self.mode == 'kill':
            return _Kill('simulated process death')
        return _Fault(5, 'simulated I/O error')

    def _inside(self, path):
        try:
            p = os.fspath(path)
        except TypeError:
            return None
        if isinstance(p, bytes):
            p = os.fsdecode(p)
        if not isinstance(p, str):
            return None
        p = os.path.abspath(p)
        if p == self.root or p.startswith(self.root + os.sep):
            return p
        return None

    def _tick(self, kind, p):
        """returns True when this operation is the crash point"""
        if self.dead:
            raise _Kill('simulated process death')
        self.n += 1
        rel = p[len(self.root):]
        self.trace.append((kind, rel))
        if self.crash_at is not None and self.n == self.crash_at:
            self.hit = (kind, rel)
            self.hit_index = self.n
            self.crash_at = None
            if self.mode == 'kill':
                self.dead = True
            return True
        return False

    # -- patching -------------------------------------------------------------------
    def install(self):
        fs = self
        o_mkdir, o_unlink, o_remove, o_rmdir = os.mkdir, os.unlink, os.remove, os.rmdir
        o_rename, o_replace, o_symlink, o_link = os.rename, os.replace, os.symlink, os.link
        o_osopen, o_open = os.open, builtins.open
        self._saved = dict(
            mkdir=o_mkdir, unlink=o_unlink, remove=o_remove, rmdir=o_rmdir, rename=o_rename,
            replace=o_replace, symlink=o_symlink, link=o_link, osopen=o_osopen, open=o_open,
            ioopen=io.open,
        )

        def mkdir(path, *a, **k):
            p = fs._inside(path)
            if p and os.path.isdir(os.path.dirname(p)) and not os.path.lexists(p):
                if fs._tick('mkdir', p):
                    raise fs._exc()
            return o_mkdir(path, *a, **k)

        def _rm(orig, kind):
            def f(path, *a, **k):
                p = fs._inside(path)
                if p and os.path.lexists(p):
                    if fs._tick(kind, p):
                        raise fs._exc()
                return orig(path, *a, **k)

            return f

        def _two(orig, kind):
            def f(src, dst, *a, **k):
                p = fs._inside(dst)
                if p:
                    if fs._tick(kind, p):
                        raise fs._exc()
                return orig(src, dst, *a, **k)

            return f

        def osopen(path, flags, *a, **k):
            p = fs._inside(path)
            if p:
                creates = (flags & os.O_CREAT) and not os.path.lexists(p)
                truncs = (flags & os.O_TRUNC) and os.path.lexists(p)
                if creates or truncs:
                    if fs._tick('create', p):
                        raise fs._exc()
            return o_osopen(path, flags, *a, **k)

        def open_(file, mode='r', *a, **k):
            p = None if isinstance(file, int) else fs._inside(file)
            if p and (_W_MODES & set(mode) or '+' in mode):
                if '+' in mode:
                    # not used by the code under contract; counted as one opaque operation
                    if fs._tick('open+', p):
                        raise fs._exc()
                    return o_open(file, mode, *a, **k)
                if 'w' in mode or not os.path.lexists(p):
                    if fs._tick('open', p):
                        raise fs._exc()
                elif fs.dead:
                    raise _Kill('simulated process death')
                real = o_open(file, mode, *a, **k)
                return _BufferedWriter(fs, real, p, 'b' in mode)
            return o_open(file, mode, *a, **k)

        os.mkdir = mkdir
        os.unlink = _rm(o_unlink, 'unlink')
        os.remove = _rm(o_remove, 'unlink')
        os.rmdir = _rm(o_rmdir, 'rmdir')
        os.rename = _two(o_rename, 'rename')
        os.replace = _two(o_replace, 'replace')
        os.symlink = _two(o_symlink, 'symlink')
        os.link = _two(o_link, 'link')
        os.open = osopen
        builtins.open = open_
        io.open = open_

    def uninstall(self):
        s = self._saved
        if not s:
            return
        os.mkdir, os.unlink, os.remove, os.rmdir = s['mkdir'], s['unlink'], s['remove'], s['rmdir']
        os.rename, os.replace, os.symlink, os.link = s['rename'], s['replace'], s['symlink'], s['link']
        os.open, builtins.open, io.open = s['osopen'], s['open'], s['ioopen']
        self._saved = {}


class _BufferedWriter:
    """File opened for writing below the root: the content reaches the disk at close() as ONE
    counted 'write' operation (so that a crash can leave nothing or a torn half of it)."""

    def __init__(self, fs, real, p, binary):
        self._fs, self._real, self._p, self._binary = fs, real, p, binary
        self._parts = []
        self._closed = False

    def write(self, s):
        if self._fs.dead:
            raise _Kill('simulated process death')
        self._parts.append(s)
        return len(s)

    def writelines(self, lines):
        for line in lines:
            self.write(line)

    def flush(self):
        pass

    def writable(self):
        return True

    def readable(self):
        return False

    @property
    def closed(self):
        return self._closed

    def close(self):
        if self._closed:
            return
        self._closed = True
        fs = self._fs
        data = (b'' if self._binary else '').join(self._parts)
        if fs.dead:
            self._real.close()
            return
        try:
            crash = fs._tick('write', self._p)
        except _Kill:
            self._real.close()
            raise
        if crash:
            if fs.torn:
                self._real.write(data[: len(data) // 2])
            self._real.close()
            raise fs._exc()
        self._real.write(data)
        self._real.close()

    def __enter__(self):
        return self

    def __exit__(self, et, ev, tb):
        self.close()
        return False

    def __del__(self):
        try:
            if not self._closed:
                self._closed = True
                if not self._fs.dead:
                    self._real.write((b'' if self._binary else '').join(self._parts))
                self._real.close()
        except BaseException:
            pass

    def __getattr__(self, name):
        return getattr(self._real, name)


# --- the entries ---------------------------------------------------------------------------

_T0 = datetime.datetime(2024, 1, 2, 3, 4, 5, 678)
ENTRY_LOG_MESSAGES = (
    'plain 0', 'a, b', 'say "q"', 'l1\nl2', 'NA', '', ' lead', 'trail ', 'café', '10', "it's", 'last 11',
)
CTX_MESSAGES = (
    'plain', 'with, comma', 'say "hello"', 'line1\nline2', 'NA', '', ' lead', 'trail ', "it's",
    'a,b,"c"\n"', 'nan', '1.0', 'NULL', 'café',
)
ANNOTATIONS = ('plain', 'desc, with "q"', '', 'NA', ' x ', 'a  b', "it's; 100%")

_ENTRIES = None


def _make_log(prefix, n=12):
    from pharmpy.workflows.log import Log, LogEntry

    entries = []
    for i in range(n):
        msg = ENTRY_LOG_MESSAGES[i % len(ENTRY_LOG_MESSAGES)]
        entries.append(
            LogEntry(
                category='WARNING' if i % 3 else 'ERROR',
                message=(prefix + msg) if msg else msg,
                time=_T0 + datetime.timedelta(seconds=i, microseconds=i),
            )
        )
    return Log(tuple(entries))


def _entries():
    """Labelled ModelEntry pool: A, B, D share the pheno dataset; C, F share a second dataset;
    E has a third one; A2 is A under another name/description (same key)."""
    global _ENTRIES
    if _ENTRIES is not None:
        return _ENTRIES
    import dataclasses

    import pandas as pd

    from pharmpy.modeling import fix_parameters, load_example_model, set_initial_estimates
    from pharmpy.tools import load_example_modelfit_results
    from pharmpy.workflows import ModelEntry, ModelfitResults

    base = load_example_model('pheno')
    res = load_example_modelfit_results('pheno')
    df = base.dataset

    def small_res(ofv, model, log):
        pe = pd.Series(
            {p.name: round(p.init * 1.25, 6) for p in model.parameters}, name='estimates'
        )
        return ModelfitResults(
            ofv=ofv, parameter_estimates=pe, minimization_successful=True, log=log,
            warnings=['w, "1"', ''],
        )

    def entry(model, results):
        return ModelEntry.create(model, modelfit_results=results, log=results.log)

    mA = base.replace(name='mA', description='PHENOBARB, "simple" model; it\'s NA')
    mB = set_initial_estimates(base, {'POP_CL': 0.005, 'IIV_VC': 0.04}).replace(
        name='mB', description=''
    )
    mD = fix_parameters(base, ['POP_VC']).replace(name='mD', description='fixed VC')
    d2 = df[df['ID'] <= 5].reset_index(drop=True)
    mC = base.replace(dataset=d2, name='mC', description='NA')
    mF = set_initial_estimates(mC, {'POP_VC': 1.5}).replace(name='mF', description='shares with C')
    d3 = df[df['ID'] >= 50].reset_index(drop=True)
    mE = base.replace(dataset=d3, name='mE', description='third dataset')
    mA2 = mA.replace(name='mA2', description='alias of A')
    # same name as B, another model (shares the dataset)
    mBx = set_initial_estimates(base, {'POP_CL': 0.007}).replace(name='mB', description='B replaced')

    _ENTRIES = {
        'A': entry(mA, dataclasses.replace(res, log=_make_log('A '))),
        'B': entry(mB, small_res(586.25, mB, _make_log('B '))),
        'C': entry(mC, small_res(101.5, mC, _make_log('C ', 13))),
        'D': entry(mD, small_res(590.125, mD, _make_log('D ', 3))),
        'E': entry(mE, small_res(77.0, mE, _make_log('E ', 2))),
        'F': entry(mF, small_res(99.75, mF, _make_log('F ', 11))),
        'A2': entry(mA2, dataclasses.replace(res, log=_make_log('A '))),
        'Bx': entry(mBx, small_res(580.5, mBx, _make_log('Bx ', 4))),
        # log only on the entry, results carry no log
        'L': ModelEntry.create(
            fix_parameters(base, ['COVAPGR']).replace(name='mL', description='entry log only'),
            modelfit_results=ModelfitResults(ofv=1.5),
            log=_make_log('L ', 2),
        ),
    }
    return _ENTRIES


_DATASET_GROUP = {'A': 1, 'B': 1, 'D': 1, 'A2': 1, 'Bx': 1, 'L': 1, 'C': 2, 'F': 2, 'E': 3}


# --- independent equivalence of entries ---------------------------------------------------


def _missing(x):
    return x is None or (isinstance(x, float) and math.isnan(x))


def _num_eq(a, b):
    if _missing(a) or _missing(b):
        return _missing(a) and _missing(b)  # None / NaN: the same 'missing' marker
    try:
        fa, fb = float(a), float(b)
    except (TypeError, ValueError):
        return a == b
    if math.isnan(fa) or math.isnan(fb):
        return math.isnan(fa) and math.isnan(fb)
    return fa == fb or abs(fa - fb) <= 1e-12 * max(abs(fa), abs(fb))


def _frame_diff(a, b):
    import pandas as pd

    if a is None or b is None:
        return None if (a is None and b is None) else f'{type(a).__name__} vs {type(b).__name__}'
    if type(a) is not type(b):
        return f'type {type(a).__name__} vs {type(b).__name__}'
    if a.shape != b.shape:
        return f'shape {a.shape} vs {b.shape}'
    if list(map(str, a.index.tolist())) != list(map(str, b.index.tolist())):
        return 'index differs'
    if isinstance(a, pd.DataFrame):
        if list(map(str, a.columns)) != list(map(str, b.columns)):
            return 'columns differ'
        va = [x for col in a.columns for x in a[col].tolist()]
        vb = [x for col in b.columns for x in b[col].tolist()]
    else:
        va, vb = a.tolist(), b.tolist()
    for x, y in zip(va, vb):
        if isinstance(x, (pd.DataFrame, pd.Series)):
            d = _frame_diff(x, y)
            if d:
                return 'nested: ' + d
        elif not _num_eq(x, y):
            return f'value {x!r} vs {y!r}'
    return None


def _log_tuple(log):
    if log is None:
        return None
    return [(e.category, e.message, e.time.isoformat()) for e in log]


def _model_diff(a, b, name=True, description=True):
    """differences between stored model a and retrieved model b (primitive values only)"""
    out = []
    if name and a.name != b.name:
        out.append(f'name {a.name!r} vs {b.name!r}')
    if description and a.description != b.description:
        out.append(f'description {a.description!r} vs {b.description!r}')

    def ptup(m):
        return [(p.name, float(p.init), float(p.lower), float(p.upper), bool(p.fix)) for p in m.parameters]

    if ptup(a) != ptup(b):
        out.append(f'parameters {ptup(a)} vs {ptup(b)}')

    def rvtup(m):
        res = []
        for d in m.random_variables:
            res.append((tuple(d.names), d.level, str(d.mean), str(d.variance)))
        return res

    if rvtup(a) != rvtup(b):
        out.append(f'random variables {rvtup(a)} vs {rvtup(b)}')
    if [str(s) for s in a.statements] != [str(s) for s in b.statements] or a.statements != b.statements:
        out.append('statements (model function) differ')
    if str(a.dependent_variables) != str(b.dependent_variables):
        out.append('dependent variables differ')
    if a.execution_steps != b.execution_steps:
        out.append('execution steps differ')
    da, db_ = a.dataset, b.dataset
    if da is None or db_ is None:
        if not (da is None and db_ is None):
            out.append('dataset missing')
    else:
        if list(da.columns) != list(db_.columns):
            out.append(f'dataset columns {list(da.columns)} vs {list(db_.columns)}')
        elif da.shape != db_.shape:
            out.append(f'dataset shape {da.shape} vs {db_.shape}')
        elif not da.reset_index(drop=True).equals(db_.reset_index(drop=True)):
            out.append('dataset values differ')
    dia = [(c.name, c.type, c.scale, c.continuous, c.drop, c.datatype) for c in a.datainfo]
    dib = [(c.name, c.type, c.scale, c.continuous, c.drop, c.datatype) for c in b.datainfo]
    if dia != dib:
        out.append(f'datainfo columns {dia} vs {dib}')
    return out


def _results_diff(a, b):
    import dataclasses

    import pandas as pd

    if a is None or b is None:
        return [] if (a is None and b is None) else [f'results {type(a).__name__} vs {type(b).__name__}']
    out = []
    for f in dataclasses.fields(a):
        if f.name in ('log', '__version__'):
            continue
        x, y = getattr(a, f.name), getattr(b, f.name, None)
        if isinstance(x, (pd.DataFrame, pd.Series)) or isinstance(y, (pd.DataFrame, pd.Series)):
            d = _frame_diff(x, y)
            if d:
                out.append(f'results.{f.name}: {d}')
        elif isinstance(x, (list, tuple)) and isinstance(y, (list, tuple)):
            if list(x) != list(y):
                out.append(f'results.{f.name}: {x!r} vs {y!r}')
        elif not _num_eq(x, y):
            out.append(f'results.{f.name}: {x!r} vs {y!r}')
    if _log_tuple(a.log) != _log_tuple(b.log):
        out.append(f'results.log {_short(_log_tuple(a.log))} vs {_short(_log_tuple(b.log))}')
    return out


def _short(x, n=300):
    s = repr(x)
    return s if len(s) <= n else s[:n] + '...'


def _entry_diff(stored, got, name=True, description=True, expected_description=None):
    """(model differences, results/log differences) of retrieved entry `got` wrt `stored`"""
    a = stored.model
    if expected_description is not None:
        a = a.replace(description=expected_description)
    md = _model_diff(a, got.model, name=name, description=description)
    rd = _results_diff(stored.modelfit_results, got.modelfit_results)
    if _log_tuple(stored.log) != _log_tuple(got.log):
        rd.append(f'entry log {_short(_log_tuple(stored.log))} vs {_short(_log_tuple(got.log))}')
    return md, rd


# --- workload interpreter -----------------------------------------------------------------
#
# steps (json-able lists):
#   ['ctx']                    create / open the context (always first)
#   ['store', L]               ctx.store_model_entry(entry L)
#   ['retrieve', L]            ctx.retrieve_model_entry(name of L) and compare (happy-path clauses)
#   ['retrieve_key', L]        db.retrieve_model_entry(ModelHash(model of L)) and compare
#   ['log', severity, i]       ctx.log_<severity>(CTX_MESSAGES[i])
#   ['ann', L, j]              ctx.store_annotation(name of L, ANNOTATIONS[j])
#   ['txn', L]                 db-level transaction: store_model, store_local_file, store_metadata,
#                              store_modelfit_results in ONE transaction, then ctx.store_key/annotation


class _Ref:
    """reference state: what a reader is entitled to see"""

    def __init__(self):
        self.names = {}  # name -> label of the entry stored under it
        self.desc = {}  # name -> annotation text
        self.msgs = []  # (severity, message)
        self.keys = {}  # label -> set of names sharing the key


def _open_ctx(root):
    from pharmpy.workflows.contexts.local_directory import LocalDirectoryContext

    return LocalDirectoryContext('ctx', root)


def _open_db(root):
    from pharmpy.workflows.model_database.local_directory import LocalModelDirectoryDatabase

    return LocalModelDirectoryDatabase(os.path.join(root, 'ctx', '.modeldb'))


def _retrieve_log_msgs(ctx):
    df = ctx.retrieve_log()
    sev = [str(s).lower() for s in df['severity']]
    return [(s, m) for s, m in zip(sev, df['message'].tolist())]


def _same_msgs(got, want):
    if len(got) != len(want):
        return False
    for (s1, m1), (s2, m2) in zip(got, want):
        if s1 != s2 or not isinstance(m1, str) or m1 != m2:
            return False
    return True


class _Fails:
    def __init__(self, case):
        self.case = case
        self.items = []

    def add(self, fid, clause, detail):
        for f in self.items:
            if f['fid'] == fid and f['clause'] == clause:
                return
        case = dict(self.case)
        case['fid'], case['clause'] = fid, clause
        self.items.append(
            {'fid': fid, 'clause': clause, 'detail': _short(detail, 900), 'case': case,
             'replay_fn': 'bounded_store_crash_replay'}
        )


def _exc_str(e):
    return f'{type(e).__name__}: {str(e)[:200]}'


def _do_step(step, ctx_box, root, ref, fails, happy):
    """execute one workload step on the real code; updates the reference state on success"""
    E = _entries()
    kind = step[0]
    if kind == 'ctx':
        ctx_box[0] = _open_ctx(root)
        return
    ctx = ctx_box[0]
    if kind == 'store':
        me = E[step[1]]
        ctx.store_model_entry(me)
        ref.names[me.model.name] = step[1]
        ref.desc[me.model.name] = me.model.description
    elif kind == 'txn':
        me = E[step[1]]
        db = ctx.model_database
        aux = os.path.join(root, 'aux_' + step[1] + '.txt')
        with open(aux, 'w') as fh:
            fh.write('auxiliary file of ' + step[1] + '\n')
        with db.transaction(me) as txn:
            txn.store_model()
            txn.store_local_file(aux, 'notes.txt')
            txn.store_metadata({'label': step[1], 'n': 3})
            txn.store_modelfit_results()
            key = txn.key
        ctx.store_key(me.model.name, key)
        ctx.store_annotation(me.model.name, me.model.description)
        ref.names[me.model.name] = step[1]
        ref.desc[me.model.name] = me.model.description
    elif kind == 'log':
        getattr(ctx, 'log_' + step[1])(CTX_MESSAGES[step[2]])
        ref.msgs.append((step[1], CTX_MESSAGES[step[2]]))
    elif kind == 'ann':
        name = E[step[1]].model.name
        ctx.store_annotation(name, ANNOTATIONS[step[2]])
        ref.desc[name] = ANNOTATIONS[step[2]]
    elif kind == 'retrieve':
        if happy:
            _check_committed_name(ctx, E[step[1]].model.name, ref, fails, CL_RT_NAME, CL_RT_RES)
    elif kind == 'retrieve_key':
        if happy:
            _check_committed_key(_open_db(root), step[1], ref, fails, CL_RT_KEY)
    else:
        raise ValueError(step)


def _check_committed_name(ctx, name, ref, fails, cl_model, cl_res, what='', fid=None):
    """a committed name must be retrievable and equal; returns True when fine"""
    E = _entries()
    label = ref.names[name]
    if label == 'Bx' and cl_model == CL_RT_NAME:
        # the name was stored before with another model: separate clause
        cl_model = cl_res = CL_RT_RENAME
    try:
        got = ctx.retrieve_model_entry(name)
    except Exception as e:
        fails.add(fid or FID_CTX_RETR, cl_model,
                  f'{what}retrieve_model_entry({name!r}) of stored entry {label} raised {_exc_str(e)}')
        return False
    md, rd = _entry_diff(E[label], got, expected_description=ref.desc[name])
    if md:
        fails.add(fid or FID_CTX_RETR, cl_model, f'{what}entry {label} retrieved as {name!r}: ' + '; '.join(md))
    if rd:
        if label == 'L':
            cl_res = CL_RT_ENTRYLOG
        fails.add(fid or FID_RETR_ENTRY, cl_res, f'{what}entry {label} retrieved as {name!r}: ' + '; '.join(rd))
    return not md and not rd


def _key_shared(label, ref):
    """names currently stored whose entry has the same key as `label`"""
    same = {'A': {'A', 'A2'}, 'A2': {'A', 'A2'}}.get(label, {label})
    return [n for n, lab in ref.names.items() if lab in same]


_KEYS = {}
_FULL = True  # False in the quick tier: fewer redundant reads after a crash


def _key_of(label):
    from pharmpy.workflows.hashing import ModelHash

    if label not in _KEYS:
        _KEYS[label] = ModelHash(_entries()[label].model)
    return _KEYS[label]


def _check_committed_key(db, label, ref, fails, clause, what='', fid=None):
    E = _entries()
    try:
        got = db.retrieve_model_entry(_key_of(label))
    except Exception as e:
        fails.add(fid or FID_RETR_ENTRY, clause, f'{what}retrieve by key of stored entry {label} raised {_exc_str(e)}')
        return False
    md, rd = _entry_diff(E[label], got, name=False, description=len(_key_shared(label, ref)) <= 1)
    if md or rd:
        fails.add(fid or FID_RETR_ENTRY, clause, f'{what}entry {label} by key: ' + '; '.join(md + rd))
    return not md and not rd


def _probe_uncommitted(ctx, db, label, ref_desc_options, fails, fid, clause, what, ref=None):
    """An entry whose store did not complete: a reader gets an exception or exactly the entry."""
    from pharmpy.workflows.hashing import ModelHash

    E = _entries()
    me = E[label]
    name = me.model.name
    ok = True
    try:
        got = ctx.retrieve_model_entry(name)
    except Exception:
        got = None
    if got is not None:
        best = None
        for d in ref_desc_options:
            md, rd = _entry_diff(me, got, expected_description=d)
            if not md and not rd:
                best = []
                break
            if best is None:
                best = md + rd
        if best:
            ok = False
            fails.add(fid, clause, f'{what}: reader of name {name!r} obtained a different entry: ' + '; '.join(best))
    try:
        gotk = db.retrieve_model_entry(_key_of(label))
    except Exception:
        gotk = None
    if gotk is not None:
        shared = ref is not None and any(n != name for n in _key_shared(label, ref))
        md, rd = _entry_diff(me, gotk, name=False, description=not shared)
        if md or rd:
            ok = False
            fails.add(fid, clause, f'{what}: reader of the key of {label} obtained a different entry: ' + '; '.join(md + rd))
    return ok


def _fs_listing(root):
    out = []
    for r, ds, fs_ in os.walk(root):
        for f in sorted(fs_):
            p = os.path.join(r, f)
            try:
                out.append((p[len(root):], os.path.getsize(p)))
            except OSError:
                out.append((p[len(root):], -1))
    return sorted(out)


class _Run:
    pass


def _run_workload(steps, crash_at, mode, torn, post):
    """Run one workload on the real code under the fault-injecting file system (with an optional
    crash).  The directory tree is left in place (run.root) for the checks after the restart."""
    E = _entries()
    run = _Run()
    run.case = {'steps': steps, 'crash_at': crash_at, 'mode': mode, 'torn': torn, 'post': post}
    run.fails = fails = _Fails(run.case)
    run.root = root = tempfile.mkdtemp(prefix='bdb_')
    run.fs = fs = FaultFS(root)
    run.ref = ref = _Ref()
    run.crashed_step = None
    run.steps, run.post = steps, post
    ctx_box = [None]
    happy = crash_at is None
    snapshots = {}
    try:
        fs.install()
        fs.arm(crash_at, mode, torn)
        with contextlib.redirect_stdout(io.StringIO()), contextlib.redirect_stderr(io.StringIO()):
            for i, step in enumerate(steps):
                hit_before = fs.hit
                if step[0] in ('store', 'txn'):
                    snapshots[step[1]] = _entry_fingerprint(E[step[1]])
                try:
                    _do_step(step, ctx_box, root, ref, fails, happy)
                except BaseException as e:
                    if fs.hit is not None and hit_before is None:
                        run.crashed_step = i
                        break
                    if isinstance(e, (KeyboardInterrupt, SystemExit)):
                        raise
                    fails.add(_fid_of_step(step), CL_NOERR,
                              f'step {step} raised {_exc_str(e)} :: ' + traceback.format_exc()[-300:])
                    run.crashed_step = i
                    break
                if step[0] in ('store', 'txn') and snapshots[step[1]] != _entry_fingerprint(E[step[1]]):
                    fails.add(FID_STORE_MODEL, CL_FRAME, f'entry {step[1]} changed during step {step}')
    finally:
        fs.uninstall()
    run.trace = list(fs.trace)
    fs.restart()
    return run


def _run_checks(run):
    """restart: fresh objects on the tree left by the workload, evaluate the contracts"""
    with contextlib.redirect_stdout(io.StringIO()), contextlib.redirect_stderr(io.StringIO()):
        if run.case['crash_at'] is None:
            if run.crashed_step is None:
                _final_happy_checks(run.root, run.ref, run.fails)
        elif run.fs.hit is not None:
            _post_crash_checks(run.root, run.steps, run.crashed_step, run.ref, run.fails, run.post, run.fs)


def _run_case(steps, crash_at, mode, torn, post, collect_trace=False):
    """Run one workload (with an optional crash) and evaluate the contracts."""
    run = _run_workload(steps, crash_at, mode, torn, post)
    try:
        _run_checks(run)
    finally:
        shutil.rmtree(run.root, ignore_errors=True)
    return {'fails': run.fails.items, 'nops': len(run.trace), 'trace': run.trace if collect_trace else None,
            'hit': run.fs.hit, 'crashed_step': run.crashed_step}


_TS = re.compile(rb'\d{4}-\d\d-\d\d \d\d:\d\d:\d\d(\.\d+)?')


def _tree_digest(root):
    """content digest of the directory tree (root path and log time stamps normalised)"""
    import hashlib

    h = hashlib.sha256()
    rb = root.encode()
    for r, ds, fs_ in os.walk(root):
        ds.sort()
        rel = r[len(root):]
        h.update(b'D' + rel.encode() + b'\0')
        for d in list(ds):
            p = os.path.join(r, d)
            if os.path.islink(p):
                h.update(b'L' + d.encode() + b'>' + os.readlink(p).encode() + b'\0')
        for f in sorted(fs_):
            p = os.path.join(r, f)
            if os.path.islink(p):
                h.update(b'L' + f.encode() + b'>' + os.readlink(p).encode() + b'\0')
                continue
            with open(p, 'rb') as fh:
                data = fh.read().replace(rb, b'<ROOT>')
            if f == 'log.csv':
                data = _TS.sub(b'<T>', data)
            h.update(b'F' + f.encode() + b'\0' + str(len(data)).encode() + b'\0' + data)
    return h.hexdigest()


def _fid_of_step(step):
    return {'ctx': FID_CTX_INIT, 'store': FID_CTX_STORE, 'txn': FID_TXN, 'log': FID_MSG, 'ann': FID_ANN,
            'retrieve': FID_CTX_RETR, 'retrieve_key': FID_RETR_ENTRY}[step[0]]


def _entry_fingerprint(me):
    """cheap value fingerprint of an entry to detect in-place modification of the input"""
    m = me.model
    ds = m.dataset
    return (
        m.name, m.description, str(m.datainfo.path), tuple(ds.columns), ds.shape,
        float(ds.to_numpy(dtype=float, na_value=0.0).sum()),
        tuple((p.name, p.init, p.fix) for p in m.parameters), m.code if hasattr(m, 'code') else '',
        tuple(_log_tuple(me.log) or ()),
    )


def _final_happy_checks(root, ref, fails):
    """fresh objects: every stored name and key is retrievable and equal; log verbatim"""
    try:
        ctx = _open_ctx(root)
        db = _open_db(root)
    except Exception as e:
        fails.add(FID_CTX_INIT, CL_NOERR, f're-opening the context raised {_exc_str(e)}')
        return
    for name in sorted(ref.names):
        _check_committed_name(ctx, name, ref, fails, CL_RT_NAME, CL_RT_RES)
        if ref.names[name] == 'L':
            continue
        _check_committed_key(db, ref.names[name], ref, fails, CL_RT_KEY)
    try:
        listed = sorted(ctx.list_all_names())
        if listed != sorted(ref.names):
            fails.add(FID_STORE_KEY, CL_RT_NAME, f'list_all_names() == {listed}, stored {sorted(ref.names)}')
    except Exception as e:
        fails.add(FID_STORE_KEY, CL_NOERR, f'list_all_names raised {_exc_str(e)}')
    try:
        got = _retrieve_log_msgs(ctx)
        if not _same_msgs(got, ref.msgs):
            fails.add(FID_MSG, CL_MSG, f'logged {ref.msgs!r}, retrieved {got!r}')
    except Exception as e:
        fails.add(FID_MSG, CL_MSG, f'logged {ref.msgs!r}, retrieve_log raised {_exc_str(e)}')


def _blame(hit, step, default):
    """the function whose file-system operation was interrupted (for attributing a violation)"""
    if hit is None:
        return default
    rel = hit[1]
    if rel == '/ctx/annotations':
        return FID_CTX_INIT if step is not None and step[0] == 'ctx' else FID_ANN
    if rel == '/ctx/log.csv':
        return FID_CTX_INIT if step is not None and step[0] == 'ctx' else FID_MSG
    if '/.datasets' in rel:
        return FID_STORE_MODEL
    if rel.startswith('/ctx/models/'):
        return FID_STORE_KEY
    if rel.startswith('/ctx/.modeldb/'):
        return FID_TXN
    return default


def _post_crash_checks(root, steps, ci, ref, fails, post, fs):
    """the contracts of the property after a crash in step `ci` (None: the faulted operation was
    absorbed and every step returned normally, then everything counts as committed)"""
    E = _entries()
    step = steps[ci] if ci is not None else None
    what = (f'{fs.mode} crash{" (torn write)" if fs.torn else ""} at file-system op #{fs.hit_index} '
            f'{fs.hit} in step {step}: ')
    default = _fid_of_step(step) if step is not None else FID_TXN
    fid = _blame(fs.hit, step, default)
    try:
        ctx = _open_ctx(root)
        db = _open_db(root)
    except Exception as e:
        fails.add(fid, CL_K_REOPEN, f'{what}re-opening the context raised {_exc_str(e)}')
        return
    # (1) the interrupted entry
    crashed_label = step[1] if step is not None and step[0] in ('store', 'txn') else None
    if crashed_label is not None:
        _probe_uncommitted(ctx, db, crashed_label, [E[crashed_label].model.description], fails,
                           fid, CL_K_PARTIAL, what, ref)
    if step is not None and step[0] == 'ann':
        name = E[step[1]].model.name
        if name in ref.names:
            old, new = ref.desc[name], ANNOTATIONS[step[2]]
            try:
                got = ctx.retrieve_model_entry(name)
            except Exception:
                got = None
            if got is not None and got.model.description not in (old, new):
                fails.add(fid, CL_K_ANN, f'{what}description of {name!r} is {got.model.description!r}, '
                                         f'old {old!r}, new {new!r}')
            if got is not None and got.model.description == new:
                ref.desc[name] = new
            # (a reader that gets an exception here is reported by the next clause: the entry was
            # committed earlier and must stay retrievable)
    # (2) entries committed earlier
    committed = sorted(ref.names)
    for name in committed:
        _check_committed_name(ctx, name, ref, fails, CL_K_EARLIER, CL_K_EARLIER, what, fid)
        if _FULL:  # (by name goes through the same key directory; by key only in the thorough tier)
            _check_committed_key(db, ref.names[name], ref, fails, CL_K_EARLIER, what, fid)
    # (3) visible subset of committed
    try:
        listed = list(ctx.list_all_names())
    except Exception as e:
        listed = []
        fails.add(fid, CL_K_VISIBLE, f'{what}list_all_names raised {_exc_str(e)}')
    for name in listed:
        if name in ref.names:
            continue  # checked above
        cands = [lab for lab in E if E[lab].model.name == name and (lab == crashed_label)]
        try:
            got = ctx.retrieve_model_entry(name)
        except Exception:
            continue
        okay = False
        for lab in cands:
            md, rd = _entry_diff(E[lab], got)
            okay = okay or not (md or rd)
        if not okay:
            fails.add(fid, CL_K_VISIBLE,
                      f'{what}listed name {name!r} retrieves an entry that was never stored under it')
    # (4) log messages
    pending = None
    if step is not None and step[0] == 'log':
        pending = (step[1], CTX_MESSAGES[step[2]])
    try:
        got = _retrieve_log_msgs(ctx)
        fine = _same_msgs(got, ref.msgs) or (pending is not None and _same_msgs(got, ref.msgs + [pending]))
        if fine and pending is not None and len(got) == len(ref.msgs) + 1:
            ref.msgs.append(pending)
            pending = None
        if not fine:
            fails.add(fid, CL_K_MSGS, f'{what}committed {ref.msgs!r}, in progress {pending!r}, retrieved {got!r}')
    except Exception as e:
        fails.add(fid, CL_K_MSGS, f'{what}committed {ref.msgs!r}, retrieve_log raised {_exc_str(e)}')
    new_msg = ('warning', 'after restart, "quoted"')
    try:
        ctx.log_warning(new_msg[1])
        got = _retrieve_log_msgs(ctx)
        if not _same_msgs(got, ref.msgs + [new_msg]):
            fails.add(fid, CL_K_LOGWRITE, f'{what}expected {ref.msgs + [new_msg]!r}, retrieved {got!r}')
    except Exception as e:
        fails.add(fid, CL_K_LOGWRITE, f'{what}log_warning / retrieve_log raised {_exc_str(e)}')
    # (5) other stores (in the order given by `post`)
    group = _DATASET_GROUP.get(crashed_label)
    stored_labels = set(ref.names.values())
    candidates = [lab for lab in post if lab != crashed_label and lab not in stored_labels
                  and E[lab].model.name not in ref.names
                  and (crashed_label is None or E[lab].model.name != E[crashed_label].model.name)]
    for lab in candidates:
        shares = group is not None and _DATASET_GROUP[lab] == group
        cl_ok, cl_eq = (CL_K_SHARED_OK, CL_K_SHARED_EQ) if shares else (CL_K_OTHER_OK, CL_K_OTHER_EQ)
        me = E[lab]
        try:
            ctx.store_model_entry(me)
        except Exception as e:
            fails.add(fid, cl_ok, f'{what}then store of {lab} raised {_exc_str(e)}')
            continue
        try:
            got = _open_ctx(root).retrieve_model_entry(me.model.name)
        except Exception as e:
            fails.add(fid, cl_eq, f'{what}then stored {lab}, retrieving it raised {_exc_str(e)}')
            continue
        md, rd = _entry_diff(me, got)
        if md or rd:
            fails.add(fid, cl_eq, f'{what}then stored {lab}, retrieved differs: ' + '; '.join(md + rd))
    # (6) retry of the interrupted store
    if crashed_label is not None:
        me = E[crashed_label]
        returned = False
        try:
            _do_step(step, [ctx], root, _Ref(), fails, False)
            returned = True
        except Exception:
            pass
        ctx3, db3 = _open_ctx(root), _open_db(root)
        if returned:
            ref.names[me.model.name] = crashed_label
            ref.desc[me.model.name] = me.model.description
            _check_committed_name(ctx3, me.model.name, ref, fails, CL_K_RETRY_OK, CL_K_RETRY_OK,
                                  what + 'then the retried store returned normally: ', fid)
            _check_committed_key(db3, crashed_label, ref, fails, CL_K_RETRY_OK,
                                 what + 'then the retried store returned normally: ', fid)
            del ref.names[me.model.name]
        else:
            _probe_uncommitted(ctx3, db3, crashed_label, [me.model.description], fails, fid, CL_K_RETRY,
                               what + 'then the retried store raised: ', ref)
    # (7) entries committed before the crash are still intact after all of that
    ctx4 = _open_ctx(root)
    for name in committed:
        _check_committed_name(ctx4, name, ref, fails, CL_K_EARLIER, CL_K_EARLIER,
                              what + 'after the follow-up stores: ', fid)


# --- enumeration ---------------------------------------------------------------------------

# messages used inside crash workloads round-trip in the fault-free case (indices into CTX_MESSAGES)
_W_QUICK = [
    ['ctx'], ['store', 'A'], ['log', 'info', 1], ['store', 'B'], ['log', 'warning', 2],
    ['retrieve', 'A'], ['store', 'C'], ['ann', 'A', 1], ['log', 'error', 3],
]
_W_THOROUGH = [
    [['ctx'], ['store', 'C'], ['store', 'B'], ['log', 'info', 9], ['store', 'A'], ['ann', 'B', 6],
     ['retrieve', 'C']],
    [['ctx'], ['txn', 'A'], ['log', 'warning', 3], ['txn', 'D'], ['store', 'F'], ['retrieve_key', 'A']],
    [['ctx'], ['store', 'A'], ['store', 'A2'], ['ann', 'A2', 1], ['store', 'B'], ['retrieve', 'A2']],
]
_POST_ORDERS = {'quick': [['E', 'D', 'F']], 'thorough': [['E', 'D', 'F'], ['D', 'F', 'E', 'B']]}


def _happy_workloads(tier):
    ws = [
        _W_QUICK + [['retrieve_key', 'A'], ['retrieve', 'B'], ['retrieve', 'C']],
        [['ctx'], ['store', 'A'], ['store', 'A2'], ['store', 'B'], ['store', 'D'], ['store', 'C'],
         ['store', 'F'], ['store', 'E'], ['retrieve', 'A'], ['retrieve', 'A2'], ['retrieve_key', 'F']],
        [['ctx'], ['store', 'L']],
        [['ctx'], ['store', 'B'], ['store', 'Bx']],
        [['ctx'], ['txn', 'A'], ['txn', 'B'], ['txn', 'C'], ['retrieve', 'A'], ['retrieve_key', 'B']],
        [['ctx']] + [['log', ('info', 'warning', 'error')[i % 3], i] for i in range(len(CTX_MESSAGES))],
    ]
    for i in range(len(CTX_MESSAGES)):
        ws.append([['ctx'], ['log', 'info', i]])
    for j in range(len(ANNOTATIONS)):
        ws.append([['ctx'], ['store', 'B'], ['ann', 'B', j]])
    if tier == 'thorough':
        ws.extend(_W_THOROUGH)
        for a, b in itertools.permutations(['A', 'B', 'C', 'D', 'F'], 2):
            ws.append([['ctx'], ['store', a], ['store', b], ['retrieve', a], ['retrieve_key', b]])
    return ws


def _crash_workloads(tier):
    return [_W_QUICK] if tier == 'quick' else [_W_QUICK] + _W_THOROUGH


def _checker_error(args, e):
    steps, crash_at, mode, torn, post = args
    case = {'steps': steps, 'crash_at': crash_at, 'mode': mode, 'torn': torn, 'post': post,
            'fid': 'contracts/b_db.py:_run_case', 'clause': 'checker runs to completion'}
    return {'fid': case['fid'], 'clause': case['clause'],
            'detail': _exc_str(e) + ' :: ' + traceback.format_exc()[-600:], 'case': case,
            'replay_fn': 'bounded_store_crash_replay'}


def _worker(args):
    """one fault-free workload, or one crash point in BOTH modes (exception, process death);
    the checks after the restart are evaluated once per distinct resulting directory tree"""
    steps, crash_at, mode, torn, post = args
    out = {'args': args, 'fails': [], 'cases': 0, 'nontrivial': 0, 'distinct': 0}
    modes = ['exc'] if crash_at is None else ['exc', 'kill']
    runs = []
    try:
        for m in modes:
            out['cases'] += 1
            a = (steps, crash_at, m, torn, post)
            try:
                run = _run_workload(steps, crash_at, m, torn, post)
            except BaseException as e:  # checker error: reported as a failing case, never dropped
                out['fails'].append(_checker_error(a, e))
                continue
            runs.append(run)
            if crash_at is None or run.fs.hit is not None:
                out['nontrivial'] += 1
            run.digest = (_tree_digest(run.root), run.crashed_step, run.fs.hit)
        seen = set()
        for run in runs:
            if run.digest not in seen:
                seen.add(run.digest)
                out['distinct'] += 1
                try:
                    _run_checks(run)
                except BaseException as e:
                    c = run.case
                    out['fails'].append(_checker_error((c['steps'], c['crash_at'], c['mode'], c['torn'], c['post']), e))
            out['fails'].extend(run.fails.items)
    finally:
        for run in runs:
            shutil.rmtree(run.root, ignore_errors=True)
    return out


def _case_size(case):
    return (len(case['steps']), case['crash_at'] or 0, 0 if case['mode'] == 'exc' else 1,
            1 if case['torn'] else 0, len(case['post'] or []))


def bounded_store_crash(tier):
    import multiprocessing

    global _FULL
    _entries()  # import pharmpy and build the entries once, before forking
    _FULL = tier != 'quick'
    for lab in _entries():
        _key_of(lab)
    jobs = []
    post0 = _POST_ORDERS[tier][0]
    for w in _happy_workloads(tier):
        jobs.append((w, None, 'exc', False, post0))
    nhappy = len(jobs)
    opcounts = []
    for w in _crash_workloads(tier):
        probe = _run_case(w, None, 'exc', False, post0, collect_trace=True)
        trace = probe['trace']
        opcounts.append(len(trace))
        for post in _POST_ORDERS[tier]:
            for k in range(1, len(trace) + 1):
                jobs.append((w, k, 'both', False, post))
                if trace[k - 1][0] == 'write':
                    jobs.append((w, k, 'both', True, post))
    ctxm = multiprocessing.get_context('fork')
    with ctxm.Pool(NPROC) as pool:
        results = pool.map(_worker, jobs, chunksize=1)
    best = {}
    cases = nontrivial = distinct = 0
    for r in results:
        cases += r['cases']
        nontrivial += r['nontrivial']
        distinct += r['distinct']
        for f in r['fails']:
            key = (f['fid'], f['clause'])
            if key not in best or _case_size(f['case']) < _case_size(best[key]['case']):
                best[key] = f
    fails = sorted(best.values(), key=lambda f: (f['fid'], f['clause']))
    mid = jobs[nhappy + (len(jobs) - nhappy) // 2]
    return {
        'cases': cases,
        'nontrivial': nontrivial,
        'bound': (
            f'{nhappy} fault-free workloads (9 entries A,A2,B,Bx,C,D,E,F,L of the pheno model over 3 '
            f'datasets, each of {len(CTX_MESSAGES)} log messages and {len(ANNOTATIONS)} annotations singly and in '
            f'sequence) + {len(_crash_workloads(tier))} crash workload(s) of <= 4 store/retrieve operations over 3 '
            f'models (two sharing a dataset) with log/annotation writes: EVERY mutating file-system operation '
            f'k=1..N (N={opcounts}) x {{exception, process death}} x {{before the operation, torn half-written '
            f'file for content writes}} x {len(_POST_ORDERS[tier])} order(s) of follow-up stores; after each crash '
            f'restart with fresh objects, reads, stores of other models, retry (evaluated once per distinct '
            f'resulting directory tree: {distinct} trees)'
        ),
        'samples': [_short(j[:4], 240) for j in (jobs[1], mid, jobs[-1])],
        'fails': fails,
    }


def bounded_store_crash_replay(rp):
    case = rp['case']
    out = _run_case(case['steps'], case['crash_at'], case['mode'], case['torn'], case['post'])
    for f in out['fails']:
        if f['fid'] == case.get('fid') and f['clause'] == case.get('clause'):
            return (False, f['detail'])
    return (True, 'ok')
