"""Bounded contract checks for C16 (model database / run context, crash atomicity)
and C04 (NONMEM $THETA/$OMEGA/$SIGMA write-back).

    bounded_store_crash(tier)     + bounded_store_crash_replay(rp)
    bounded_record_updates(tier)  + bounded_record_updates_replay(rp)

Both checks run the REAL pharmpy code over an exhaustively enumerated finite domain
(no sampling); the postconditions are taken from the property statements and are
evaluated with independent references written in this file.
"""

import builtins
import contextlib
import datetime
import io
import itertools
import math
import os
import re
import shutil
import tempfile
import traceback
import warnings

warnings.filterwarnings('ignore')

NPROC = 16

# ======================================================================================
#  Part 1: C16 - store / retrieve with crash points
# ======================================================================================

FID_TXN = 'src/pharmpy/workflows/model_database/local_directory.py:LocalModelDirectoryDatabase.transaction'
FID_STORE_MODEL = (
    'src/pharmpy/workflows/model_database/local_directory.py:'
    'LocalModelDirectoryDatabaseTransaction.store_model'
)
FID_RETR_ENTRY = (
    'src/pharmpy/workflows/model_database/local_directory.py:'
    'LocalModelDirectoryDatabaseSnapshot.retrieve_model_entry'
)
FID_CTX_STORE = 'src/pharmpy/workflows/contexts/baseclass.py:Context._store_model'
FID_CTX_RETR = 'src/pharmpy/workflows/contexts/baseclass.py:Context._retrieve_me'
FID_CTX_INIT = 'src/pharmpy/workflows/contexts/local_directory.py:LocalDirectoryContext.__init__'
FID_STORE_KEY = 'src/pharmpy/workflows/contexts/local_directory.py:LocalDirectoryContext.store_key'
FID_ANN = 'src/pharmpy/workflows/contexts/local_directory.py:LocalDirectoryContext.store_annotation'
FID_MSG = 'src/pharmpy/workflows/contexts/local_directory.py:LocalDirectoryContext.store_message'

# --- clauses (stable keys) -----------------------------------------------------------
CL_NOERR = 'fault-free store/retrieve/log operations raise no exception'
CL_RT_NAME = (
    'retrieve by name after a successful store returns the stored model (function, parameters, '
    'random variables, dataset, datainfo, name, description)'
)
CL_RT_RES = (
    'retrieve by name after a successful store returns the stored modelfit results '
    '(floats to 1e-12) and the log entries verbatim and in order'
)
CL_RT_KEY = 'retrieve by key after a successful store returns the stored model, results and log'
CL_RT_ENTRYLOG = 'a log attached only to the ModelEntry (results without log) is retrieved with the entry'
CL_RT_RENAME = 'storing a different model under an existing name makes that name retrieve the new model'
CL_MSG = 'context log messages are retrieved verbatim and in order'
CL_ANN = 'annotations are retrieved verbatim'
CL_FRAME = 'store does not modify the model entry it is given'
CL_K_REOPEN = 'after a crash the context can be re-opened'
CL_K_PARTIAL = 'after a crash, retrieving the interrupted entry raises or returns exactly what was being stored'
CL_K_EARLIER = 'after a crash, entries committed earlier are retrievable by name and key and equal what was stored'
CL_K_VISIBLE = 'after a crash, every listed model name either fails to retrieve or retrieves what was stored under it'
CL_K_MSGS = 'after a crash, log messages committed earlier are retrieved verbatim and in order and no partial message is visible'
CL_K_LOGWRITE = 'after a crash, a new log message can be written and all complete messages are retrieved verbatim'
CL_K_SHARED_OK = 'after a crash, storing another model that shares the dataset succeeds'
CL_K_SHARED_EQ = 'after a crash, another model that shares the dataset is stored and retrieved equal to what was stored'
CL_K_OTHER_OK = 'after a crash, storing a model with a different dataset succeeds'
CL_K_OTHER_EQ = 'after a crash, a model with a different dataset is stored and retrieved equal to what was stored'
CL_K_RETRY = 'retrying the interrupted store never makes a partial entry readable'
CL_K_RETRY_OK = 'a retried store that returns normally makes the entry retrievable and equal to what was stored'
CL_K_ANN = 'after a crash in an annotation write the annotation is the old or the new text, never a partial one'


class _Kill(BaseException):
    """simulated process death (nothing may touch the file system afterwards)"""


class _Fault(OSError):
    """simulated I/O error raised by one file-system operation"""


_W_MODES = set('wax')


class FaultFS:
    """Counts the mutating file-system operations below `root` and lets the k-th one fail.

    Operations: mkdir / create (os.open O_CREAT of a missing file) / unlink / rmdir / rename /
    replace / symlink / link / open (builtin open in a writing mode: creation or truncation) /
    write (the content of a file opened for writing reaching the disk, at close).
    mode 'exc': the k-th operation raises OSError, later operations work (handlers run);
    mode 'kill': the k-th operation raises a BaseException and every later mutating operation
    raises as well until restart() (process death).  torn=True (write operations only): the
    first half of the content reaches the file before the crash.
    """

    def __init__(self, root):
        self.root = os.path.realpath(root)
        self.n = 0
        self.trace = []
        self.crash_at = None
        self.mode = 'exc'
        self.torn = False
        self.dead = False
        self.hit = None
        self.hit_index = None
        self._saved = {}

    # -- control --------------------------------------------------------------------
    def arm(self, crash_at, mode, torn):
        self.crash_at, self.mode, self.torn = crash_at, mode, torn

    def restart(self):
        self.crash_at = None
        self.dead = False

    def _exc(self):
        if self.mode == 'kill':
            return _Kill('simulated process death')
        return _Fault(5, 'simulated I/O error')

    def _inside(self, path):
        try:
            p = os.fspath(path)
        except TypeError:
            return None
        if isinstance(p, bytes):
            p = os.fsdecode(p)
        if not isinstance(p, str):
            return None
        p = os.path.abspath(p)
        if p == self.root or p.startswith(self.root + os.sep):
            return p
        return None

    def _tick(self, kind, p):
        """returns True when this operation is the crash point"""
        if self.dead:
            raise _Kill('simulated process death')
        self.n += 1
        rel = p[len(self.root):]
        self.trace.append((kind, rel))
        if self.crash_at is not None and self.n == self.crash_at:
            self.hit = (kind, rel)
            self.hit_index = self.n
            self.crash_at = None
            if self.mode == 'kill':
                self.dead = True
            return True
        return False

    # -- patching -------------------------------------------------------------------
    def install(self):
        fs = self
        o_mkdir, o_unlink, o_remove, o_rmdir = os.mkdir, os.unlink, os.remove, os.rmdir
        o_rename, o_replace, o_symlink, o_link = os.rename, os.replace, os.symlink, os.link
        o_osopen, o_open = os.open, builtins.open
        self._saved = dict(
            mkdir=o_mkdir, unlink=o_unlink, remove=o_remove, rmdir=o_rmdir, rename=o_rename,
            replace=o_replace, symlink=o_symlink, link=o_link, osopen=o_osopen, open=o_open,
            ioopen=io.open,
        )

        def mkdir(path, *a, **k):
            p = fs._inside(path)
            if p and os.path.isdir(os.path.dirname(p)) and not os.path.lexists(p):
                if fs._tick('mkdir', p):
                    raise fs._exc()
            return o_mkdir(path, *a, **k)

        def _rm(orig, kind):
            def f(path, *a, **k):
                p = fs._inside(path)
                if p and os.path.lexists(p):
                    if fs._tick(kind, p):
                        raise fs._exc()
                return orig(path, *a, **k)

            return f

        def _two(orig, kind):
            def f(src, dst, *a, **k):
                p = fs._inside(dst)
                if p:
                    if fs._tick(kind, p):
                        raise fs._exc()
                return orig(src, dst, *a, **k)

            return f

        def osopen(path, flags, *a, **k):
            p = fs._inside(path)
            if p:
                creates = (flags & os.O_CREAT) and not os.path.lexists(p)
                truncs = (flags & os.O_TRUNC) and os.path.lexists(p)
                if creates or truncs:
                    if fs._tick('create', p):
                        raise fs._exc()
            return o_osopen(path, flags, *a, **k)

        def open_(file, mode='r', *a, **k):
            p = None if isinstance(file, int) else fs._inside(file)
            if p and (_W_MODES & set(mode) or '+' in mode):
                if '+' in mode:
                    # not used by the code under contract; counted as one opaque operation
                    if fs._tick('open+', p):
                        raise fs._exc()
                    return o_open(file, mode, *a, **k)
                if 'w' in mode or not os.path.lexists(p):
                    if fs._tick('open', p):
                        raise fs._exc()
                elif fs.dead:
                    raise _Kill('simulated process death')
                real = o_open(file, mode, *a, **k)
                return _BufferedWriter(fs, real, p, 'b' in mode)
            return o_open(file, mode, *a, **k)

        os.mkdir = mkdir
        os.unlink = _rm(o_unlink, 'unlink')
        os.remove = _rm(o_remove, 'unlink')
        os.rmdir = _rm(o_rmdir, 'rmdir')
        os.rename = _two(o_rename, 'rename')
        os.replace = _two(o_replace, 'replace')
        os.symlink = _two(o_symlink, 'symlink')
        os.link = _two(o_link, 'link')
        os.open = osopen
        builtins.open = open_
        io.open = open_

    def uninstall(self):
        s = self._saved
        if not s:
            return
        os.mkdir, os.unlink, os.remove, os.rmdir = s['mkdir'], s['unlink'], s['remove'], s['rmdir']
        os.rename, os.replace, os.symlink, os.link = s['rename'], s['replace'], s['symlink'], s['link']
        os.open, builtins.open, io.open = s['osopen'], s['open'], s['ioopen']
        self._saved = {}


class _BufferedWriter:
    """File opened for writing below the root: the content reaches the disk at close() as ONE
    counted 'write' operation (so that a crash can leave nothing or a torn half of it)."""

    def __init__(self, fs, real, p, binary):
        self._fs, self._real, self._p, self._binary = fs, real, p, binary
        self._parts = []
        self._closed = False

    def write(self, s):
        if self._fs.dead:
            raise _Kill('simulated process death')
        self._parts.append(s)
        return len(s)

    def writelines(self, lines):
        for line in lines:
            self.write(line)

    def flush(self):
        pass

    def writable(self):
        return True

    def fileno(self):
        # no shortcut around the buffer (shutil falls back to read/write copying)
        raise io.UnsupportedOperation('fileno')

    def readable(self):
        return False

    @property
    def closed(self):
        return self._closed

    def close(self):
        if self._closed:
            return
        self._closed = True
        fs = self._fs
        data = (b'' if self._binary else '').join(self._parts)
        if fs.dead:
            self._real.close()
            return
        try:
            crash = fs._tick('write', self._p)
        except _Kill:
            self._real.close()
            raise
        if crash:
            if fs.torn:
                self._real.write(data[: len(data) // 2])
            self._real.close()
            raise fs._exc()
        self._real.write(data)
        self._real.close()

    def __enter__(self):
        return self

    def __exit__(self, et, ev, tb):
        self.close()
        return False

    def __del__(self):
        try:
            if not self._closed:
                self._closed = True
                if not self._fs.dead:
                    self._real.write((b'' if self._binary else '').join(self._parts))
                self._real.close()
        except BaseException:
            pass

    def __getattr__(self, name):
        return getattr(self._real, name)


# --- the entries ---------------------------------------------------------------------------

_T0 = datetime.datetime(2024, 1, 2, 3, 4, 5, 678)
ENTRY_LOG_MESSAGES = (
    'plain 0', 'a, b', 'say "q"', 'l1\nl2', 'NA', '', ' lead', 'trail ', 'café', '10', "it's", 'last 11',
)
CTX_MESSAGES = (
    'plain', 'with, comma', 'say "hello"', 'line1\nline2', 'NA', '', ' lead', 'trail ', "it's",
    'a,b,"c"\n"', 'nan', '1.0', 'NULL', 'café',
)
ANNOTATIONS = ('plain', 'desc, with "q"', '', 'NA', ' x ', 'a  b', "it's; 100%")

_ENTRIES = None


def _make_log(prefix, n=12):
    from pharmpy.workflows.log import Log, LogEntry

    entries = []
    for i in range(n):
        msg = ENTRY_LOG_MESSAGES[i % len(ENTRY_LOG_MESSAGES)]
        entries.append(
            LogEntry(
                category='WARNING' if i % 3 else 'ERROR',
                message=(prefix + msg) if msg else msg,
                time=_T0 + datetime.timedelta(seconds=i, microseconds=i),
            )
        )
    return Log(tuple(entries))


def _entries():
    """Labelled ModelEntry pool: A, B, D share the pheno dataset; C, F share a second dataset;
    E has a third one; A2 is A under another name/description (same key)."""
    global _ENTRIES
    if _ENTRIES is not None:
        return _ENTRIES
    import dataclasses

    import pandas as pd

    from pharmpy.modeling import fix_parameters, load_example_model, set_initial_estimates
    from pharmpy.tools import load_example_modelfit_results
    from pharmpy.workflows import ModelEntry, ModelfitResults

    base = load_example_model('pheno')
    res = load_example_modelfit_results('pheno')
    df = base.dataset

    def small_res(ofv, model, log):
        pe = pd.Series(
            {p.name: round(p.init * 1.25, 6) for p in model.parameters}, name='estimates'
        )
        return ModelfitResults(
            ofv=ofv, parameter_estimates=pe, minimization_successful=True, log=log,
            warnings=['w, "1"', ''],
        )

    def entry(model, results):
        return ModelEntry.create(model, modelfit_results=results, log=results.log)

    mA = base.replace(name='mA', description='PHENOBARB, "simple" model; it\'s NA')
    mB = set_initial_estimates(base, {'POP_CL': 0.005, 'IIV_VC': 0.04}).replace(
        name='mB', description=''
    )
    mD = fix_parameters(base, ['POP_VC']).replace(name='mD', description='fixed VC')
    d2 = df[df['ID'] <= 5].reset_index(drop=True)
    mC = base.replace(dataset=d2, name='mC', description='NA')
    mF = set_initial_estimates(mC, {'POP_VC': 1.5}).replace(name='mF', description='shares with C')
    d3 = df[df['ID'] >= 50].reset_index(drop=True)
    mE = base.replace(dataset=d3, name='mE', description='third dataset')
    mA2 = mA.replace(name='mA2', description='alias of A')
    # same name as B, another model (shares the dataset)
    mBx = set_initial_estimates(base, {'POP_CL': 0.007}).replace(name='mB', description='B replaced')

    _ENTRIES = {
        'A': entry(mA, dataclasses.replace(res, log=_make_log('A '))),
        'B': entry(mB, small_res(586.25, mB, _make_log('B '))),
        'C': entry(mC, small_res(101.5, mC, _make_log('C ', 13))),
        'D': entry(mD, small_res(590.125, mD, _make_log('D ', 3))),
        'E': entry(mE, small_res(77.0, mE, _make_log('E ', 2))),
        'F': entry(mF, small_res(99.75, mF, _make_log('F ', 11))),
        'A2': entry(mA2, dataclasses.replace(res, log=_make_log('A '))),
        'Bx': entry(mBx, small_res(580.5, mBx, _make_log('Bx ', 4))),
        # log only on the entry, results carry no log
        'L': ModelEntry.create(
            fix_parameters(base, ['COVAPGR']).replace(name='mL', description='entry log only'),
            modelfit_results=ModelfitResults(ofv=1.5),
            log=_make_log('L ', 2),
        ),
    }
    return _ENTRIES


_DATASET_GROUP = {'A': 1, 'B': 1, 'D': 1, 'A2': 1, 'Bx': 1, 'L': 1, 'C': 2, 'F': 2, 'E': 3}


# --- independent equivalence of entries ---------------------------------------------------


def _missing(x):
    return x is None or (isinstance(x, float) and math.isnan(x))


def _num_eq(a, b):
    if _missing(a) or _missing(b):
        return _missing(a) and _missing(b)  # None / NaN: the same 'missing' marker
    try:
        fa, fb = float(a), float(b)
    except (TypeError, ValueError):
        return a == b
    if math.isnan(fa) or math.isnan(fb):
        return math.isnan(fa) and math.isnan(fb)
    return fa == fb or abs(fa - fb) <= 1e-12 * max(abs(fa), abs(fb))


def _frame_diff(a, b):
    import pandas as pd

    if a is None or b is None:
        return None if (a is None and b is None) else f'{type(a).__name__} vs {type(b).__name__}'
    if type(a) is not type(b):
        return f'type {type(a).__name__} vs {type(b).__name__}'
    if a.shape != b.shape:
        return f'shape {a.shape} vs {b.shape}'
    if list(map(str, a.index.tolist())) != list(map(str, b.index.tolist())):
        return 'index differs'
    if isinstance(a, pd.DataFrame):
        if list(map(str, a.columns)) != list(map(str, b.columns)):
            return 'columns differ'
        va = [x for col in a.columns for x in a[col].tolist()]
        vb = [x for col in b.columns for x in b[col].tolist()]
    else:
        va, vb = a.tolist(), b.tolist()
    for x, y in zip(va, vb):
        if isinstance(x, (pd.DataFrame, pd.Series)):
            d = _frame_diff(x, y)
            if d:
                return 'nested: ' + d
        elif not _num_eq(x, y):
            return f'value {x!r} vs {y!r}'
    return None


def _log_tuple(log):
    if log is None:
        return None
    return [(e.category, e.message, e.time.isoformat()) for e in log]


def _model_diff(a, b, name=True, description=True):
    """differences between stored model a and retrieved model b (primitive values only)"""
    out = []
    if name and a.name != b.name:
        out.append(f'name {a.name!r} vs {b.name!r}')
    if description and a.description != b.description:
        out.append(f'description {a.description!r} vs {b.description!r}')

    def ptup(m):
        return [(p.name, float(p.init), float(p.lower), float(p.upper), bool(p.fix)) for p in m.parameters]

    if ptup(a) != ptup(b):
        out.append(f'parameters {ptup(a)} vs {ptup(b)}')

    def rvtup(m):
        res = []
        for d in m.random_variables:
            res.append((tuple(d.names), d.level, str(d.mean), str(d.variance)))
        return res

    if rvtup(a) != rvtup(b):
        out.append(f'random variables {rvtup(a)} vs {rvtup(b)}')
    if [str(s) for s in a.statements] != [str(s) for s in b.statements] or a.statements != b.statements:
        out.append('statements (model function) differ')
    if str(a.dependent_variables) != str(b.dependent_variables):
        out.append('dependent variables differ')
    if a.execution_steps != b.execution_steps:
        out.append('execution steps differ')
    da, db_ = a.dataset, b.dataset
    if da is None or db_ is None:
        if not (da is None and db_ is None):
            out.append('dataset missing')
    else:
        if list(da.columns) != list(db_.columns):
            out.append(f'dataset columns {list(da.columns)} vs {list(db_.columns)}')
        elif da.shape != db_.shape:
            out.append(f'dataset shape {da.shape} vs {db_.shape}')
        elif not da.reset_index(drop=True).equals(db_.reset_index(drop=True)):
            out.append('dataset values differ')
    dia = [(c.name, c.type, c.scale, c.continuous, c.drop, c.datatype) for c in a.datainfo]
    dib = [(c.name, c.type, c.scale, c.continuous, c.drop, c.datatype) for c in b.datainfo]
    if dia != dib:
        out.append(f'datainfo columns {dia} vs {dib}')
    return out


def _results_diff(a, b):
    import dataclasses

    import pandas as pd

    if a is None or b is None:
        return [] if (a is None and b is None) else [f'results {type(a).__name__} vs {type(b).__name__}']
    out = []
    for f in dataclasses.fields(a):
        if f.name in ('log', '__version__'):
            continue
        x, y = getattr(a, f.name), getattr(b, f.name, None)
        if isinstance(x, (pd.DataFrame, pd.Series)) or isinstance(y, (pd.DataFrame, pd.Series)):
            d = _frame_diff(x, y)
            if d:
                out.append(f'results.{f.name}: {d}')
        elif isinstance(x, (list, tuple)) and isinstance(y, (list, tuple)):
            if list(x) != list(y):
                out.append(f'results.{f.name}: {x!r} vs {y!r}')
        elif not _num_eq(x, y):
            out.append(f'results.{f.name}: {x!r} vs {y!r}')
    if _log_tuple(a.log) != _log_tuple(b.log):
        out.append(f'results.log {_short(_log_tuple(a.log))} vs {_short(_log_tuple(b.log))}')
    return out


def _short(x, n=300):
    s = x if isinstance(x, str) else repr(x)
    return s if len(s) <= n else s[:n] + '...'


def _entry_diff(stored, got, name=True, description=True, expected_description=None):
    """(model differences, results/log differences) of retrieved entry `got` wrt `stored`"""
    a = stored.model
    if expected_description is not None:
        a = a.replace(description=expected_description)
    md = _model_diff(a, got.model, name=name, description=description)
    rd = _results_diff(stored.modelfit_results, got.modelfit_results)
    if _log_tuple(stored.log) != _log_tuple(got.log):
        rd.append(f'entry log {_short(_log_tuple(stored.log))} vs {_short(_log_tuple(got.log))}')
    return md, rd


# --- workload interpreter -----------------------------------------------------------------
#
# steps (json-able lists):
#   ['ctx']                    create / open the context (always first)
#   ['store', L]               ctx.store_model_entry(entry L)
#   ['retrieve', L]            ctx.retrieve_model_entry(name of L) and compare (happy-path clauses)
#   ['retrieve_key', L]        db.retrieve_model_entry(ModelHash(model of L)) and compare
#   ['log', severity, i]       ctx.log_<severity>(CTX_MESSAGES[i])
#   ['ann', L, j]              ctx.store_annotation(name of L, ANNOTATIONS[j])
#   ['txn', L]                 db-level transaction: store_model, store_local_file, store_metadata,
#                              store_modelfit_results in ONE transaction, then ctx.store_key/annotation


class _Ref:
    """reference state: what a reader is entitled to see"""

    def __init__(self):
        self.names = {}  # name -> label of the entry stored under it
        self.desc = {}  # name -> annotation text
        self.msgs = []  # (severity, message)


def _open_ctx(root):
    from pharmpy.workflows.contexts.local_directory import LocalDirectoryContext

    return LocalDirectoryContext('ctx', root)


def _open_db(root):
    from pharmpy.workflows.model_database.local_directory import LocalModelDirectoryDatabase

    return LocalModelDirectoryDatabase(os.path.join(root, 'ctx', '.modeldb'))


def _retrieve_log_msgs(ctx):
    df = ctx.retrieve_log()
    sev = [str(s).lower() for s in df['severity']]
    return [(s, m) for s, m in zip(sev, df['message'].tolist())]


def _same_msgs(got, want):
    if len(got) != len(want):
        return False
    for (s1, m1), (s2, m2) in zip(got, want):
        if s1 != s2 or not isinstance(m1, str) or m1 != m2:
            return False
    return True


class _Fails:
    def __init__(self, case):
        self.case = case
        self.items = []

    def add(self, fid, clause, detail):
        for f in self.items:
            if f['fid'] == fid and f['clause'] == clause:
                return
        case = dict(self.case)
        case['fid'], case['clause'] = fid, clause
        self.items.append(
            {'fid': fid, 'clause': clause, 'detail': _short(detail, 900), 'case': case,
             'replay_fn': 'bounded_store_crash_replay'}
        )


def _exc_str(e):
    return f'{type(e).__name__}: {str(e)[:200]}'


def _do_step(step, ctx_box, root, ref, fails, happy):
    """execute one workload step on the real code; updates the reference state on success"""
    E = _entries()
    kind = step[0]
    if kind == 'ctx':
        ctx_box[0] = _open_ctx(root)
        return
    ctx = ctx_box[0]
    if kind == 'store':
        me = E[step[1]]
        ctx.store_model_entry(me)
        ref.names[me.model.name] = step[1]
        ref.desc[me.model.name] = me.model.description
    elif kind == 'txn':
        me = E[step[1]]
        db = ctx.model_database
        aux = os.path.join(root, 'aux_' + step[1] + '.txt')
        with open(aux, 'w') as fh:
            fh.write('auxiliary file of ' + step[1] + '\n')
        with db.transaction(me) as txn:
            txn.store_model()
            txn.store_local_file(aux, 'notes.txt')
            txn.store_metadata({'label': step[1], 'n': 3})
            txn.store_modelfit_results()
            key = txn.key
        ctx.store_key(me.model.name, key)
        ctx.store_annotation(me.model.name, me.model.description)
        ref.names[me.model.name] = step[1]
        ref.desc[me.model.name] = me.model.description
    elif kind == 'log':
        getattr(ctx, 'log_' + step[1])(CTX_MESSAGES[step[2]])
        ref.msgs.append((step[1], CTX_MESSAGES[step[2]]))
    elif kind == 'ann':
        name = E[step[1]].model.name
        ctx.store_annotation(name, ANNOTATIONS[step[2]])
        ref.desc[name] = ANNOTATIONS[step[2]]
    elif kind == 'retrieve':
        # (also executed in crash workloads: everything before the crash point is fault-free)
        _check_committed_name(ctx, E[step[1]].model.name, ref, fails, CL_RT_NAME, CL_RT_RES)
    elif kind == 'retrieve_key':
        _check_committed_key(_open_db(root), step[1], ref, fails, CL_RT_KEY)
    else:
        raise ValueError(step)


def _check_committed_name(ctx, name, ref, fails, cl_model, cl_res, what='', fid=None):
    """a committed name must be retrievable and equal; returns True when fine"""
    E = _entries()
    label = ref.names[name]
    if label == 'Bx' and cl_model == CL_RT_NAME:
        # the name was stored before with another model: separate clause
        cl_model = cl_res = CL_RT_RENAME
    try:
        got = ctx.retrieve_model_entry(name)
    except Exception as e:
        fails.add(fid or FID_CTX_RETR, cl_model,
                  f'{what}retrieve_model_entry({name!r}) of stored entry {label} raised {_exc_str(e)}')
        return False
    md, rd = _entry_diff(E[label], got, expected_description=ref.desc[name])
    if md:
        fails.add(fid or FID_CTX_RETR, cl_model, f'{what}entry {label} retrieved as {name!r}: ' + '; '.join(md))
    if rd:
        if label == 'L':
            cl_res = CL_RT_ENTRYLOG
        fails.add(fid or FID_RETR_ENTRY, cl_res, f'{what}entry {label} retrieved as {name!r}: ' + '; '.join(rd))
    return not md and not rd


def _key_shared(label, ref):
    """names currently stored whose entry has the same key as `label`"""
    same = {'A': {'A', 'A2'}, 'A2': {'A', 'A2'}}.get(label, {label})
    return [n for n, lab in ref.names.items() if lab in same]


_KEYS = {}
_FULL = True  # False in the quick tier: fewer redundant reads after a crash


def _key_of(label):
    from pharmpy.workflows.hashing import ModelHash

    if label not in _KEYS:
        _KEYS[label] = ModelHash(_entries()[label].model)
    return _KEYS[label]


def _check_committed_key(db, label, ref, fails, clause, what='', fid=None):
    E = _entries()
    try:
        got = db.retrieve_model_entry(_key_of(label))
    except Exception as e:
        fails.add(fid or FID_RETR_ENTRY, clause, f'{what}retrieve by key of stored entry {label} raised {_exc_str(e)}')
        return False
    md, rd = _entry_diff(E[label], got, name=False, description=len(_key_shared(label, ref)) <= 1)
    if md or rd:
        fails.add(fid or FID_RETR_ENTRY, clause, f'{what}entry {label} by key: ' + '; '.join(md + rd))
    return not md and not rd


def _probe_uncommitted(ctx, db, label, ref_desc_options, fails, fid, clause, what, ref=None):
    """An entry whose store did not complete: a reader gets an exception or exactly the entry."""
    E = _entries()
    me = E[label]
    name = me.model.name
    ok = True
    try:
        got = ctx.retrieve_model_entry(name)
    except Exception:
        got = None
    if got is not None:
        best = None
        for d in ref_desc_options:
            md, rd = _entry_diff(me, got, expected_description=d)
            if not md and not rd:
                best = []
                break
            if best is None:
                best = md + rd
        if best:
            ok = False
            fails.add(fid, clause, f'{what}reader of name {name!r} obtained a different entry: ' + '; '.join(best))
    try:
        gotk = db.retrieve_model_entry(_key_of(label))
    except Exception:
        gotk = None
    if gotk is not None:
        shared = ref is not None and any(n != name for n in _key_shared(label, ref))
        md, rd = _entry_diff(me, gotk, name=False, description=not shared)
        if md or rd:
            ok = False
            fails.add(fid, clause, f'{what}reader of the key of {label} obtained a different entry: ' + '; '.join(md + rd))
    return ok


class _Run:
    pass


def _run_workload(steps, crash_at, mode, torn, post):
    """Run one workload on the real code under the fault-injecting file system (with an optional
    crash).  The directory tree is left in place (run.root) for the checks after the restart."""
    E = _entries()
    run = _Run()
    run.case = {'steps': steps, 'crash_at': crash_at, 'mode': mode, 'torn': torn, 'post': post}
    run.fails = fails = _Fails(run.case)
    run.root = root = tempfile.mkdtemp(prefix='bdb_')
    run.fs = fs = FaultFS(root)
    run.ref = ref = _Ref()
    run.crashed_step = None
    run.steps, run.post = steps, post
    run.step_end = []  # number of file-system operations performed when each step returned
    ctx_box = [None]
    happy = crash_at is None
    snapshots = {}
    try:
        fs.install()
        fs.arm(crash_at, mode, torn)
        with contextlib.redirect_stdout(io.StringIO()), contextlib.redirect_stderr(io.StringIO()):
            for i, step in enumerate(steps):
                hit_before = fs.hit
                if step[0] in ('store', 'txn'):
                    snapshots[step[1]] = _entry_fingerprint(E[step[1]])
                try:
                    _do_step(step, ctx_box, root, ref, fails, happy)
                except BaseException as e:
                    if fs.hit is not None and hit_before is None:
                        run.crashed_step = i
                        break
                    if isinstance(e, (KeyboardInterrupt, SystemExit)):
                        raise
                    fails.add(_fid_of_step(step), CL_NOERR,
                              f'step {step} raised {_exc_str(e)} :: ' + traceback.format_exc()[-300:])
                    run.crashed_step = i
                    break
                if step[0] in ('store', 'txn') and snapshots[step[1]] != _entry_fingerprint(E[step[1]]):
                    fails.add(FID_STORE_MODEL, CL_FRAME, f'entry {step[1]} changed during step {step}')
                run.step_end.append(fs.n)
    finally:
        fs.uninstall()
    run.trace = list(fs.trace)
    fs.restart()
    return run


def _run_checks(run):
    """restart: fresh objects on the tree left by the workload, evaluate the contracts"""
    with contextlib.redirect_stdout(io.StringIO()), contextlib.redirect_stderr(io.StringIO()):
        if run.case['crash_at'] is None:
            if run.crashed_step is None:
                _final_happy_checks(run.root, run.ref, run.fails)
        elif run.fs.hit is not None:
            _post_crash_checks(run.root, run.steps, run.crashed_step, run.ref, run.fails, run.post, run.fs)


def _run_case(steps, crash_at, mode, torn, post, collect_trace=False):
    """Run one workload (with an optional crash) and evaluate the contracts."""
    run = _run_workload(steps, crash_at, mode, torn, post)
    try:
        _run_checks(run)
    finally:
        shutil.rmtree(run.root, ignore_errors=True)
    return {'fails': run.fails.items, 'nops': len(run.trace), 'trace': run.trace if collect_trace else None,
            'hit': run.fs.hit, 'crashed_step': run.crashed_step, 'step_end': run.step_end}


_TS = re.compile(rb'\d{4}-\d\d-\d\d \d\d:\d\d:\d\d(\.\d+)?')


def _tree_digest(root):
    """content digest of the directory tree (root path and log time stamps normalised)"""
    import hashlib

    h = hashlib.sha256()
    rb = root.encode()
    for r, ds, fs_ in os.walk(root):
        ds.sort()
        rel = r[len(root):]
        h.update(b'D' + rel.encode() + b'\0')
        for d in list(ds):
            p = os.path.join(r, d)
            if os.path.islink(p):
                h.update(b'L' + d.encode() + b'>' + os.readlink(p).encode() + b'\0')
        for f in sorted(fs_):
            p = os.path.join(r, f)
            if os.path.islink(p):
                h.update(b'L' + f.encode() + b'>' + os.readlink(p).encode() + b'\0')
                continue
            with open(p, 'rb') as fh:
                data = fh.read().replace(rb, b'<ROOT>')
            if f == 'log.csv':
                data = _TS.sub(b'<T>', data)
            h.update(b'F' + f.encode() + b'\0' + str(len(data)).encode() + b'\0' + data)
    return h.hexdigest()


def _fid_of_step(step):
    return {'ctx': FID_CTX_INIT, 'store': FID_CTX_STORE, 'txn': FID_TXN, 'log': FID_MSG, 'ann': FID_ANN,
            'retrieve': FID_CTX_RETR, 'retrieve_key': FID_RETR_ENTRY}[step[0]]


def _entry_fingerprint(me):
    """cheap value fingerprint of an entry to detect in-place modification of the input"""
    m = me.model
    ds = m.dataset
    return (
        m.name, m.description, str(m.datainfo.path), tuple(ds.columns), ds.shape,
        float(ds.to_numpy(dtype=float, na_value=0.0).sum()),
        tuple((p.name, p.init, p.fix) for p in m.parameters), m.code if hasattr(m, 'code') else '',
        tuple(_log_tuple(me.log) or ()),
    )


def _final_happy_checks(root, ref, fails):
    """fresh objects: every stored name and key is retrievable and equal; log verbatim"""
    try:
        ctx = _open_ctx(root)
        db = _open_db(root)
    except Exception as e:
        fails.add(FID_CTX_INIT, CL_NOERR, f're-opening the context raised {_exc_str(e)}')
        return
    for name in sorted(ref.names):
        _check_committed_name(ctx, name, ref, fails, CL_RT_NAME, CL_RT_RES)
        if ref.names[name] == 'L':
            continue
        _check_committed_key(db, ref.names[name], ref, fails, CL_RT_KEY)
    try:
        listed = sorted(ctx.list_all_names())
        if listed != sorted(ref.names):
            fails.add(FID_STORE_KEY, CL_RT_NAME, f'list_all_names() == {listed}, stored {sorted(ref.names)}')
    except Exception as e:
        fails.add(FID_STORE_KEY, CL_NOERR, f'list_all_names raised {_exc_str(e)}')
    try:
        got = _retrieve_log_msgs(ctx)
        if not _same_msgs(got, ref.msgs):
            fails.add(FID_MSG, CL_MSG, f'logged {ref.msgs!r}, retrieved {got!r}')
    except Exception as e:
        fails.add(FID_MSG, CL_MSG, f'logged {ref.msgs!r}, retrieve_log raised {_exc_str(e)}')


def _blame(hit, step, default):
    """the function whose file-system operation was interrupted (for attributing a violation)"""
    if hit is None:
        return default
    rel = hit[1]
    if rel == '/ctx/annotations':
        return FID_CTX_INIT if step is not None and step[0] == 'ctx' else FID_ANN
    if rel == '/ctx/log.csv':
        return FID_CTX_INIT if step is not None and step[0] == 'ctx' else FID_MSG
    if '/.datasets' in rel:
        return FID_STORE_MODEL
    if rel.startswith('/ctx/models/'):
        return FID_STORE_KEY
    if rel.startswith('/ctx/.modeldb/'):
        return FID_TXN
    return default


def _post_crash_checks(root, steps, ci, ref, fails, post, fs):
    """the contracts of the property after a crash in step `ci` (None: the faulted operation was
    absorbed and every step returned normally, then everything counts as committed)"""
    E = _entries()
    step = steps[ci] if ci is not None else None
    what = (f'{fs.mode} crash{" (torn write)" if fs.torn else ""} at file-system op #{fs.hit_index} '
            f'{fs.hit} in step {step}: ')
    default = _fid_of_step(step) if step is not None else FID_TXN
    fid = _blame(fs.hit, step, default)
    try:
        ctx = _open_ctx(root)
        db = _open_db(root)
    except Exception as e:
        fails.add(fid, CL_K_REOPEN, f'{what}re-opening the context raised {_exc_str(e)}')
        return
    # (1) the interrupted entry
    crashed_label = step[1] if step is not None and step[0] in ('store', 'txn') else None
    if crashed_label is not None:
        _probe_uncommitted(ctx, db, crashed_label, [E[crashed_label].model.description], fails,
                           fid, CL_K_PARTIAL, what, ref)
    if step is not None and step[0] == 'ann':
        name = E[step[1]].model.name
        if name in ref.names:
            old, new = ref.desc[name], ANNOTATIONS[step[2]]
            try:
                got = ctx.retrieve_model_entry(name)
            except Exception:
                got = None
            if got is not None and got.model.description not in (old, new):
                fails.add(fid, CL_K_ANN, f'{what}description of {name!r} is {got.model.description!r}, '
                                         f'old {old!r}, new {new!r}')
            if got is not None and got.model.description == new:
                ref.desc[name] = new
            # (a reader that gets an exception here is reported by the next clause: the entry was
            # committed earlier and must stay retrievable)
    # (2) entries committed earlier
    committed = sorted(ref.names)
    for name in committed:
        _check_committed_name(ctx, name, ref, fails, CL_K_EARLIER, CL_K_EARLIER, what, fid)
        if _FULL:  # (by name goes through the same key directory; by key only in the thorough tier)
            _check_committed_key(db, ref.names[name], ref, fails, CL_K_EARLIER, what, fid)
    # (3) visible subset of committed
    try:
        listed = list(ctx.list_all_names())
    except Exception as e:
        listed = []
        fails.add(fid, CL_K_VISIBLE, f'{what}list_all_names raised {_exc_str(e)}')
    for name in listed:
        if name in ref.names:
            continue  # checked above
        cands = [lab for lab in E if E[lab].model.name == name and (lab == crashed_label)]
        try:
            got = ctx.retrieve_model_entry(name)
        except Exception:
            continue
        okay = False
        for lab in cands:
            md, rd = _entry_diff(E[lab], got)
            okay = okay or not (md or rd)
        if not okay:
            fails.add(fid, CL_K_VISIBLE,
                      f'{what}listed name {name!r} retrieves an entry that was never stored under it')
    # (4) log messages
    pending = None
    if step is not None and step[0] == 'log':
        pending = (step[1], CTX_MESSAGES[step[2]])
    try:
        got = _retrieve_log_msgs(ctx)
        fine = _same_msgs(got, ref.msgs) or (pending is not None and _same_msgs(got, ref.msgs + [pending]))
        if fine and pending is not None and len(got) == len(ref.msgs) + 1:
            ref.msgs.append(pending)
            pending = None
        if not fine:
            fails.add(fid, CL_K_MSGS, f'{what}committed {ref.msgs!r}, in progress {pending!r}, retrieved {got!r}')
    except Exception as e:
        fails.add(fid, CL_K_MSGS, f'{what}committed {ref.msgs!r}, retrieve_log raised {_exc_str(e)}')
    new_msg = ('warning', 'after restart, "quoted"')
    try:
        ctx.log_warning(new_msg[1])
        got = _retrieve_log_msgs(ctx)
        if not _same_msgs(got, ref.msgs + [new_msg]):
            fails.add(fid, CL_K_LOGWRITE, f'{what}expected {ref.msgs + [new_msg]!r}, retrieved {got!r}')
    except Exception as e:
        fails.add(fid, CL_K_LOGWRITE, f'{what}log_warning / retrieve_log raised {_exc_str(e)}')
    # (5) other stores (in the order given by `post`)
    group = _DATASET_GROUP.get(crashed_label)
    stored_labels = set(ref.names.values())
    candidates = [lab for lab in post if lab != crashed_label and lab not in stored_labels
                  and E[lab].model.name not in ref.names
                  and (crashed_label is None or E[lab].model.name != E[crashed_label].model.name)]
    for lab in candidates:
        shares = group is not None and _DATASET_GROUP[lab] == group
        cl_ok, cl_eq = (CL_K_SHARED_OK, CL_K_SHARED_EQ) if shares else (CL_K_OTHER_OK, CL_K_OTHER_EQ)
        me = E[lab]
        try:
            ctx.store_model_entry(me)
        except Exception as e:
            fails.add(fid, cl_ok, f'{what}then store of {lab} raised {_exc_str(e)}')
            continue
        try:
            got = _open_ctx(root).retrieve_model_entry(me.model.name)
        except Exception as e:
            fails.add(fid, cl_eq, f'{what}then stored {lab}, retrieving it raised {_exc_str(e)}')
            continue
        md, rd = _entry_diff(me, got)
        if md or rd:
            fails.add(fid, cl_eq, f'{what}then stored {lab}, retrieved differs: ' + '; '.join(md + rd))
    # (6) retry of the interrupted store
    if crashed_label is not None:
        me = E[crashed_label]
        returned = False
        try:
            _do_step(step, [ctx], root, _Ref(), fails, False)
            returned = True
        except Exception:
            pass
        ctx3, db3 = _open_ctx(root), _open_db(root)
        if returned:
            ref.names[me.model.name] = crashed_label
            ref.desc[me.model.name] = me.model.description
            _check_committed_name(ctx3, me.model.name, ref, fails, CL_K_RETRY_OK, CL_K_RETRY_OK,
                                  what + 'then the retried store returned normally: ', fid)
            _check_committed_key(db3, crashed_label, ref, fails, CL_K_RETRY_OK,
                                 what + 'then the retried store returned normally: ', fid)
            del ref.names[me.model.name]
        else:
            _probe_uncommitted(ctx3, db3, crashed_label, [me.model.description], fails, fid, CL_K_RETRY,
                               what + 'then the retried store raised: ', ref)
    # (7) entries committed before the crash are still intact after all of that
    ctx4 = _open_ctx(root)
    for name in committed:
        _check_committed_name(ctx4, name, ref, fails, CL_K_EARLIER, CL_K_EARLIER,
                              what + 'after the follow-up stores: ', fid)


# --- enumeration ---------------------------------------------------------------------------

# messages used inside crash workloads round-trip in the fault-free case (indices into CTX_MESSAGES)
_W_QUICK = [
    ['ctx'], ['store', 'A'], ['log', 'info', 1], ['store', 'B'], ['log', 'warning', 2],
    ['retrieve', 'A'], ['store', 'C'], ['ann', 'A', 1], ['log', 'error', 3],
]
_W_THOROUGH = [
    [['ctx'], ['store', 'C'], ['store', 'B'], ['log', 'info', 9], ['store', 'A'], ['ann', 'B', 6],
     ['retrieve', 'C']],
    [['ctx'], ['txn', 'A'], ['log', 'warning', 3], ['txn', 'D'], ['store', 'F'], ['retrieve_key', 'A']],
    [['ctx'], ['store', 'A'], ['store', 'A2'], ['ann', 'A2', 1], ['store', 'B'], ['retrieve', 'A2']],
]
_POST_ORDERS = {'quick': [['E', 'D', 'F']], 'thorough': [['E', 'D', 'F'], ['D', 'F', 'E', 'B']]}


def _happy_workloads(tier):
    ws = [
        _W_QUICK + [['retrieve_key', 'A'], ['retrieve', 'B'], ['retrieve', 'C']],
        [['ctx'], ['store', 'A'], ['store', 'A2'], ['store', 'B'], ['store', 'D'], ['store', 'C'],
         ['store', 'F'], ['store', 'E'], ['retrieve', 'A'], ['retrieve', 'A2'], ['retrieve_key', 'F']],
        [['ctx'], ['store', 'L']],
        [['ctx'], ['store', 'B'], ['store', 'Bx']],
        [['ctx'], ['txn', 'A'], ['txn', 'B'], ['txn', 'C'], ['retrieve', 'A'], ['retrieve_key', 'B']],
        [['ctx']] + [['log', ('info', 'warning', 'error')[i % 3], i] for i in range(len(CTX_MESSAGES))],
    ]
    for i in range(len(CTX_MESSAGES)):
        ws.append([['ctx'], ['log', 'info', i]])
    for j in range(len(ANNOTATIONS)):
        ws.append([['ctx'], ['store', 'B'], ['ann', 'B', j]])
    if tier == 'thorough':
        ws.extend(_W_THOROUGH)
        for a, b in itertools.permutations(['A', 'B', 'C', 'D', 'F'], 2):
            ws.append([['ctx'], ['store', a], ['store', b], ['retrieve', a], ['retrieve_key', b]])
    return ws


# storing an entry whose key is already committed (A2 is A under another name and description)
_W_ALIAS = [['ctx'], ['store', 'A'], ['store', 'A2']]


def _crash_workloads(tier):
    """(steps, index of the first step whose file-system operations are crash points): the crash
    points of a shared prefix are enumerated once (in _W_QUICK)"""
    ws = [(_W_QUICK, 0), (_W_ALIAS, 2)]
    if tier != 'quick':
        ws += [(w, 1) for w in _W_THOROUGH]
    return ws


def _checker_error(args, e):
    steps, crash_at, mode, torn, post = args
    case = {'steps': steps, 'crash_at': crash_at, 'mode': mode, 'torn': torn, 'post': post,
            'fid': 'contracts/b_db.py:_run_case', 'clause': 'checker runs to completion'}
    return {'fid': case['fid'], 'clause': case['clause'],
            'detail': _exc_str(e) + ' :: ' + traceback.format_exc()[-600:], 'case': case,
            'replay_fn': 'bounded_store_crash_replay'}


def _worker(args):
    """one fault-free workload, or one crash point in BOTH modes (exception, process death);
    the checks after the restart are evaluated once per distinct resulting directory tree"""
    steps, crash_at, mode, torn, post = args
    out = {'args': args, 'fails': [], 'cases': 0, 'nontrivial': 0, 'distinct': 0}
    modes = ['exc'] if crash_at is None else ['exc', 'kill']
    runs = []
    try:
        for m in modes:
            out['cases'] += 1
            a = (steps, crash_at, m, torn, post)
            try:
                run = _run_workload(steps, crash_at, m, torn, post)
            except BaseException as e:  # checker error: reported as a failing case, never dropped
                out['fails'].append(_checker_error(a, e))
                continue
            runs.append(run)
            if crash_at is None or run.fs.hit is not None:
                out['nontrivial'] += 1
            run.digest = (_tree_digest(run.root), run.crashed_step, run.fs.hit)
        seen = set()
        for run in runs:
            if run.digest not in seen:
                seen.add(run.digest)
                out['distinct'] += 1
                try:
                    _run_checks(run)
                except BaseException as e:
                    c = run.case
                    out['fails'].append(_checker_error((c['steps'], c['crash_at'], c['mode'], c['torn'], c['post']), e))
            out['fails'].extend(run.fails.items)
    finally:
        for run in runs:
            shutil.rmtree(run.root, ignore_errors=True)
    return out


def _case_size(case):
    return (len(case['steps']), case['crash_at'] or 0, 0 if case['mode'] == 'exc' else 1,
            1 if case['torn'] else 0, len(case['post'] or []))


def _also_capped(every, case, cap=300):
    """the `also` list of a failing clause (tools/BOUNDED_GUIDE.md): the failing cases in enumeration order,
    capped; the reported (smallest) case is always a member: when it lies behind the cap it takes the last place"""
    out = every[:cap]
    if case not in out:
        out = every[:cap - 1] + [case]
    return out


def bounded_store_crash(tier):
    import multiprocessing

    global _FULL
    _entries()  # import pharmpy and build the entries once, before forking
    _FULL = tier != 'quick'
    for lab in _entries():
        _key_of(lab)
    jobs = []
    post0 = _POST_ORDERS[tier][0]
    for w in _happy_workloads(tier):
        jobs.append((w, None, 'exc', False, post0))
    nhappy = len(jobs)
    opcounts = []
    for w, from_step in _crash_workloads(tier):
        probe = _run_case(w, None, 'exc', False, post0, collect_trace=True)
        trace = probe['trace']
        first = 1 if from_step == 0 else probe['step_end'][from_step - 1] + 1
        opcounts.append(len(trace) - first + 1)
        for post in _POST_ORDERS[tier]:
            for k in range(first, len(trace) + 1):
                jobs.append((w, k, 'both', False, post))
                if trace[k - 1][0] == 'write':
                    jobs.append((w, k, 'both', True, post))
    ctxm = multiprocessing.get_context('fork')
    with ctxm.Pool(NPROC) as pool:
        results = pool.map(_worker, jobs, chunksize=1)
    best = {}
    also = {}
    cases = nontrivial = distinct = 0
    for r in results:
        cases += r['cases']
        nontrivial += r['nontrivial']
        distinct += r['distinct']
        for f in r['fails']:
            key = (f['fid'], f['clause'])
            # every failing case of the clause, in enumeration order (tools/BOUNDED_GUIDE.md, `also`).  The
            # checks after the restart are evaluated once per distinct directory tree (see _worker): when
            # both crash modes leave the same tree, only the 'exc' case of the pair is listed.
            also.setdefault(key, []).append(f['case'])
            if key not in best or _case_size(f['case']) < _case_size(best[key]['case']):
                best[key] = f
    for key, f in best.items():
        f['also'] = _also_capped(also[key], f['case'])
    fails = sorted(best.values(), key=lambda f: (f['fid'], f['clause']))
    mid = jobs[nhappy + (len(jobs) - nhappy) // 2]
    return {
        'cases': cases,
        'nontrivial': nontrivial,
        'bound': (
            f'{nhappy} fault-free workloads (9 entries A,A2,B,Bx,C,D,E,F,L of the pheno model over 3 '
            f'datasets, each of {len(CTX_MESSAGES)} log messages and {len(ANNOTATIONS)} annotations singly and in '
            f'sequence) + {len(_crash_workloads(tier))} crash workload(s) of <= 4 store/retrieve operations over 3 '
            f'models (two sharing a dataset, one re-stored under a second name) with log/annotation writes: EVERY '
            f'mutating file-system operation (per workload {opcounts}, shared prefixes once) x '
            f'{{exception, process death}} x {{before the operation, torn half-written '
            f'file for content writes}} x {len(_POST_ORDERS[tier])} order(s) of follow-up stores; after each crash '
            f'restart with fresh objects, reads, stores of other models, retry (evaluated once per distinct '
            f'resulting directory tree: {distinct} trees)'
        ),
        'samples': [_short(j[:4], 240) for j in (jobs[1], mid, jobs[-1])],
        'fails': fails,
    }


def bounded_store_crash_replay(rp):
    case = rp['case']
    out = _run_case(case['steps'], case['crash_at'], case['mode'], case['torn'], case['post'])
    for f in out['fails']:
        if f['fid'] == case.get('fid') and f['clause'] == case.get('clause'):
            return (False, f['detail'])
    return (True, 'ok')


# ======================================================================================
#  Part 2: C04 - $THETA / $OMEGA / $SIGMA write-back over record layouts x edits
# ======================================================================================

FID_UPD_TH = 'src/pharmpy/model/external/nonmem/update.py:update_thetas'
FID_UPD_RV = 'src/pharmpy/model/external/nonmem/update.py:update_random_variable_records'
FID_PARSE = 'src/pharmpy/model/external/nonmem/parsing.py:parse_parameters'
_FID_EDIT = {
    'init': 'src/pharmpy/modeling/parameters.py:set_initial_estimates',
    'lower': 'src/pharmpy/modeling/parameters.py:set_lower_bounds',
    'upper': 'src/pharmpy/modeling/parameters.py:set_upper_bounds',
    'fix': 'src/pharmpy/modeling/parameters.py:fix_parameters',
    'unfix': 'src/pharmpy/modeling/parameters.py:unfix_parameters',
    'add_theta': 'src/pharmpy/modeling/parameters.py:add_population_parameter',
    'add_theta_front': 'src/pharmpy/model/external/nonmem/update.py:update_thetas',
    'rm_theta': 'src/pharmpy/modeling/common.py:remove_unused_parameters_and_rvs',
    'rm_eps': 'src/pharmpy/modeling/common.py:remove_unused_parameters_and_rvs',
    'join': 'src/pharmpy/modeling/parameter_variability.py:create_joint_distribution',
    'split': 'src/pharmpy/modeling/parameter_variability.py:split_joint_distribution',
    'remove_iiv': 'src/pharmpy/modeling/parameter_variability.py:remove_iiv',
    'add_iiv': 'src/pharmpy/modeling/parameter_variability.py:add_iiv',
}

R_READ = 'the layout is read without internal error'
R_IDENT = 'without any edit the generated code is the original text'
R_NOERR = 'the edit raises no internal error (only ValueError for inputs it rejects)'
R_PARSE = 'the generated code can be generated and read back'
R_NAMES = 're-read parameters have the same names'
R_ORDER = 're-read parameters are in the same order'
R_INIT6 = 're-read parameters have the same initial estimates (to 1e-6 relative)'
R_INIT12 = 're-read parameters have the same initial estimates (to 1e-12 relative)'
R_BOUNDS = 're-read parameters have the same bounds'
R_FIX = 're-read parameters have the same fixedness'
R_RVNAMES = 're-read random variables have the same names in the same order'
R_RVSTRUCT = 're-read random variables have the same joint structure, levels and (co)variance values'
R_SPELL = 'values that were not changed keep their original spelling'
R_SPELL_SC = 'values of an unchanged record in a non-default scale (SD / CORRELATION / CHOLESKY) keep their original spelling'

_TEMPLATE = """$PROBLEM layout
$INPUT ID TIME DV
$DATA file.csv IGNORE=@
$PRED
{pred}
{theta}
{omega}
{sigma}
$ESTIMATION METHOD=1 INTER
"""


def _pred(nt, ne, ns, variant='mul'):
    """$PRED using every theta, eta and epsilon, each random effect through its own variable
    (variant 'bare': the first eta enters as E1 = EXP(ETA(1)), otherwise E1 = X*EXP(ETA(1)))"""
    lines = [f'P{i} = THETA({i})' for i in range(1, nt + 1)]
    lines.append('X = ' + ' + '.join(f'P{i}' for i in range(1, nt + 1)))
    lines.append('E1 = EXP(ETA(1))' if variant == 'bare' else 'E1 = X*EXP(ETA(1))')
    lines += [f'E{i} = ETA({i})' for i in range(2, ne + 1)]
    lines.append('Z = ' + ('X*E1' if variant == 'bare' else 'E1') + ''.join(f' + E{i}' for i in range(2, ne + 1)))
    y = 'Y = Z + Z*EPS(1)' + ''.join(f' + EPS({i})' for i in range(2, ns + 1))
    lines.append(y)
    return '\n'.join(lines)


def _layout_code(lay):
    return _TEMPLATE.format(pred=_pred(lay['nt'], lay['ne'], lay['ns'], lay.get('pred', 'mul')),
                            theta=lay['theta'], omega=lay['omega'], sigma=lay['sigma'])


# --- layouts ----------------------------------------------------------------------------------

_TH_VALUES = [('1.50', '9.5'), ('2.0E0', '8.25'), ('3.25', '7.75')]
_TH_FORMS = {
    'v': '{v}',
    'lv': '(0,{v})',
    'lvu': '(0,{v},{u})',
    'vF': '{v} FIX',
    'lvuFin': '(0,{v},{u} FIX)',
    'lvuF': '(0,{v},{u}) FIX',
    'vFin': '({v} FIX)',
    'inf': '(-INF,{v},INF)',
}
_TH_FORMS4 = ['v', 'lvu', 'vF', 'lvuF']
_TH_NAMES = ['TVCL', 'TVV', 'TVKA']


def _compositions(n):
    if n == 0:
        yield []
        return
    for first in range(1, n + 1):
        for rest in _compositions(n - first):
            yield [first] + rest


def _theta_text(forms, comp, style):
    """forms: form id per theta; comp: thetas per record; style: 'inline' (one line per record)
    or 'lines' (one theta per line, each with a name comment).
    returns (text, spelling) with spelling = {theta index (1-based): (pharmpy name, [tokens])}"""
    recs = []
    spell = {}
    k = 0
    for size in comp:
        items = []
        for _ in range(size):
            v, u = _TH_VALUES[k]
            f = forms[k]
            txt = _TH_FORMS[f].format(v=v, u=u)
            toks = [v] + ([u] if '{u}' in _TH_FORMS[f] else [])
            name = _TH_NAMES[k] if style == 'lines' else f'THETA_{k + 1}'
            spell[k + 1] = (name, toks)
            items.append(txt + (f' ; {name}' if style == 'lines' else ''))
            k += 1
        if style == 'lines':
            recs.append('$THETA ' + '\n       '.join(items))
        else:
            recs.append('$THETA ' + ' '.join(items))
    return '\n'.join(recs), spell


_SIMPLE_OMEGA = {'text': '$OMEGA 0.11', 'n': 1}
_SIMPLE_SIGMA = {'text': '$SIGMA 0.51', 'n': 1}
_SIMPLE_THETA = '$THETA (0,1.50,9.5) ; TVCL\n$THETA 2.0E0'


def _theta_layouts(tier):
    out = []
    seen = set()

    def add(forms, comp, style):
        text, spell = _theta_text(forms, comp, style)
        if text in seen:
            return
        seen.add(text)
        out.append({'family': 'theta', 'cls': '$THETA', 'nt': len(forms), 'ne': 1, 'ns': 1, 'theta': text,
                    'omega': _SIMPLE_OMEGA['text'], 'sigma': _SIMPLE_SIGMA['text'],
                    'spell': {v[0]: v[1] for v in spell.values()}, 'scaled': []})

    allf = list(_TH_FORMS)
    for f in allf:
        for style in ('inline', 'lines'):
            add([f], [1], style)
    forms2 = allf if tier == 'thorough' else _TH_FORMS4
    for f1 in forms2:
        for f2 in forms2:
            for comp, style in (([2], 'inline'), ([2], 'lines'), ([1, 1], 'inline'), ([1, 1], 'lines')):
                add([f1, f2], comp, style)
    if tier == 'thorough':
        triples = list(itertools.product(_TH_FORMS4, repeat=3))
    else:
        triples = [tuple(_TH_FORMS4[(i + j) % 4] for j in range(3)) for i in range(4)]
        triples += [('lv', 'vFin', 'inf'), ('vFin', 'lv', 'v')]
    for forms in triples:
        for comp in _compositions(3):
            for style in ('inline', 'lines'):
                add(list(forms), comp, style)
    # (value)xn repeats
    for text, nt, spell in (
        ('$THETA (0,1.50)x2', 2, {'THETA_1': ['1.50'], 'THETA_2': ['1.50']}),
        ('$THETA (1.50)x2', 2, {'THETA_1': ['1.50'], 'THETA_2': ['1.50']}),
        ('$THETA (0,1.50,9.5)x2 3.25 FIX', 3, {'THETA_1': ['1.50', '9.5'], 'THETA_2': ['1.50', '9.5'], 'THETA_3': ['3.25']}),
        ('$THETA 3.25\n$THETA (1.50)x2', 3, {'THETA_1': ['3.25'], 'THETA_2': ['1.50'], 'THETA_3': ['1.50']}),
    ):
        out.append({'family': 'theta', 'cls': '$THETA (value)xn', 'nt': nt, 'ne': 1, 'ns': 1, 'theta': text,
                    'omega': _SIMPLE_OMEGA['text'], 'sigma': _SIMPLE_SIGMA['text'], 'spell': spell, 'scaled': []})
    return out


def _omega_specs(tier):
    """(text with ${R} for the record name, number of etas, spelling per parameter suffix 'i_j',
    groups of parameter suffixes written in a non-default scale, layout class)"""
    S = []
    cls = ['']

    def add(text, n, spell, scaled=(), pred='mul'):
        S.append((text, n, spell, [list(g) for g in scaled], cls[0], pred))

    d3 = {'1_1': ['0.10'], '2_2': ['0.20'], '3_3': ['0.30']}
    d2 = {'1_1': ['0.10'], '2_2': ['0.20']}
    cls[0] = 'DIAGONAL'
    add('${R} 0.10', 1, {'1_1': ['0.10']})
    add('${R} 0.10 0.20', 2, d2)
    add('${R} 0.10 0.20 0.30', 3, d3)
    add('${R} 0.10 ; V1\n 0.20 ; V2\n 0.30 ; V3', 3, d3)
    add('${R} 0.10\n0.20\n0.30', 3, d3)
    add('${R} 0.10\n${R} 0.20\n${R} 0.30', 3, d3)
    add('${R} 0.10 0.20\n${R} 0.30', 3, d3)
    add('${R} 0.10\n${R} 0.20 0.30', 3, d3)
    add('${R} DIAGONAL(3) 0.10 0.20 0.30', 3, d3)
    add('${R} DIAGONAL(2) 0.10 0.20\n${R} 0.30', 3, d3)
    cls[0] = 'DIAGONAL, first eta as bare EXP(ETA(1))'
    add('${R} 0.10', 1, {'1_1': ['0.10']}, pred='bare')
    add('${R} 0.10\n0.20\n0.30', 3, d3, pred='bare')
    cls[0] = 'DIAGONAL with FIX'
    add('${R} 0.10 FIX 0.20 0.30', 3, d3)
    add('${R} 0.10 0.20 FIX 0.30 FIX', 3, d3)
    add('${R} (0.10 FIX) 0.20 (FIX 0.30)', 3, d3)
    add('${R} 0.10 FIX\n${R} 0.20\n${R} 0.30 FIX', 3, d3)
    add('${R} 0.10 FIX\n0.20 FIX\n0.30 FIX', 3, d3)
    cls[0] = 'DIAGONAL with SD'
    add('${R} 0.10 SD 0.20 0.30', 3, d3, [['1_1']])
    add('${R} (0.10 SD) (0.20 SD FIX) 0.30 VARIANCE', 3, d3, [['1_1'], ['2_2']])
    cls[0] = 'DIAGONAL (value)xn'
    add('${R} (0.10)x2', 2, {'1_1': ['0.10'], '2_2': ['0.10']})
    add('${R} 0.30 (0.10)x2', 3, {'1_1': ['0.30'], '2_2': ['0.10'], '3_3': ['0.10']})
    b2 = {'1_1': ['0.10'], '2_1': ['0.01'], '2_2': ['0.20']}
    b3 = {'1_1': ['0.10'], '2_1': ['0.01'], '2_2': ['0.20'], '3_1': ['0.02'], '3_2': ['0.03'], '3_3': ['0.30']}
    b2d = dict(b2, **{'3_3': ['0.30']})
    db2 = {'1_1': ['0.30'], '2_2': ['0.10'], '3_2': ['0.01'], '3_3': ['0.20']}
    cls[0] = 'BLOCK'
    add('${R} BLOCK(2) 0.10 0.01 0.20', 2, b2)
    add('${R} BLOCK(2)\n0.10\n0.01 0.20', 2, b2)
    add('${R} BLOCK(2) 0.10 0.01 0.20\n${R} 0.30', 3, b2d)
    add('${R} BLOCK(2)\n0.10 ; V1\n0.01 ; C12\n0.20 ; V2\n${R} 0.30', 3, b2d)
    add('${R} 0.30\n${R} BLOCK(2) 0.10 0.01 0.20', 3, db2)
    add('${R} BLOCK(3) 0.10 0.01 0.20 0.02 0.03 0.30', 3, b3)
    add('${R} BLOCK(3)\n0.10\n0.01 0.20\n0.02 0.03 0.30', 3, b3)
    add('${R} BLOCK(1) 0.10\n${R} BLOCK(1) 0.20', 2, d2)
    cls[0] = 'BLOCK with FIX'
    add('${R} BLOCK(2) FIX 0.10 0.01 0.20\n${R} 0.30', 3, b2d)
    add('${R} BLOCK(2) 0.10 0.01 0.20 FIX\n${R} 0.30', 3, b2d)
    add('${R} BLOCK(2) (0.10 FIX) 0.01 0.20\n${R} 0.30', 3, b2d)
    add('${R} BLOCK(2) 0.10 0.01 0.20\n${R} 0.30 FIX', 3, b2d)
    add('${R} BLOCK(3) FIX 0.10 0.01 0.20 0.02 0.03 0.30', 3, b3)
    add('${R} BLOCK(3) 0.10 0.01 0.20 0.02 0.03 0.30 FIX', 3, b3)
    cls[0] = 'BLOCK VALUES'
    add('${R} BLOCK(2) VALUES(0.10,0.01)', 2, {'1_1': ['0.10'], '2_1': ['0.01'], '2_2': ['0.10']})
    cls[0] = 'BLOCK SAME'
    add('${R} BLOCK(1) 0.10\n${R} BLOCK(1) SAME', 2, {'1_1': ['0.10']})
    add('${R} BLOCK(1) 0.10\n${R} BLOCK SAME\n${R} 0.30', 3, {'1_1': ['0.10'], '3_3': ['0.30']})
    add('${R} BLOCK(2) 0.10 0.01 0.20\n${R} BLOCK(2) SAME', 4, b2)
    add('${R} 0.30\n${R} BLOCK(1) FIX 0.10\n${R} BLOCK(1) SAME', 3, {'1_1': ['0.30'], '2_2': ['0.10']})
    g2 = [['1_1', '2_1', '2_2']]
    g3 = [['1_1', '2_1', '2_2', '3_1', '3_2', '3_3']]
    sp2 = {'1_1': ['0.50'], '2_1': ['0.10'], '2_2': ['0.40']}
    sp3 = {'1_1': ['0.50'], '2_1': ['0.10'], '2_2': ['0.40'], '3_1': ['0.20'], '3_2': ['0.15'], '3_3': ['0.60']}
    sp2d = dict(sp2, **{'3_3': ['0.30']})
    for opts in ('SD CORRELATION', 'STANDARD COVARIANCE', 'VARIANCE CORRELATION', 'VARIANCE COVARIANCE',
                 'CHOLESKY', 'SD'):
        cls[0] = 'BLOCK ' + opts
        add('${R} BLOCK(2) %s 0.50 0.10 0.40' % opts, 2, sp2, g2)
        add('${R} BLOCK(2) %s\n0.50\n0.10 0.40\n${R} 0.30' % opts, 3, sp2d, g2)
        if opts in ('SD CORRELATION', 'CHOLESKY'):
            add('${R} BLOCK(3) %s\n0.50\n0.10 0.40\n0.20 0.15 0.60' % opts, 3, sp3, g3)
            add('${R} BLOCK(2) %s FIX 0.50 0.10 0.40\n${R} 0.30' % opts, 3, sp2d, g2)
            add('${R} BLOCK(2) 0.50 0.10 0.40 %s\n${R} 0.30' % opts, 3, sp2d, g2)
    if tier == 'thorough':
        cls[0] = 'BLOCK SD CORRELATION'
        add('${R} BLOCK(2) CORRELATION SD FIX\n0.50\n0.10 0.40', 2, sp2, g2)
        add('${R} 0.30\n${R} BLOCK(2) SD CORRELATION 0.50 0.10 0.40', 3,
            {'1_1': ['0.30'], '2_2': ['0.50'], '3_2': ['0.10'], '3_3': ['0.40']}, [['2_2', '3_2', '3_3']])
        cls[0] = 'BLOCK VARIANCE CORRELATION'
        add('${R} BLOCK(3) VARIANCE CORRELATION\n0.50\n0.10 0.40\n0.20 0.15 0.60', 3, sp3, g3)
        cls[0] = 'BLOCK STANDARD COVARIANCE'
        add('${R} BLOCK(3) STANDARD COVARIANCE\n0.50\n0.10 0.40\n0.20 0.15 0.60', 3, sp3, g3)
    return S


def _omega_layouts(tier):
    out = []
    for text, n, spell, scaled, cls, pred in _omega_specs(tier):
        out.append({'family': 'omega', 'cls': '$OMEGA ' + cls, 'nt': 2, 'ne': n, 'ns': 1, 'pred': pred,
                    'theta': _SIMPLE_THETA, 'omega': text.replace('${R}', '$OMEGA'), 'sigma': _SIMPLE_SIGMA['text'],
                    'spell': {'OMEGA_' + k: v for k, v in spell.items()},
                    'scaled': [['OMEGA_' + s for s in g] for g in scaled]})
    return out


def _sigma_layouts(tier):
    out = []
    for text, n, spell, scaled, cls, pred in _omega_specs(tier):
        if n > 3 or pred != 'mul' or (n > 2 and tier != 'thorough'):
            continue
        out.append({'family': 'sigma', 'cls': '$SIGMA ' + cls, 'nt': 2, 'ne': 1, 'ns': n, 'pred': 'mul',
                    'theta': _SIMPLE_THETA, 'omega': _SIMPLE_OMEGA['text'], 'sigma': text.replace('${R}', '$SIGMA'),
                    'spell': {'SIGMA_' + k: v for k, v in spell.items()},
                    'scaled': [['SIGMA_' + s for s in g] for g in scaled]})
    return out


# --- independent views of a model --------------------------------------------------------------


def _pmap(model):
    return {p.name: (float(p.init), float(p.lower), float(p.upper), bool(p.fix)) for p in model.parameters}


def _dists(model):
    """[(names, level, [[entry symbol name or None for 0]])] per distribution, in order"""
    out = []
    for d in model.random_variables:
        names = list(d.names)
        n = len(names)
        var = d.variance
        rows = []
        for i in range(n):
            row = []
            for j in range(n):
                e = var if n == 1 else var[i, j]
                s = str(e)
                row.append(None if s in ('0', '0.0') else s)
            rows.append(row)
        out.append((names, d.level, rows))
    return out


def _roles(model):
    """role -> parameter name.  Roles are independent of parameter names and of the order of the
    parameter list: ('theta', k) = k-th population parameter not used by a random variable,
    ('omega'|'sigma', i, j) = position in the covariance matrix of all etas / epsilons."""
    dists = _dists(model)
    used = set()
    for names, level, rows in dists:
        for row in rows:
            used.update(x for x in row if x)
    roles = {}
    k = 0
    for p in model.parameters:
        if p.name not in used:
            k += 1
            roles[('theta', k)] = p.name
    eta_names = set(model.random_variables.etas.names)
    pos = {'omega': 0, 'sigma': 0}
    for names, level, rows in dists:
        kind = 'omega' if names[0] in eta_names else 'sigma'
        base = pos[kind]
        for i in range(len(names)):
            for j in range(i + 1):
                if rows[i][j] is not None:
                    roles[(kind, base + i + 1, base + j + 1)] = rows[i][j]
        pos[kind] += len(names)
    return roles


def _rv_view(model):
    """name-independent numeric view of the random variables: per distribution
    (kind, size, level, numeric covariance matrix, sharing pattern of the entries)"""
    pm = _pmap(model)
    eta_names = set(model.random_variables.etas.names)
    out = []
    canon = {}
    for names, level, rows in _dists(model):
        kind = 'eta' if names[0] in eta_names else 'eps'
        mat = [[(pm[x][0] if x in pm else float('nan')) if x else 0.0 for x in row] for row in rows]
        pat = [[(canon.setdefault(x, len(canon)) if x else -1) for x in row] for row in rows]
        out.append((kind, len(names), str(level), mat, pat))
    return out


def _close(a, b, rtol):
    if a == b:
        return True
    if math.isinf(a) or math.isinf(b) or math.isnan(a) or math.isnan(b):
        return False
    return abs(a - b) <= rtol * max(abs(a), abs(b))


def _records_text(code, rec):
    """text of all records $<rec> of the control stream (comments removed)"""
    out = []
    for chunk in re.split(r'(?=\$)', code):
        if chunk.upper().startswith('$' + rec):
            lines = [ln.split(';', 1)[0] for ln in chunk.split('\n')]
            out.append('\n'.join(lines))
    return '\n'.join(out)


def _has_token(text, tok):
    return re.search(r'(?<![\w.])' + re.escape(tok) + r'(?![\w.])', text) is not None


# --- edits ------------------------------------------------------------------------------------


def _theta_names(model):
    used = set()
    for names, level, rows in _dists(model):
        for row in rows:
            used.update(x for x in row if x)
    return [p.name for p in model.parameters if p.name not in used]


def _new_value(p, salt):
    """a valid new initial estimate different from all spelled layout values"""
    lo, up, init = float(p.lower), float(p.upper), float(p.init)
    if math.isfinite(up):
        cand = (init + up) / 2 + 0.0137 * salt
        if not (lo < cand < up):
            cand = (init + up) / 2
        return round(cand, 6)
    return round(init + 0.7137 + 0.01 * salt, 6)


def _edits_for(model, family):
    """the single edits applicable to `model` (json-able descriptors), exhaustively"""
    E = []
    rvs = model.random_variables
    if family == 'theta':
        names = _theta_names(model)
        for i, n in enumerate(names):
            p = model.parameters[n]
            E.append(['init', n, _new_value(p, i + 1)])
            E.append(['lower', n, round(float(p.init) - 1.0137, 6)])
            E.append(['upper', n, round((float(p.upper) if math.isfinite(float(p.upper)) else float(p.init)) + 5.5137, 6)])
            E.append(['fix' if not p.fix else 'unfix', [n]])
        if len(names) > 1:
            E.append(['fix', names])
            E.append(['unfix', names])
        E.append(['add_theta', 'NEWP', 0.7137, 0.0, 2.0137, True])
        E.append(['add_theta', 'NEWQ', 0.7137, None, None, False])
        E.append(['add_theta_front', 'NEWF', 0.7137, 0.0, 2.0137])
        for n in names:
            E.append(['rm_theta', n])
        return E
    kind = 'omega' if family == 'omega' else 'sigma'
    sub = rvs.etas if family == 'omega' else rvs.epsilons
    own = set(sub.names)
    dists = [d for d in _dists(model) if d[0][0] in own]
    seen = {}  # insertion ordered (a set of names would make the 'fix all' / 'unfix all' cases depend on the hash seed)
    for names, level, rows in dists:
        n = len(names)
        for i in range(n):
            for j in range(i + 1):
                x = rows[i][j]
                if x is None or x in seen:
                    continue
                seen[x] = True
                v = float(model.parameters[x].init)
                E.append(['init', x, round(v * 1.5 + 0.0137, 6) if i == j else round(v * 0.5, 6)])
    done = set()
    for names, level, rows in dists:
        ps = []
        for row in rows:
            for x in row:
                if x and x not in ps:
                    ps.append(x)
        if tuple(ps) in done:
            continue
        done.add(tuple(ps))
        fixed = all(model.parameters[x].fix for x in ps)
        E.append(['unfix' if fixed else 'fix', ps])
    allp = [x for x in seen]
    E.append(['fix', allp])
    E.append(['unfix', allp])
    rn = list(sub.names)
    if len(rn) >= 2:
        E.append(['join', rn[-2:]])
        if len(rn) >= 3:
            E.append(['join', rn[:2]])
            E.append(['join', rn])
            E.append(['join', [rn[0], rn[-1]]])
    if any(len(d[0]) > 1 for d in dists):
        E.append(['split', None])
        for names, level, rows in dists:
            if len(names) > 1:
                for n in names:
                    E.append(['split', [n]])
    if family == 'omega':
        for n in rn:
            E.append(['remove_iiv', [n]])
        if len(rn) >= 2:
            E.append(['remove_iiv', rn[1:]])
        E.append(['add_iiv', 'P1', 'exp'])
        E.append(['add_iiv', 'P2', 'add'])
    else:
        for n in rn[1:]:
            E.append(['rm_eps', n])
    return E


def _apply_edit(model, e):
    from pharmpy.basic import Expr
    from pharmpy.model import Assignment
    from pharmpy import modeling as M

    k = e[0]
    if k == 'init':
        return M.set_initial_estimates(model, {e[1]: e[2]})
    if k == 'lower':
        return M.set_lower_bounds(model, {e[1]: e[2]})
    if k == 'upper':
        return M.set_upper_bounds(model, {e[1]: e[2]})
    if k == 'fix':
        return M.fix_parameters(model, list(e[1]))
    if k == 'unfix':
        return M.unfix_parameters(model, list(e[1]))
    if k == 'add_theta':
        m = M.add_population_parameter(model, e[1], e[2], lower=e[3], upper=e[4])
        if e[5]:
            st = Assignment.create(Expr.symbol('Q' + e[1]), Expr.symbol(e[1]))
            m = m.replace(statements=st + m.statements)
        return m
    if k == 'add_theta_front':
        from pharmpy.model import Parameter, Parameters

        new = Parameter.create(e[1], e[2], lower=e[3], upper=e[4])
        st = Assignment.create(Expr.symbol('Q' + e[1]), Expr.symbol(e[1]))
        return model.replace(parameters=Parameters.create([new] + list(model.parameters)),
                             statements=st + model.statements)
    if k in ('rm_theta', 'rm_eps'):
        m = model.replace(statements=model.statements.subs({Expr.symbol(e[1]): Expr.integer(0)}))
        return M.remove_unused_parameters_and_rvs(m)
    if k == 'join':
        return M.create_joint_distribution(model, list(e[1]))
    if k == 'split':
        return M.split_joint_distribution(model, None if e[1] is None else list(e[1]))
    if k == 'remove_iiv':
        return M.remove_iiv(model, list(e[1]))
    if k == 'add_iiv':
        return M.add_iiv(model, [e[1]], e[2])
    raise ValueError(e)


_KIND_LABEL = {
    'init': 'set_initial_estimates', 'lower': 'set_lower_bounds', 'upper': 'set_upper_bounds',
    'fix': 'fix_parameters', 'unfix': 'unfix_parameters', 'add_theta': 'add_population_parameter',
    'add_theta_front': 'inserting a theta in front',
    'rm_theta': 'removing a theta', 'rm_eps': 'removing an epsilon', 'join': 'create_joint_distribution',
    'split': 'split_joint_distribution', 'remove_iiv': 'remove_iiv', 'add_iiv': 'add_iiv',
}


def _edit_label(cls, edits):
    if not edits:
        return f'{cls} layout, no edit'
    return f'{cls} layout, after ' + ' then '.join(_KIND_LABEL[e[0]] for e in edits)


class _RFails:
    def __init__(self):
        self.items = {}
        self.also = {}  # key -> every failing case of the key, in enumeration order

    def add(self, fid, clause, detail, lay, edits):
        key = (fid, clause)
        case = {'layout': {k: lay[k] for k in ('family', 'cls', 'pred', 'nt', 'ne', 'ns', 'theta', 'omega', 'sigma', 'spell', 'scaled', 'named') if k in lay},
                'edits': edits, 'fid': fid, 'clause': clause}
        size = (len(edits), lay['nt'] + lay['ne'] + lay['ns'], len(lay['theta']) + len(lay['omega']) + len(lay['sigma']))
        lst = self.also.setdefault(key, [])
        if len(lst) < 300 and case not in lst:
            lst.append(case)
        if key not in self.items or size < self.items[key][0]:
            self.items[key] = (size, {'fid': fid, 'clause': clause, 'detail': _short(detail, 900), 'case': case,
                                      'replay_fn': 'bounded_record_updates_replay'})


def _check_roundtrip(m0, m2, lay, edits, history=()):
    """the contract: re-reading the code generated for m2 gives the parameters / random variables
    of m2, and untouched values keep their spelling.
    returns the violated clauses as [(fid, clause without label, detail)]"""
    from pharmpy.modeling import read_model_from_string

    family = lay['family']
    fid = FID_UPD_TH if family == 'theta' else FID_UPD_RV
    out = []

    class fails:  # collects (fid, clause, detail); the caller adds the label of the edit sequence
        @staticmethod
        def add(fid_, clause, detail, lay_, edits_):
            out.append((fid_, clause, detail))

    def cl(c):
        return c

    ctx = f"layout {lay['theta']!r} | {lay['omega']!r} | {lay['sigma']!r}, edits {edits}: "
    try:
        code = m2.update_source().code
        m3 = read_model_from_string(code)
    except Exception as e:
        fails.add(fid, cl(f'{R_PARSE} ({type(e).__name__})'), ctx + f'{_exc_str(e)}', lay, edits)
        return out
    shown = ' // '.join(ln for ln in code.split('\n') if ln[:1] in '$ 0123456789(.' and not ln.startswith(
        ('$PROB', '$INPUT', '$DATA', '$PRED', '$EST')))
    ctx += f'code {shown!r}: '
    p2, p3 = _pmap(m2), _pmap(m3)
    n2, n3 = list(m2.parameters.names), list(m3.parameters.names)
    if sorted(n2) != sorted(n3):
        fails.add(fid, cl(R_NAMES), ctx + f'in memory {n2}, re-read {n3}', lay, edits)
    elif n2 != n3:
        fails.add(fid, cl(R_ORDER), ctx + f'in memory {n2}, re-read {n3}', lay, edits)
    try:
        r2, r3 = _roles(m2), _roles(m3)
    except Exception as e:
        fails.add(fid, cl(R_RVSTRUCT), ctx + f'roles not computable: {_exc_str(e)}', lay, edits)
        return out
    if sorted(r2) != sorted(r3):
        fails.add(fid, cl(R_RVSTRUCT), ctx + f'parameter positions differ: in memory {sorted(r2)}, re-read {sorted(r3)}',
                  lay, edits)
    else:
        bad6, bad12, badb, badf = [], [], [], []
        for role in sorted(r2):
            a, b = p2[r2[role]], p3[r3[role]]
            if not _close(a[0], b[0], 1e-6):
                bad6.append((role, r2[role], a[0], b[0]))
            elif not _close(a[0], b[0], 1e-12):
                bad12.append((role, r2[role], a[0], b[0]))
            if a[1] != b[1] or a[2] != b[2]:
                badb.append((role, r2[role], a[1:3], b[1:3]))
            if a[3] != b[3]:
                badf.append((role, r2[role], a[3], b[3]))
        if bad6:
            fails.add(fid, cl(R_INIT6), ctx + f'(position, name, in memory, re-read) {bad6}', lay, edits)
        if bad12:
            fails.add(fid, cl(R_INIT12), ctx + f'(position, name, in memory, re-read) {bad12}', lay, edits)
        if badb:
            fails.add(fid, cl(R_BOUNDS), ctx + f'(position, name, in memory, re-read) {badb}', lay, edits)
        if badf:
            fails.add(fid, cl(R_FIX), ctx + f'(position, name, in memory, re-read) {badf}', lay, edits)
    rn2, rn3 = list(m2.random_variables.names), list(m3.random_variables.names)
    if rn2 != rn3:
        fails.add(fid, cl(R_RVNAMES), ctx + f'in memory {rn2}, re-read {rn3}', lay, edits)
    v2, v3 = _rv_view(m2), _rv_view(m3)
    same = len(v2) == len(v3)
    if same:
        # compare per kind in order (etas and epsilons may be interleaved differently in the list)
        for kind in ('eta', 'eps'):
            a = [x for x in v2 if x[0] == kind]
            b = [x for x in v3 if x[0] == kind]
            if len(a) != len(b):
                same = False
                break
            for x, y in zip(a, b):
                if x[1] != y[1] or x[2] != y[2]:
                    same = False
                elif any(not _close(p, q, 1e-6) for r1, r2_ in zip(x[3], y[3]) for p, q in zip(r1, r2_)):
                    same = False
            # which matrix entries are the same parameter (within and across distributions: SAME)
            if _canon([x[4] for x in a]) != _canon([x[4] for x in b]):
                same = False
    if not same:
        fails.add(fid, cl(R_RVSTRUCT), ctx + f'in memory {_rv_brief(v2)}, re-read {_rv_brief(v3)}', lay, edits)
    # spelling of untouched values: parameters whose value, bounds and fixedness never changed in
    # the edit sequence and whose distribution (for omegas / sigmas) was never restructured
    p0 = _pmap(m0)
    d0 = {tuple(n): rows for n, lv, rows in _dists(m0)}
    steps = list(history) + [m2]
    same_dist = None
    unchanged = set(p0)
    for mi in steps:
        pi = _pmap(mi)
        di = {tuple(n): rows for n, lv, rows in _dists(mi)}
        keep = set()
        for names, rows in d0.items():
            if di.get(names) == rows:
                for row in rows:
                    keep.update(x for x in row if x)
        same_dist = keep if same_dist is None else (same_dist & keep)
        unchanged = {n for n in unchanged if n in pi and p0[n] == pi[n]}
    scaled_members = {n for g in lay['scaled'] for n in g}
    lost, lost_sc = [], []
    for name, toks in lay['spell'].items():
        if name not in unchanged:
            continue
        if name.startswith(('OMEGA', 'SIGMA')) and name not in same_dist:
            continue
        if name in scaled_members:
            grp = next(g for g in lay['scaled'] if name in g)
            if not all(x in unchanged for x in grp):
                continue
        rec = 'THETA' if family == 'theta' else ('OMEGA' if name.startswith('OMEGA') else 'SIGMA')
        text = _records_text(code, rec)
        for t in toks:
            if not _has_token(text, t):
                (lost_sc if name in scaled_members else lost).append((name, t))
    if lost:
        fails.add(fid, cl(R_SPELL), ctx + f'unchanged (parameter, original spelling) no longer in the record text: {lost}',
                  lay, edits)
    if lost_sc:
        fails.add(fid, cl(R_SPELL_SC), ctx + f'unchanged (parameter, original spelling) no longer in the record text: '
                                             f'{lost_sc}', lay, edits)
    return out


def _canon(pats):
    """sharing pattern of the entries of a list of matrices, relabelled by first occurrence"""
    m = {}
    return [[[(m.setdefault(x, len(m)) if x >= 0 else -1) for x in row] for row in pat] for pat in pats]


def _rv_brief(v):
    return [(k, n, lv, [[round(x, 9) for x in row] for row in mat]) for k, n, lv, mat, pat in v]


def _full_clause(lay, edits, c):
    """clause key: naming / ordering clauses and all clauses for pairs of edits are keyed by record
    type only, the value-level clauses of single edits by layout class (so that one class cannot
    mask a violation in another)"""
    if c in (R_NAMES, R_ORDER, R_RVNAMES) or len(edits) > 1:
        return f"{_edit_label({'theta': '$THETA', 'omega': '$OMEGA', 'sigma': '$SIGMA'}[lay['family']], edits)}: {c}"
    return f"{_edit_label(lay['cls'], edits)}: {c}"


def _eval_sequence(m0, model, lay, seq, e, history=()):
    """apply edit e (last of seq) to `model` and evaluate the contract.
    returns (new model or None, status 'rejected'|'error'|'ok', [(fid, clause, detail)])"""
    where = f"layout {lay['theta']!r} | {lay['omega']!r} | {lay['sigma']!r}, edits {seq}: "
    try:
        m2 = _apply_edit(model, e)
    except ValueError:
        return None, 'rejected', []  # rejected input (documented)
    except Exception as ex:
        return None, 'error', [(_FID_EDIT[e[0]], f'{R_NOERR} ({type(ex).__name__})',
                                where + _exc_str(ex) + ' :: ' + traceback.format_exc()[-250:])]
    return m2, 'ok', _check_roundtrip(m0, m2, lay, seq, history)


def _run_layout(lay, depth):
    """all edit sequences of length <= depth on one layout; returns (cases, nontrivial, fails).
    A violation by a PAIR of edits is reported only when the same clause is not already violated
    by its first edit alone or by its second edit alone on the same layout (those are reported
    as single-edit violations)."""
    from pharmpy.model import ModelSyntaxError
    from pharmpy.modeling import read_model_from_string

    fails = _RFails()
    code = _layout_code(lay)
    family = lay['family']
    fid = FID_UPD_TH if family == 'theta' else FID_UPD_RV
    cases = 1
    nontrivial = 0
    try:
        m0 = read_model_from_string(code)
    except ModelSyntaxError:
        return cases, nontrivial, fails  # documented: the layout is not legal for pharmpy
    except Exception as e:
        fails.add(FID_PARSE, _full_clause(lay, [], f'{R_READ} ({type(e).__name__})'), f'layout {code!r}: {_exc_str(e)}',
                  lay, [])
        return cases, nontrivial, fails
    nontrivial += 1
    try:
        regen = m0.update_source().code
        if regen != code:
            fails.add(fid, _full_clause(lay, [], R_IDENT), f'layout {code!r} regenerated as {regen!r}', lay, [])
    except Exception as e:
        fails.add(fid, _full_clause(lay, [], f'{R_PARSE} ({type(e).__name__})'), f'layout {code!r}: {_exc_str(e)}', lay, [])
    for f_, c_, d_ in _check_roundtrip(m0, m0, lay, []):
        fails.add(f_, _full_clause(lay, [], c_), d_, lay, [])
    try:
        singles = _edits_for(m0, family)
    except Exception as e:
        fails.add(fid, _full_clause(lay, [], R_RVSTRUCT), f'layout {code!r}: model not inspectable: {_exc_str(e)}', lay, [])
        return cases, nontrivial, fails
    single_failed = {}
    firsts = []
    for e in singles:
        cases += 1
        m2, status, viol = _eval_sequence(m0, m0, lay, [e], e)
        single_failed[repr(e)] = {c for f_, c, d_ in viol}
        for f_, c_, d_ in viol:
            fails.add(f_, _full_clause(lay, [e], c_), d_, lay, [e])
        if status != 'rejected':
            nontrivial += 1
        if status == 'ok':
            firsts.append((e, m2))
    if depth > 1:
        for e1, m1 in firsts:
            try:
                seconds = _edits_for(m1, family)
            except Exception as ex:
                fails.add(fid, _full_clause(lay, [e1], R_RVSTRUCT),
                          f'layout {code!r} edits {[e1]}: model not inspectable: {_exc_str(ex)}', lay, [e1])
                continue
            for e2 in seconds:
                cases += 1
                seq = [e1, e2]
                m2, status, viol = _eval_sequence(m0, m1, lay, seq, e2, [m1])
                if status != 'rejected':
                    nontrivial += 1
                known = single_failed.get(repr(e1), set()) | single_failed.get(repr(e2), set())
                for f_, c_, d_ in viol:
                    if c_ in known:
                        continue
                    fails.add(f_, _full_clause(lay, seq, c_), d_, lay, seq)
    return cases, nontrivial, fails


# --- DIAGONAL records with name comments on some of the values ----------------------------------
#
# C04: "whatever the layout ... (name comments), after ... removing ... or joining ... random effects,
# re-reading the generated code yields exactly the parameters ... of the in-memory model, with the same
# names".  A `; NAME` comment after a value names that value (and only that value); a value without a
# name comment has a positional default name.  The layouts below enumerate EVERY pattern of named and
# unnamed values of a DIAGONAL record (every distribution of the values over lines; a comment ends its
# line, so the last value of a line may carry one), the edits take every value out of the record
# (removal of every proper subset, joining every subset into a BLOCK) or change it in place.
# Positional default names are not compared (that they are renumbered after a removal is the recorded
# finding "... re-read parameters have the same names" of the plain layouts); the clauses N_* compare
# the names the control stream states explicitly.

N_READ = ('a value followed by a `; NAME` comment is read as parameter NAME, a value without a name comment under a '
          'default name')
N_KEEP = ('a value named by a `; NAME` comment keeps that name: every comment-named parameter of the in-memory model '
          'is re-read under its name with the same value and fixedness')
N_ONLY = ('a name comment names only its own value: no re-read parameter carries the comment name of a value that is '
          'no longer in the model')
_NAMED_CLS = 'DIAGONAL with name comments'
_NAMED_VALUES = ['0.10', '0.20', '0.30']


def _named_specs(n):
    """(text with ${R}, [comment name or None per value], header variant) for n values"""
    out = []
    for comp in _compositions(n):
        ends = []
        k = 0
        for size in comp:
            k += size
            ends.append(k - 1)
        for flags in itertools.product((False, True), repeat=len(ends)):
            names = [None] * n
            for e, f in zip(ends, flags):
                if f:
                    names[e] = f'NV{e + 1}'
            lines = []
            k = 0
            for size in comp:
                ln = ' '.join(_NAMED_VALUES[k:k + size])
                if names[k + size - 1]:
                    ln += ' ; ' + names[k + size - 1]
                lines.append(ln)
                k += size
            out.append(('${R} ' + '\n '.join(lines), names))
            if all(size == 1 for size in comp):
                out.append((f'${{R}} DIAGONAL({n})\n ' + '\n '.join(lines), names))
    return out


def _named_layouts(tier):
    out = []
    # (three epsilons: joining them runs into the naming of epsilon covariances, which the plain $SIGMA layouts cover)
    for family, sizes in (('omega', (3,) if tier == 'quick' else (2, 3)), ('sigma', (2,))):
        R = family.upper()
        for n in sizes:
            for text, names in _named_specs(n):
                pnames = [c or f'{R}_{i + 1}_{i + 1}' for i, c in enumerate(names)]
                lay = {'family': family, 'cls': f'${R} {_NAMED_CLS}', 'nt': 2, 'ne': n if family == 'omega' else 1,
                       'ns': n if family == 'sigma' else 1, 'pred': 'mul', 'theta': _SIMPLE_THETA,
                       'omega': text.replace('${R}', '$OMEGA') if family == 'omega' else _SIMPLE_OMEGA['text'],
                       'sigma': text.replace('${R}', '$SIGMA') if family == 'sigma' else _SIMPLE_SIGMA['text'],
                       'spell': {pn: [v] for pn, v in zip(pnames, _NAMED_VALUES)}, 'scaled': [], 'named': names}
                out.append(lay)
    return out


def _named_edits(lay):
    """take every value out of the record (every proper subset removed, every subset of >= 2 joined) and change
    every value in place; independent of the model that pharmpy reads"""
    family = lay['family']
    n = len(lay['named'])
    rv = [f'ETA_{i + 1}' if family == 'omega' else f'EPS_{i + 1}' for i in range(n)]
    pn = list(lay['spell'])
    E = []
    for size in range(1, n):
        for sub in itertools.combinations(range(n), size):
            if family == 'omega':
                E.append(['remove_iiv', [rv[i] for i in sub]])
            elif size == 1:
                E.append(['rm_eps', rv[sub[0]]])
    for size in range(2, n + 1):
        for sub in itertools.combinations(range(n), size):
            E.append(['join', [rv[i] for i in sub]])
    for i in range(n):
        E.append(['init', pn[i], round(float(_NAMED_VALUES[i]) * 1.5 + 0.0137, 6)])
        E.append(['fix', [pn[i]]])
    return E


def _check_named(m0, m2, lay, edits):
    """violated clauses [(fid, clause, detail)] of the name-comment contract for the in-memory model m2"""
    from pharmpy.modeling import read_model_from_string

    out = []
    try:
        code = m2.update_source().code
        m3 = read_model_from_string(code)
    except Exception:
        return out  # reported by _check_roundtrip (R_PARSE)
    rec = 'OMEGA' if lay['family'] == 'omega' else 'SIGMA'
    shown = ' // '.join(ln for ln in code.split('\n') if ln[:1] in '$ 0123456789(.;' and not ln.startswith(
        ('$PROB', '$INPUT', '$DATA', '$PRED', '$EST', '$THETA')))
    ctx = f"layout {lay[lay['family']]!r}, edits {edits}: code {shown!r}: "
    comment_names = [c for c in lay['named'] if c]
    p2, p3 = _pmap(m2), _pmap(m3)
    bad = []
    for c in comment_names:
        if c in p2:
            if c not in p3:
                bad.append((c, 'not re-read'))
            elif not _close(p2[c][0], p3[c][0], 1e-6) or p2[c][3] != p3[c][3]:
                bad.append((c, 'in memory (init, fix)', (p2[c][0], p2[c][3]), 're-read', (p3[c][0], p3[c][3])))
    if bad:
        out.append((FID_UPD_RV, N_KEEP, ctx + f'{bad}; in memory {list(p2)}, re-read {list(p3)}'))
    stolen = [c for c in comment_names if c in p3 and c not in p2]
    if stolen:
        out.append((FID_UPD_RV, N_ONLY, ctx + f'{stolen} of ${rec}: in memory {list(p2)}, re-read {list(p3)}'))
    # spelling of the values the edit does not touch (reference: the edit descriptor; a value that stays in the
    # DIAGONAL record and is not the edited one is untouched)
    rv = 'ETA_' if lay['family'] == 'omega' else 'EPS_'
    touched = set()
    for e in edits:
        if e[0] in ('remove_iiv', 'join'):
            touched.update(int(x[len(rv):]) - 1 for x in e[1])
        elif e[0] == 'rm_eps':
            touched.add(int(e[1][len(rv):]) - 1)
        elif e[0] == 'init':
            touched.add(list(lay['spell']).index(e[1]))
        elif e[0] == 'fix':
            touched.update(list(lay['spell']).index(x) for x in e[1])
    text = _records_text(code, rec)
    lost = [(pn, toks[0]) for i, (pn, toks) in enumerate(lay['spell'].items()) if i not in touched and not _has_token(text, toks[0])]
    if lost:
        out.append((FID_UPD_RV, R_SPELL, ctx + f'untouched (parameter, original spelling) no longer in the record text: {lost}'))
    return out


def _named_eval(lay, edits):
    """the contract for one edit sequence ([] or one edit) on a layout with name comments.
    returns (status, [(fid, full clause, detail)])"""
    from pharmpy.model import ModelSyntaxError
    from pharmpy.modeling import read_model_from_string

    code = _layout_code(lay)
    fid = FID_UPD_RV
    found = []
    plain = dict(lay, spell={})  # the spelling clause of _check_roundtrip presumes default names; see _check_named
    try:
        m0 = read_model_from_string(code)
    except ModelSyntaxError:
        return 'rejected', found
    except Exception as e:
        if not edits:
            found.append((FID_PARSE, _full_clause(lay, [], f'{R_READ} ({type(e).__name__})'), f'layout {code!r}: {_exc_str(e)}'))
        return 'error', found
    if not edits:
        roles = _roles(m0)
        kind = lay['family']
        got = [roles.get((kind, i + 1, i + 1)) for i in range(len(lay['named']))]
        if got != list(lay['spell']):
            found.append((FID_PARSE, _full_clause(lay, [], N_READ),
                          f"layout {lay[kind]!r}: variances read as {got}, written as {list(lay['spell'])}"))
        try:
            regen = m0.update_source().code
            if regen != code:
                found.append((fid, _full_clause(lay, [], R_IDENT), f'layout {code!r} regenerated as {regen!r}'))
        except Exception as e:
            found.append((fid, _full_clause(lay, [], f'{R_PARSE} ({type(e).__name__})'), f'layout {code!r}: {_exc_str(e)}'))
        viol = _check_roundtrip(m0, m0, plain, []) + _check_named(m0, m0, lay, [])
        status = 'ok'
    else:
        e = edits[-1]
        m2, status, viol = _eval_sequence(m0, m0, plain, edits, e)
        if status == 'ok':
            viol = viol + _check_named(m0, m2, lay, edits)
    for f_, c_, d_ in viol:
        if c_ in (R_NAMES, R_ORDER):
            continue  # whole name lists: positional default names and the list order are not part of this contract
        found.append((f_, _full_clause(lay, edits, c_), d_))
    return status, found


def _run_named_layout(lay):
    fails = _RFails()
    cases = 1
    status, found = _named_eval(lay, [])
    for f_, c_, d_ in found:
        fails.add(f_, c_, d_, lay, [])
    if status != 'ok':
        return cases, 0, fails
    nontrivial = 1
    for e in _named_edits(lay):
        cases += 1
        status, found = _named_eval(lay, [e])
        for f_, c_, d_ in found:
            fails.add(f_, c_, d_, lay, [e])
        if status != 'rejected':
            nontrivial += 1
    return cases, nontrivial, fails


def _layout_worker(args):
    lay, depth = args
    with contextlib.redirect_stdout(io.StringIO()), contextlib.redirect_stderr(io.StringIO()):
        try:
            cases, nontrivial, fails = _run_named_layout(lay) if lay.get('named') is not None else _run_layout(lay, depth)
            for key, (size, f) in fails.items.items():
                f['also'] = fails.also[key]  # the failing cases of this layout; merged in bounded_record_updates
            return cases, nontrivial, list(fails.items.values())
        except BaseException as e:
            case = {'layout': lay, 'edits': [], 'fid': 'contracts/b_db.py:_run_layout', 'clause': 'checker runs to completion'}
            return 1, 0, [((0, 0, 0), {'fid': case['fid'], 'clause': case['clause'],
                                       'detail': _exc_str(e) + ' :: ' + traceback.format_exc()[-600:], 'case': case,
                                       'replay_fn': 'bounded_record_updates_replay'})]


def bounded_record_updates(tier):
    import multiprocessing

    import pharmpy.modeling  # noqa: F401  (import once before forking)

    th, om, sg = _theta_layouts(tier), _omega_layouts(tier), _sigma_layouts(tier)
    jobs = [(lay, 1) for lay in th + om + sg]
    npairs = 0
    if tier == 'thorough':
        pair_layouts = [lay for lay in th if lay['nt'] <= 2] + om + sg
        # pairs of edits: every edit applicable after every first edit
        jobs = [(lay, 2) for lay in pair_layouts] + [(lay, 1) for lay in th if lay['nt'] > 2]
        npairs = len(pair_layouts)
    named = _named_layouts(tier)
    jobs += [(lay, 1) for lay in named]  # single edits only (after the existing layouts of the same size)
    jobs.sort(key=lambda j: -(j[1] * 100 + j[0]['nt'] + j[0]['ne'] + j[0]['ns']))
    with multiprocessing.get_context('fork').Pool(NPROC) as pool:
        results = pool.map(_layout_worker, jobs, chunksize=1)
    cases = nontrivial = 0
    best = {}
    also = {}
    for c, n, fl in results:
        cases += c
        nontrivial += n
        for size, f in fl:
            key = (f['fid'], f['clause'])
            # every failing case of the clause, in enumeration order (tools/BOUNDED_GUIDE.md, `also`)
            lst = also.setdefault(key, [])
            mine = f.pop('also', [f['case']])
            if len(lst) < 300:
                lst.extend(mine)
            if key not in best or size < best[key][0]:
                best[key] = (size, f)
    for key, (size, f) in best.items():
        f['also'] = _also_capped(also[key], f['case'])
    fails = [f for size, f in sorted(best.values(), key=lambda x: (x[1]['fid'], x[1]['clause']))]
    return {
        'cases': cases,
        'nontrivial': nontrivial,
        'bound': (
            f'{len(th)} $THETA layouts (<= 3 thetas over 1-3 records, forms v, (l,v), (l,v,u), v FIX, (l,v,u FIX), '
            f'(l,v,u) FIX, (v FIX), (-INF,v,INF), (v)xn, with/without name comments), {len(om)} $OMEGA and {len(sg)} '
            f'$SIGMA layouts (DIAGONAL one/several lines/records, (v)xn, BLOCK(1..3), VALUES, SAME, FIX at record and '
            f'value level, SD/VARIANCE x CORRELATION/COVARIANCE, CHOLESKY; <= 4 etas) x EVERY applicable single edit '
            f'(init / lower / upper / fix / unfix of each parameter or distribution and of all, add theta used/unused/in front, '
            f'remove each theta / epsilon, join trailing / leading / outer / all, split all / each, remove_iiv of each eta '
            f'and of all but the first, add_iiv exp/add)'
            + (f' and EVERY ordered pair of such edits on {npairs} layouts' if npairs else '')
            + f'; + {len(named)} DIAGONAL $OMEGA / $SIGMA layouts of {"3 / 2" if tier == "quick" else "2-3 / 2"} values with EVERY '
            f'pattern of values with and without a `; NAME` comment (every distribution of the values over lines, with and '
            f'without DIAGONAL(n)) x removal of every proper subset of the etas (of each epsilon), joining of every subset, '
            f'init and fix of every value: comment names and values after re-reading'
        ),
        'samples': [_short((j[0]['theta'], j[0]['omega'], j[0]['sigma']), 200) for j in (jobs[0], jobs[len(jobs) // 2], jobs[-1])],
        'fails': fails,
    }


def bounded_record_updates_replay(rp):
    from pharmpy.model import ModelSyntaxError
    from pharmpy.modeling import read_model_from_string

    case = rp['case']
    lay = case['layout']
    edits = case['edits']
    found = []
    code = _layout_code(lay)
    family = lay['family']
    fid = FID_UPD_TH if family == 'theta' else FID_UPD_RV
    if lay.get('named') is not None:
        with contextlib.redirect_stdout(io.StringIO()), contextlib.redirect_stderr(io.StringIO()):
            status, found = _named_eval(lay, edits)
        for f_, c_, d_ in found:
            if f_ == case.get('fid') and c_ == case.get('clause'):
                return (False, _short(d_, 900))
        return (True, 'ok')
    with contextlib.redirect_stdout(io.StringIO()), contextlib.redirect_stderr(io.StringIO()):
        try:
            m0 = read_model_from_string(code)
        except ModelSyntaxError:
            return (True, 'ok')
        except Exception as e:
            m0 = None
            found.append((FID_PARSE, _full_clause(lay, [], f'{R_READ} ({type(e).__name__})'), _exc_str(e)))
        if m0 is not None and not edits:
            try:
                regen = m0.update_source().code
                if regen != code:
                    found.append((fid, _full_clause(lay, [], R_IDENT), f'regenerated as {regen!r}'))
            except Exception as e:
                found.append((fid, _full_clause(lay, [], f'{R_PARSE} ({type(e).__name__})'), _exc_str(e)))
            found += [(f_, _full_clause(lay, [], c_), d_) for f_, c_, d_ in _check_roundtrip(m0, m0, lay, [])]
        elif m0 is not None:
            m = m0
            hist = []
            for i, e in enumerate(edits):
                seq = edits[: i + 1]
                prev = m
                m, status, viol = _eval_sequence(m0, m, lay, seq, e, list(hist))
                hist.append(m)
                del prev
                if status != 'ok' or i == len(edits) - 1:
                    found += [(f_, _full_clause(lay, seq, c_), d_) for f_, c_, d_ in viol]
                if status != 'ok':
                    break
    for f_, c_, d_ in found:
        if f_ == case.get('fid') and c_ == case.get('clause'):
            return (False, _short(d_, 900))
    return (True, 'ok')
