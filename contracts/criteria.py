"""Contracts for modeling/lrt.py and calculate_aic/calculate_bic in modeling/results.py (serves C19)."""
from pyvc.api import *

Params = Opaque('Params', len=Int)
Params.kw['attrs']['nonfixed'] = Params
Model = Opaque('Model', parameters=Params, is_entry=Bool)
Model.kw['attrs']['model'] = Model

L = ModuleSpec('src/pharmpy/modeling/lrt.py', prop='C19')
R = ModuleSpec('src/pharmpy/modeling/results.py', prop='C19')
MODULES_HERE = [L, R]

TRUSTED = [
    'scipy.stats.chi2.isf / chi2.sf and math.log are uninterpreted functions of their arguments',
    'len(model.parameters.nonfixed), len(get_observations(model)), len(get_ids(model)) and the two sets '
    'returned by _categorize_parameters are abstract non-negative counts (their computation is '
    'pandas/sympy code: bounded check in contracts/b_rank.py)',
    FLOAT := 'Python floats are modelled as mathematical reals',
]


def _symbolic():
    import z3

    from pyvc import sym
    from pyvc.symexec import Val, PyTuple
    from pyvc.sym import TBool, TInt, TReal, TOpaque

    model = Model.resolve()
    isf = z3.Function('chi2_isf', z3.RealSort(), z3.IntSort(), z3.RealSort())
    sf = z3.Function('chi2_sf', z3.RealSort(), z3.IntSort(), z3.RealSort())
    log = z3.Function('log', z3.IntSort(), z3.RealSort())
    nobs = z3.Function('n_observations', model.sort(), z3.IntSort())
    nids = z3.Function('n_individuals', model.sort(), z3.IntSort())
    n_iiv = z3.Function('n_estimated_iiv_omegas', model.sort(), z3.IntSort())
    n_fix = z3.Function('n_theta_fixed_effects', model.sort(), z3.IntSort())
    n_rand = z3.Function('n_theta_random_effects', model.sort(), z3.IntSort())
    Cnt = TOpaque('Counted', {'len': TInt})

    def counted(st, term):
        c = Cnt.fresh('cnt')
        st.facts.add(Cnt.attr_fn('len')(c) == term)
        st.facts.add(term >= 0)
        return Val(Cnt, c)

    for ms in (L, R):
        @ms.intrinsic('isinstance')
        def _isinstance(ex, st, args, kwargs, node):
            # isinstance(x, ModelEntry): abstract flag of the argument
            v = args[0]
            return Val(TBool, v.ty.attr_fn('is_entry')(v.t))

    def _kw(args, kwargs, names):
        vals = list(args)
        for n in names[len(vals):]:
            vals.append(kwargs[n])
        return vals

    @L.intrinsic('stats.chi2.isf')
    def _isf(ex, st, args, kwargs, node):
        q, df = kwargs['q'], kwargs['df']
        return Val(TReal, isf(ex.to_term(q, TReal, st), ex.to_term(df, TInt, st)))

    @L.intrinsic('stats.chi2.sf')
    def _sf(ex, st, args, kwargs, node):
        x, df = kwargs['x'], kwargs['df']
        return Val(TReal, sf(ex.to_term(x, TReal, st), ex.to_term(df, TInt, st)))

    for name, fn in (('chi2_isf', isf), ('chi2_sf', sf)):
        def mk(fn):
            def h(ex, st, args, kwargs, node):
                return Val(TReal, fn(ex.to_term(args[0], TReal, st), ex.to_term(args[1], TInt, st)))
            return h
        L.intrinsics[name] = mk(fn)

    @R.intrinsic('math.log')
    def _log(ex, st, args, kwargs, node):
        return Val(TReal, log(ex.to_term(args[0], TInt, st)))

    R.intrinsics['log'] = _log

    @R.intrinsic('get_observations')
    def _obs(ex, st, args, kwargs, node):
        return counted(st, nobs(args[0].t))

    @R.intrinsic('get_ids')
    def _ids(ex, st, args, kwargs, node):
        return counted(st, nids(args[0].t))

    @R.intrinsic('_categorize_parameters')
    def _cat(ex, st, args, kwargs, node):
        return PyTuple([counted(st, n_fix(args[0].t)), counted(st, n_rand(args[0].t))])

    @R.intrinsic('listcomp')
    def _lc(ex, st, args, kwargs, node):
        import ast
        from pyvc.symexec import OutOfSubset
        src = ast.unparse(args[0])
        if src != '[name for name in model.random_variables.iiv.parameter_names if name in parameters]':
            raise OutOfSubset('unexpected comprehension ' + src)
        return counted(st, n_iiv(st.env['model'].t))

    for nm, fn in (('n_observations', nobs), ('n_individuals', nids), ('n_estimated_iiv_omegas', n_iiv),
                   ('n_theta_fixed_effects', n_fix), ('n_theta_random_effects', n_rand)):
        def mk2(fn):
            def h(ex, st, args, kwargs, node):
                return Val(TInt, fn(args[0].t))
            return h
        R.intrinsics[nm] = mk2(fn)


try:
    import z3  # noqa: F401
    _symbolic()
except ImportError:
    pass

NPAR = '(len((child.model if child.is_entry else child).parameters) - len((parent.model if parent.is_entry else parent).parameters))'

L.contract('degrees_of_freedom', params={'parent': Model, 'child': Model}, returns=Int,
           ensures=['result == ' + NPAR])
L.contract('cutoff', params={'parent': Model, 'child': Model, 'alpha': Real}, returns=Real,
           ensures=[
               f'implies({NPAR} == 0, result == 0)',
               f'implies({NPAR} > 0, result == chi2_isf(alpha, {NPAR}))',
               f'implies({NPAR} < 0, result == -chi2_isf(alpha, -{NPAR}))',
           ])
L.contract('p_value', params={'reduced': Model, 'extended': Model, 'reduced_ofv': Real, 'extended_ofv': Real},
           returns=Real,
           ensures=['result == chi2_sf(reduced_ofv - extended_ofv, '
                    + NPAR.replace('child', 'extended').replace('parent', 'reduced') + ')'])
L.contract('test', params={'parent': Model, 'child': Model, 'parent_ofv': Real, 'child_ofv': Real, 'alpha': Real},
           returns=Bool,
           ensures=[
               f'implies({NPAR} == 0, result == (parent_ofv - child_ofv >= 0))',
               f'implies({NPAR} > 0, result == (parent_ofv - child_ofv >= chi2_isf(alpha, {NPAR})))',
               f'implies({NPAR} < 0, result == (parent_ofv - child_ofv >= -chi2_isf(alpha, -{NPAR})))',
           ])
L.contract('best_of_two', params={'parent': Model, 'child': Model, 'parent_ofv': Real, 'child_ofv': Real, 'alpha': Real},
           returns=Model,
           ensures=[
               f'implies({NPAR} > 0 and parent_ofv - child_ofv >= chi2_isf(alpha, {NPAR}), result == child)',
               f'implies({NPAR} > 0 and parent_ofv - child_ofv < chi2_isf(alpha, {NPAR}), result == parent)',
               f'implies({NPAR} == 0, result == (child if parent_ofv - child_ofv >= 0 else parent))',
           ])

R.contract('calculate_aic', params={'model': Model, 'likelihood': Real}, returns=Real,
           ensures=['result == likelihood + 2 * len(model.parameters.nonfixed)'])
R.contract('calculate_bic', params={'model': Model, 'likelihood': Real, 'type': Str}, returns=Real,
           raises={'ValueError': "type != 'fixed' and type != 'random' and type != 'iiv' and type != 'mixed'"},
           ensures=[
               "implies(type == 'fixed', result == likelihood + len(model.parameters.nonfixed) * log(n_observations(model)))",
               "implies(type == 'random', result == likelihood + len(model.parameters.nonfixed) * log(n_individuals(model)))",
               "implies(type == 'iiv', result == likelihood + n_estimated_iiv_omegas(model) * log(n_individuals(model)))",
               "implies(type == 'mixed', result == likelihood + n_theta_random_effects(model) * log(n_individuals(model))"
               "        + n_theta_fixed_effects(model) * log(n_observations(model)))",
           ])


# ------------------------------------------------------------------------------------------------
# _categorize_parameters (mixed-effects BIC): every estimated parameter is counted at most once -
# the "fixed effects" and "random effects" sets are disjoint subsets of the estimated parameters and
# every estimated omega is a random-effects parameter.  Expressions, their free symbols and the
# model's parameter/eta/epsilon sets are abstract (sympy code).
# ------------------------------------------------------------------------------------------------
SymT = Opaque('Sym')
TRUSTED.append(
    '_categorize_parameters: replace_non_random_rvs, get_individual_parameters, get_omegas, full_expression, '
    'free_symbols and the parameter / eta / epsilon symbol sets of the model are uninterpreted functions (sympy '
    'code); Python sets are characteristic functions with | & - as set union, intersection, difference')


def _symbolic_cat():
    import z3
    from pyvc import sym
    from pyvc.symexec import Val, MSet, PyTuple, BUILTINS
    from pyvc.sym import TBool, TSeq, TOpaque

    model = Model.resolve()
    S = SymT.resolve()
    SetS = z3.ArraySort(S.sort(), z3.BoolSort())
    SeqS = TSeq(S)
    Exp = TOpaque('FullExpr', {})
    Dists = TOpaque('SelectedDists', {})
    clean = z3.Function('replace_non_random_rvs', model.sort(), model.sort())
    indpars = z3.Function('individual_parameters', model.sort(), SeqS.sort())
    dvs = z3.Function('dependent_variable_symbols', model.sort(), SeqS.sort())
    sets = {n: z3.Function(n, model.sort(), SetS) for n in
            ('estimated_parameters', 'omega_symbols', 'eta_symbols', 'epsilon_symbols')}
    full_before = z3.Function('full_expression_before_odes', model.sort(), S.sort(), Exp.sort())
    full_after = z3.Function('full_expression_after_odes', model.sort(), S.sort(), Exp.sort())
    free = z3.Function('free_symbols', Exp.sort(), SetS)
    sel = z3.Function('select_rvs', model.sort(), SetS, Dists.sort())
    dfree = z3.Function('dist_free_symbols', Dists.sort(), SetS)

    class Path:
        """an attribute path on the model that is resolved by the next attribute / call"""
        def __init__(self, m, what):
            self.m, self.what = m, what

    def is_model(v):
        return isinstance(v, Val) and v.ty == model

    R.intrinsics['replace_non_random_rvs'] = lambda ex, st, a, kw, n: Val(model, clean(a[0].t))

    def _indpars(ex, st, a, kw, n):
        t = indpars(a[0].t)
        ex.ops(st).known(SeqS, t)
        return Val(SeqS, t)

    R.intrinsics['get_individual_parameters'] = _indpars
    R.intrinsics['get_omegas'] = lambda ex, st, a, kw, n: Path(a[0].t, 'omega_symbols')

    prev_params = R.intrinsics.get('attr:parameters')

    @R.intrinsic('attr:nonfixed')
    def _nonfixed(ex, st, args, kwargs, node):
        # model.parameters.nonfixed: used as len(...) by AIC/BIC (abstract count) and as .symbols here
        return NotImplemented

    @R.intrinsic('attr:symbols')
    def _symbols(ex, st, args, kwargs, node):
        b = args[0]
        if isinstance(b, Path):
            return b
        if isinstance(b, Val) and b.ty.key() == 'Params':
            # parameters.nonfixed.symbols of model m: the estimated parameters
            src = ast_src(node.value)
            if src.endswith('.parameters.nonfixed'):
                m = ex.eval(node.value.value.value, st)
                return Path(m.t, 'estimated_parameters')
        return NotImplemented

    def ast_src(n):
        import ast
        return ast.unparse(n)

    @R.intrinsic('attr:random_variables')
    def _rvs(ex, st, args, kwargs, node):
        return Path(args[0].t, 'rvs') if is_model(args[0]) else NotImplemented

    @R.intrinsic('attr:etas')
    def _etas(ex, st, args, kwargs, node):
        return Path(args[0].m, 'eta_symbols') if isinstance(args[0], Path) else NotImplemented

    @R.intrinsic('attr:epsilons')
    def _eps(ex, st, args, kwargs, node):
        return Path(args[0].m, 'epsilon_symbols') if isinstance(args[0], Path) else NotImplemented

    @R.intrinsic('set')
    def _set(ex, st, args, kwargs, node):
        if args and isinstance(args[0], Path) and args[0].what in sets:
            return MSet(S, sets[args[0].what](args[0].m))
        return BUILTINS['set'](ex, st, args, kwargs, node, False)

    @R.intrinsic('attr:statements')
    def _stmts(ex, st, args, kwargs, node):
        return Path(args[0].t, 'statements') if is_model(args[0]) else NotImplemented

    @R.intrinsic('attr:before_odes')
    def _before(ex, st, args, kwargs, node):
        return Path(args[0].m, 'before') if isinstance(args[0], Path) else NotImplemented

    @R.intrinsic('attr:after_odes')
    def _after(ex, st, args, kwargs, node):
        return Path(args[0].m, 'after') if isinstance(args[0], Path) else NotImplemented

    @R.intrinsic('method:full_expression')
    def _full(ex, st, args, kwargs, node):
        p = args[0]
        if isinstance(p, Path) and p.what in ('before', 'after'):
            f = full_before if p.what == 'before' else full_after
            return Val(Exp, f(p.m, ex.to_term(args[1], S, st)))
        return NotImplemented

    @R.intrinsic('attr:free_symbols')
    def _free(ex, st, args, kwargs, node):
        b = args[0]
        if isinstance(b, Val) and b.ty == Exp:
            return MSet(S, free(b.t))
        if isinstance(b, Val) and b.ty == Dists:
            return MSet(S, dfree(b.t))
        return NotImplemented

    @R.intrinsic('attr:dependent_variables')
    def _dv(ex, st, args, kwargs, node):
        return Path(args[0].t, 'dvs') if is_model(args[0]) else NotImplemented

    @R.intrinsic('method:keys')
    def _keys(ex, st, args, kwargs, node):
        if isinstance(args[0], Path) and args[0].what == 'dvs':
            t = dvs(args[0].m)
            ex.ops(st).known(SeqS, t)
            return Val(SeqS, t)
        return NotImplemented

    @R.intrinsic('getitem')
    def _getitem(ex, st, args, kwargs, node):
        if isinstance(args[0], Path) and args[0].what == 'rvs' and isinstance(args[1], MSet):
            return Val(Dists, sel(args[0].m, args[1].t))
        return NotImplemented

    def setop(fn):
        def h(ex, st, args, kwargs, node):
            a, b = args
            if isinstance(a, MSet) and isinstance(b, MSet):
                return MSet(S, fn(a.t, b.t))
            return NotImplemented
        return h

    R.intrinsics['binop:BitOr'] = setop(z3.SetUnion)
    R.intrinsics['binop:BitAnd'] = setop(z3.SetIntersect)
    R.intrinsics['binop:Sub'] = setop(z3.SetDifference)
    R.intrinsics['method:intersection'] = setop(z3.SetIntersect)

    @R.intrinsic('method:isdisjoint')
    def _isdisjoint(ex, st, args, kwargs, node):
        a, b = args
        if isinstance(a, MSet) and isinstance(b, MSet):
            return Val(TBool, z3.SetIntersect(a.t, b.t) == z3.EmptySet(S.sort()))
        return NotImplemented

    # spec functions
    def as_set(ex, st, v):
        if isinstance(v, MSet):
            return v.t
        raise TypeError('set expected')

    R.intrinsics['disjoint'] = lambda ex, st, a, kw, n: Val(
        TBool, z3.SetIntersect(as_set(ex, st, a[0]), as_set(ex, st, a[1])) == z3.EmptySet(S.sort()))
    R.intrinsics['subset'] = lambda ex, st, a, kw, n: Val(TBool, z3.IsSubset(as_set(ex, st, a[0]), as_set(ex, st, a[1])))
    for nm in sets:
        def mk(nm):
            return lambda ex, st, a, kw, n: MSet(S, sets[nm](clean(a[0].t)))
        R.intrinsics[nm] = mk(nm)


try:
    import z3  # noqa: F401
    _symbolic_cat()
except ImportError:
    pass


def _native_cat():
    def cleaned(model):
        from pharmpy.modeling.results import replace_non_random_rvs
        return replace_non_random_rvs(model)

    R.natives.update({
        'disjoint': lambda a, b: not (set(a) & set(b)),
        'subset': lambda a, b: set(a) <= set(b),
        'estimated_parameters': lambda m: set(cleaned(m).parameters.nonfixed.symbols),
        'omega_symbols': lambda m: set(__import__('pharmpy.modeling', fromlist=['get_omegas']).get_omegas(cleaned(m)).symbols),
    })


_native_cat()

INV = ['disjoint(fixedpars, randpars)',
       'subset(fixedpars, estimated_parameters(old(model)))', 'subset(randpars, estimated_parameters(old(model)))',
       'subset(omega_symbols(old(model)) & estimated_parameters(old(model)), randpars)',
       'model == replace_non_random_rvs(old(model))']
c = R.contract(
    '_categorize_parameters', params={'model': Model},
    locals={'fixedpars': SetOf(SymT), 'randpars': SetOf(SymT)},
    ensures=[
        # no estimated parameter is counted both as a fixed-effects and as a random-effects parameter
        'disjoint(result[0], result[1])',
        'subset(result[0], estimated_parameters(old(model))) and subset(result[1], estimated_parameters(old(model)))',
        # every estimated variance/covariance parameter of the etas counts as a random-effects parameter
        'subset(omega_symbols(old(model)) & estimated_parameters(old(model)), result[1])',
    ],
    loops=[Loop(counter='ki', inv=INV), Loop(counter='kd', inv=INV)],
    domain='gen_cat_models')


def gen_cat_models(tier):
    import warnings
    warnings.simplefilter('ignore')
    import pharmpy.modeling as pm

    base = [pm.load_example_model('pheno'), pm.load_example_model('moxo')]
    out = list(base)
    for m in base:
        for f in (lambda m: pm.add_peripheral_compartment(m), lambda m: pm.set_first_order_absorption(m),
                  lambda m: pm.add_iiv(m, ['S1'], 'exp') if 'S1' in [str(s.symbol) for s in m.statements if hasattr(s, 'symbol')] else m,
                  lambda m: pm.fix_parameters(m, [m.parameters.names[0]]),
                  lambda m: pm.set_combined_error_model(m)):
            try:
                out.append(f(m))
            except Exception:
                pass
    for m in out:
        yield {'model': m}
