"""Contracts for modeling/lrt.py and calculate_aic/calculate_bic in modeling/results.py (serves C19)."""
from pyvc.api import *

Params = Opaque('Params', len=Int)
Params.kw['attrs']['nonfixed'] = Params
Model = Opaque('Model', parameters=Params, is_entry=Bool)
Model.kw['attrs']['model'] = Model

L = ModuleSpec('src/pharmpy/modeling/lrt.py', prop='C19')
R = ModuleSpec('src/pharmpy/modeling/results.py', prop='C19')
MODULES_HERE = [L, R]

TRUSTED = [
    'scipy.stats.chi2.isf / chi2.sf and math.log are uninterpreted functions of their arguments',
    'len(model.parameters.nonfixed), len(get_observations(model)), len(get_ids(model)) and the two sets '
    'returned by _categorize_parameters are abstract non-negative counts (their computation is '
    'pandas/sympy code: bounded check in contracts/b_rank.py)',
    FLOAT := 'Python floats are modelled as mathematical reals',
]


def _symbolic():
    import z3

    from pyvc import sym
    from pyvc.symexec import Val, PyTuple
    from pyvc.sym import TBool, TInt, TReal, TOpaque

    model = Model.resolve()
    isf = z3.Function('chi2_isf', z3.RealSort(), z3.IntSort(), z3.RealSort())
    sf = z3.Function('chi2_sf', z3.RealSort(), z3.IntSort(), z3.RealSort())
    log = z3.Function('log', z3.IntSort(), z3.RealSort())
    nobs = z3.Function('n_observations', model.sort(), z3.IntSort())
    nids = z3.Function('n_individuals', model.sort(), z3.IntSort())
    n_iiv = z3.Function('n_estimated_iiv_omegas', model.sort(), z3.IntSort())
    n_fix = z3.Function('n_theta_fixed_effects', model.sort(), z3.IntSort())
    n_rand = z3.Function('n_theta_random_effects', model.sort(), z3.IntSort())
    Cnt = TOpaque('Counted', {'len': TInt})

    def counted(st, term):
        c = Cnt.fresh('cnt')
        st.facts.add(Cnt.attr_fn('len')(c) == term)
        st.facts.add(term >= 0)
        return Val(Cnt, c)

    for ms in (L, R):
        @ms.intrinsic('isinstance')
        def _isinstance(ex, st, args, kwargs, node):
            # isinstance(x, ModelEntry): abstract flag of the argument
            v = args[0]
            return Val(TBool, v.ty.attr_fn('is_entry')(v.t))

    def _kw(args, kwargs, names):
        vals = list(args)
        for n in names[len(vals):]:
            vals.append(kwargs[n])
        return vals

    @L.intrinsic('stats.chi2.isf')
    def _isf(ex, st, args, kwargs, node):
        q, df = kwargs['q'], kwargs['df']
        return Val(TReal, isf(ex.to_term(q, TReal, st), ex.to_term(df, TInt, st)))

    @L.intrinsic('stats.chi2.sf')
    def _sf(ex, st, args, kwargs, node):
        x, df = kwargs['x'], kwargs['df']
        return Val(TReal, sf(ex.to_term(x, TReal, st), ex.to_term(df, TInt, st)))

    for name, fn in (('chi2_isf', isf), ('chi2_sf', sf)):
        def mk(fn):
            def h(ex, st, args, kwargs, node):
                return Val(TReal, fn(ex.to_term(args[0], TReal, st), ex.to_term(args[1], TInt, st)))
            return h
        L.intrinsics[name] = mk(fn)

    @R.intrinsic('math.log')
    def _log(ex, st, args, kwargs, node):
        return Val(TReal, log(ex.to_term(args[0], TInt, st)))

    R.intrinsics['log'] = _log

    @R.intrinsic('get_observations')
    def _obs(ex, st, args, kwargs, node):
        return counted(st, nobs(args[0].t))

    @R.intrinsic('get_ids')
    def _ids(ex, st, args, kwargs, node):
        return counted(st, nids(args[0].t))

    @R.intrinsic('_categorize_parameters')
    def _cat(ex, st, args, kwargs, node):
        return PyTuple([counted(st, n_fix(args[0].t)), counted(st, n_rand(args[0].t))])

    @R.intrinsic('listcomp')
    def _lc(ex, st, args, kwargs, node):
        import ast
        from pyvc.symexec import OutOfSubset
        src = ast.unparse(args[0])
        if src != '[name for name in model.random_variables.iiv.parameter_names if name in parameters]':
            raise OutOfSubset('unexpected comprehension ' + src)
        return counted(st, n_iiv(st.env['model'].t))

    for nm, fn in (('n_observations', nobs), ('n_individuals', nids), ('n_estimated_iiv_omegas', n_iiv),
                   ('n_theta_fixed_effects', n_fix), ('n_theta_random_effects', n_rand)):
        def mk2(fn):
            def h(ex, st, args, kwargs, node):
                return Val(TInt, fn(args[0].t))
            return h
        R.intrinsics[nm] = mk2(fn)


try:
    import z3  # noqa: F401
    _symbolic()
except ImportError:
    pass

NPAR = '(len((child.model if child.is_entry else child).parameters) - len((parent.model if parent.is_entry else parent).parameters))'

L.contract('degrees_of_freedom', params={'parent': Model, 'child': Model}, returns=Int,
           ensures=['result == ' + NPAR])
L.contract('cutoff', params={'parent': Model, 'child': Model, 'alpha': Real}, returns=Real,
           ensures=[
               f'implies({NPAR} == 0, result == 0)',
               f'implies({NPAR} > 0, result == chi2_isf(alpha, {NPAR}))',
               f'implies({NPAR} < 0, result == -chi2_isf(alpha, -{NPAR}))',
           ])
L.contract('p_value', params={'reduced': Model, 'extended': Model, 'reduced_ofv': Real, 'extended_ofv': Real},
           returns=Real,
           ensures=['result == chi2_sf(reduced_ofv - extended_ofv, '
                    + NPAR.replace('child', 'extended').replace('parent', 'reduced') + ')'])
L.contract('test', params={'parent': Model, 'child': Model, 'parent_ofv': Real, 'child_ofv': Real, 'alpha': Real},
           returns=Bool,
           ensures=[
               f'implies({NPAR} == 0, result == (parent_ofv - child_ofv >= 0))',
               f'implies({NPAR} > 0, result == (parent_ofv - child_ofv >= chi2_isf(alpha, {NPAR})))',
               f'implies({NPAR} < 0, result == (parent_ofv - child_ofv >= -chi2_isf(alpha, -{NPAR})))',
           ])
L.contract('best_of_two', params={'parent': Model, 'child': Model, 'parent_ofv': Real, 'child_ofv': Real, 'alpha': Real},
           returns=Model,
           ensures=[
               f'implies({NPAR} > 0 and parent_ofv - child_ofv >= chi2_isf(alpha, {NPAR}), result == child)',
               f'implies({NPAR} > 0 and parent_ofv - child_ofv < chi2_isf(alpha, {NPAR}), result == parent)',
               f'implies({NPAR} == 0, result == (child if parent_ofv - child_ofv >= 0 else parent))',
           ])

R.contract('calculate_aic', params={'model': Model, 'likelihood': Real}, returns=Real,
           ensures=['result == likelihood + 2 * len(model.parameters.nonfixed)'])
R.contract('calculate_bic', params={'model': Model, 'likelihood': Real, 'type': Str}, returns=Real,
           raises={'ValueError': "type != 'fixed' and type != 'random' and type != 'iiv' and type != 'mixed'"},
           ensures=[
               "implies(type == 'fixed', result == likelihood + len(model.parameters.nonfixed) * log(n_observations(model)))",
               "implies(type == 'random', result == likelihood + len(model.parameters.nonfixed) * log(n_individuals(model)))",
               "implies(type == 'iiv', result == likelihood + n_estimated_iiv_omegas(model) * log(n_individuals(model)))",
               "implies(type == 'mixed', result == likelihood + n_theta_random_effects(model) * log(n_individuals(model))"
               "        + n_theta_fixed_effects(model) * log(n_observations(model)))",
           ])
