"""Contracts for ExtTable in src/pharmpy/model/external/nonmem/table.py (serves C20): final
estimates, standard errors, fixed flags and objective values are taken from the rows NONMEM
designates for them (special ITERATION codes), with the documented fallbacks."""
from pyvc.api import *

M = ModuleSpec('src/pharmpy/model/external/nonmem/table.py', prop='C20')
# setting `.name` of the returned pandas Series is metadata and does not change its values
M.ignored_attr_stores = ('name',)
Ext = Opaque('ExtTable')
Series = Opaque('Series')

TRUSTED = [
    'ASSUMED CONTRACTS (pandas code; bounded check contracts/b_rank.py): _get_parameters(it, thetas) '
    'returns the row of iteration `it` (without ITERATION/OBJ, without THETA columns if thetas is '
    'False) and raises KeyError iff there is no such row; _get_ofv(it) likewise for the OBJ value; '
    '`iterations` lists the non-negative iteration numbers',
    'NONMEM special iteration codes as documented in the NONMEM guides and docs/NONMEM.rst: '
    '-1000000000 final estimates, -1000000001 standard errors, -1000000003 condition number, '
    '-1000000004 / -1000000005 sd-corr form and its standard errors, -1000000006 fixed flags',
]


def _symbolic():
    import z3
    from pyvc import sym
    from pyvc.symexec import Val
    from pyvc.sym import TBool, TInt, TReal, TSeq

    ext, ser = Ext.resolve(), Series.resolve()
    GP = z3.Function('row_parameters', ext.sort(), z3.IntSort(), z3.BoolSort(), ser.sort())
    GO = z3.Function('row_ofv', ext.sort(), z3.IntSort(), z3.RealSort())
    has = z3.Function('has_row', ext.sort(), z3.IntSort(), z3.BoolSort())
    its = z3.Function('nonneg_iterations', ext.sort(), TSeq(TInt).sort())
    apply_bool = z3.Function('series_apply_bool', ser.sort(), ser.sort())
    first_value = z3.Function('series_first_value', ser.sort(), z3.RealSort())

    def reg(name, fn):
        M.intrinsics[name] = fn

    reg('row_parameters', lambda ex, st, a, kw, n: Val(ser, GP(a[0].t, ex.to_term(a[1], TInt, st), ex.truthy(a[2], st))))
    reg('row_ofv', lambda ex, st, a, kw, n: Val(TReal, GO(a[0].t, ex.to_term(a[1], TInt, st))))
    reg('has_row', lambda ex, st, a, kw, n: Val(TBool, has(a[0].t, ex.to_term(a[1], TInt, st))))

    def _its(ex, st, a, kw, n):
        t = its(a[0].t)
        ty = TSeq(TInt)
        ex.ops(st).known(ty, t)
        q = z3.Int(sym.fresh_name('q'))
        # every listed iteration is a row of the table
        st.facts.add(z3.ForAll([q], z3.Implies(z3.And(0 <= q, q < ty.f_len(t)),
                                               z3.And(ty.f_at(t, q) >= 0, has(a[0].t, ty.f_at(t, q)))),
                               patterns=[ty.f_at(t, q)]))
        return Val(ty, t)

    reg('nonneg_iterations', _its)
    reg('method:apply', lambda ex, st, a, kw, n: Val(ser, apply_bool(a[0].t)))
    reg('series_apply_bool', lambda ex, st, a, kw, n: Val(ser, apply_bool(a[0].t)))
    reg('series_first_value', lambda ex, st, a, kw, n: Val(TReal, first_value(a[0].t)))

    class Values:
        def __init__(self, s):
            self.s = s

    @M.intrinsic('attr:values')
    def _values(ex, st, args, kwargs, node):
        if isinstance(args[0], Val) and args[0].ty.key() == 'Series':
            return Values(args[0].t)
        return NotImplemented

    @M.intrinsic('getitem')
    def _getitem(ex, st, args, kwargs, node):
        base, idx = args
        if isinstance(base, Values) and z3.is_int_value(z3.simplify(idx.t)) and z3.simplify(idx.t).as_long() == 0:
            return Val(TReal, first_value(base.s))
        return NotImplemented


try:
    import z3  # noqa: F401
    _symbolic()
except ImportError:
    pass

# assumed contracts of the pandas-level helpers
c = M.contract('ExtTable._get_parameters', params={'self': Ext, 'iteration': Int, 'include_thetas': Bool},
               returns=Series, raises={'KeyError': 'not has_row(self, iteration)'},
               ensures=['result == row_parameters(self, iteration, include_thetas)'])
c.assumed = True
c = M.contract('ExtTable._get_ofv', params={'self': Ext, 'iteration': Int}, returns=Real,
               raises={'KeyError': 'not has_row(self, iteration)'},
               ensures=['result == row_ofv(self, iteration)'])
c.assumed = True
c = M.contract('ExtTable.iterations', params={'self': Ext}, returns=Seq(Int),
               ensures=['result == nonneg_iterations(self)'])
c.assumed = True
c.is_property = True

FINAL, SE, COND, SDCORR, SDCORR_SE, FIXED = (-1000000000, -1000000001, -1000000003, -1000000004,
                                              -1000000005, -1000000006)
LAST = 'max(nonneg_iterations(self))'

M.contract('ExtTable.final_parameter_estimates', params={'self': Ext}, returns=Series,
           requires=[f'has_row(self, {FINAL}) or len(nonneg_iterations(self)) > 0'],
           ensures=[f'implies(has_row(self, {FINAL}), result == row_parameters(self, {FINAL}, True))',
                    # aborted run: fall back to the last iteration that was written
                    f'implies(not has_row(self, {FINAL}), result == row_parameters(self, {LAST}, True))'])
M.contract('ExtTable.standard_errors', params={'self': Ext}, returns=Series,
           raises={'KeyError': f'not has_row(self, {SE})'},
           ensures=[f'result == row_parameters(self, {SE}, True)'])
M.contract('ExtTable.condition_number', params={'self': Ext}, returns=Real,
           raises={'KeyError': f'not has_row(self, {COND})'},
           ensures=[f'result == series_first_value(row_parameters(self, {COND}, True))'])
M.contract('ExtTable.omega_sigma_stdcorr', params={'self': Ext}, returns=Series,
           raises={'KeyError': f'not has_row(self, {SDCORR})'},
           ensures=[f'result == row_parameters(self, {SDCORR}, False)'])
M.contract('ExtTable.omega_sigma_se_stdcorr', params={'self': Ext}, returns=Series,
           raises={'KeyError': f'not has_row(self, {SDCORR_SE})'},
           ensures=[f'result == row_parameters(self, {SDCORR_SE}, False)'])
M.contract('ExtTable.fixed', params={'self': Ext}, returns=Series,
           raises={'KeyError': f'not has_row(self, {FIXED})'},
           ensures=[f'result == series_apply_bool(row_parameters(self, {FIXED}, True))'])
M.contract('ExtTable.final_ofv', params={'self': Ext}, returns=Real,
           requires=[f'has_row(self, {FINAL}) or len(nonneg_iterations(self)) > 0'],
           ensures=[f'implies(has_row(self, {FINAL}), result == row_ofv(self, {FINAL}))',
                    f'implies(not has_row(self, {FINAL}), result == row_ofv(self, {LAST}))'])
M.contract('ExtTable.initial_ofv', params={'self': Ext}, returns=Real,
           raises={'KeyError': f'not has_row(self, 0) and not has_row(self, {FINAL})'},
           ensures=['implies(has_row(self, 0), result == row_ofv(self, 0))',
                    f'implies(not has_row(self, 0), result == row_ofv(self, {FINAL}))'])
