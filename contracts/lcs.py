"""Contracts for src/pharmpy/internals/sequence/lcs.py (serves C04, C02)."""
from pyvc.api import *

M = ModuleSpec('src/pharmpy/internals/sequence/lcs.py', prop='C04')
T = Opaque('T')
P = Tuple(Int, T)

# projections of an edit script on the old / new sequence
po = M.fold('po', Seq(P), Seq(T), '[]', 'lambda acc, e: acc + [e[1]] if e[0] <= 0 else acc',
            homomorphic=True)
pn = M.fold('pn', Seq(P), Seq(T), '[]', 'lambda acc, e: acc + [e[1]] if e[0] >= 0 else acc',
            homomorphic=True)

# Facts about the LCS length matrix c = _matrix(a, b) that the tie-break argument of _diff needs:
# zero border, the recurrence, and the monotonicity / Lipschitz properties (which are inductive over
# the fill order: rows <= R complete, row R+1 filled up to column Q).
def matrix_facts(c, a, b, R, Q, rows='len(a)', cols='len(b)'):
    """clauses over the filled region: all rows p <= R complete, row R+1 complete up to column Q"""
    filled = f'(p <= {R} or (p == {R} + 1 and q <= {Q}))'
    return [
        f'all({c}[0][q] == 0 for q in range({cols} + 1))',
        f'all({c}[p][0] == 0 for p in range({rows} + 1))',
        # recurrence
        f'all(implies({filled.replace("p", "(p + 1)").replace("q", "(q + 1)")} and {a}[p] == {b}[q],'
        f'            {c}[p + 1][q + 1] == {c}[p][q] + 1) for p in range({rows}) for q in range({cols}))',
        f'all(implies({filled.replace("p", "(p + 1)").replace("q", "(q + 1)")} and {a}[p] != {b}[q],'
        f'            {c}[p + 1][q + 1] == max({c}[p + 1][q], {c}[p][q + 1])) for p in range({rows}) for q in range({cols}))',
        # monotone and 1-Lipschitz in both directions (inside the filled region)
        f'all(implies({filled.replace("p", "(p + 1)")}, {c}[p][q] <= {c}[p + 1][q] <= {c}[p][q] + 1)'
        f'    for p in range({rows}) for q in range({cols} + 1))',
        f'all(implies({filled.replace("q", "(q + 1)")}, {c}[p][q] <= {c}[p][q + 1] <= {c}[p][q] + 1)'
        f'    for p in range({rows} + 1) for q in range({cols}))',
    ]


SHAPE = [
    'len({c}) == len(a) + 1',
    'all(len({c}[p]) == len(b) + 1 for p in range(len(a) + 1))',
    'all({c}[p][q] >= 0 for p in range(len(a) + 1) for q in range(len(b) + 1))',
]
UNFILLED = 'all(implies(p > {R} + 1 or (p == {R} + 1 and q > {Q}), lengths[p][q] == 0) for p in range(len(a) + 1) for q in range(len(b) + 1))'

M.contract(
    '_matrix',
    params={'a': Seq(T), 'b': Seq(T)},
    returns=Seq(Seq(Int)),
    ensures=[x.format(c='result') for x in SHAPE] + matrix_facts('result', 'a', 'b', 'len(a)', 'len(b)'),
    loops=[
        # for i, x in enumerate(a): rows <= ki are complete
        Loop(counter='ki', inv=[x.format(c='lengths') for x in SHAPE]
             + matrix_facts('lengths', 'a', 'b', 'ki', '0')
             + [UNFILLED.format(R='ki', Q='0')]),
        # for j, y in enumerate(b): row i + 1 is complete up to column kj
        Loop(counter='kj', inv=[x.format(c='lengths') for x in SHAPE] + ['0 <= i < len(a)', 'x == a[i]']
             + matrix_facts('lengths', 'a', 'b', 'i', 'kj')
             + [UNFILLED.format(R='i', Q='kj')],
             hints=[
                 # neighbours of the cell that is about to be written (instances of the invariant)
                 'lengths[i][j] <= lengths[i + 1][j] <= lengths[i][j] + 1',
                 'lengths[i][j] <= lengths[i][j + 1] <= lengths[i][j] + 1',
             ],
             end_hints=[
                 # the new cell is monotone and 1-Lipschitz with respect to its upper and left neighbour
                 'lengths[i][j + 1] <= lengths[i + 1][j + 1] <= lengths[i][j + 1] + 1',
                 'lengths[i + 1][j] <= lengths[i + 1][j + 1] <= lengths[i + 1][j] + 1',
                 'all(lengths[p][q] == old_lengths[p][q] for p in range(len(a) + 1) for q in range(len(b) + 1)'
                 '    if not (p == i + 1 and q == j + 1))' if False else 'True',
             ]),
    ],
)

NO_PLUS_MINUS = 'all(not ({r}[q][0] == 1 and {r}[q + 1][0] == -1) for q in range(len({r}) - 1))'

M.contract(
    '_diff',
    params={'c': Seq(Seq(Int)), 'x': Seq(T), 'y': Seq(T), 'i': Int, 'j': Int},
    returns=Seq(P), generator=True,
    requires=[
        '-1 <= i < len(x)',
        '-1 <= j < len(y)',
        # c is the LCS length matrix of x and y (what diff passes: the result of _matrix)
        'len(c) == len(x) + 1',
        'all(len(c[p]) == len(y) + 1 for p in range(len(x) + 1))',
        'all(c[p][q] >= 0 for p in range(len(x) + 1) for q in range(len(y) + 1))',
    ] + matrix_facts('c', 'x', 'y', 'len(x)', 'len(y)', rows='len(x)', cols='len(y)'),
    ensures=[
        'all(-1 <= e[0] <= 1 for e in result)',
        'po(result) == x[:i + 1]',
        'pn(result) == y[:j + 1]',
        # tie-break relied upon by the record updaters: inside a replaced run the deletions come
        # before the insertions, i.e. an insertion is never directly followed by a deletion
        NO_PLUS_MINUS.format(r='result'),
        # (needed for the induction) the script ends with an insertion only in these cases
        'implies(len(result) > 0 and result[len(result) - 1][0] == 1,'
        '        j >= 0 and (i < 0 or (x[i] != y[j] and c[i + 1][j] >= c[i][j + 1])))',
    ],
    decreases='i + j + 2',
)

M.contract(
    'diff',
    params={'old': Seq(T), 'new': Seq(T)},
    returns=Seq(P), generator=True,
    locals={'saved': Seq(P)},
    ensures=[
        'all(-1 <= e[0] <= 1 for e in result)',
        'po(result) == old',
        'pn(result) == new',
        NO_PLUS_MINUS.format(r='result'),
    ],
    loops=[
        # for a, b in zip(old, new): common head
        Loop(counter='k0', inv=[
            'i == k0',
            'all(e[0] == 0 for e in result)',
            'all(-1 <= e[0] <= 1 for e in result)',
            'po(result) == old[:i]',
            'pn(result) == new[:i]',
        ], hints=[
            'old[:k0 + 1] == old[:k0] + [old[k0]]',
            'new[:k0 + 1] == new[:k0] + [new[k0]]',
        ]),
        # for a, b in zip(reversed(rold), reversed(rnew)): common tail, saved in reverse
        Loop(counter='k1', inv=[
            'len(saved) == k1',
            'all(e[0] == 0 for e in saved)',
            'po(rev(saved)) == rold[len(rold) - k1:]',
            'pn(rev(saved)) == rnew[len(rnew) - k1:]',
        ]),
        # for op, val in _diff(...): re-yield the script of the middle part
        Loop(counter='k2', seq='D', ghost={'R2': 'result'}, inv=[
            'result == R2 + D[:k2]',
        ]),
        # while saved: yield saved.pop()
        Loop(ghost={'R3': 'result', 'S0': 'saved'}, inv=[
            'len(saved) <= len(S0)',
            'saved == S0[:len(saved)]',
            'result == R3 + rev(S0[len(saved):])',
        ], decreases='len(saved)'),
    ],
)

TRUSTED = ['sequence theory (len/at, in-range facts, skolemised extensionality) of pyvc.sym',
           'element == is an equivalence that z3 equality models (opaque element sort)']


def gen_seq_pairs(tier):
    """bounded domain: all pairs of sequences over a 3-letter alphabet up to length 4 (quick) / 5"""
    import itertools

    n = 4 if tier == 'quick' else 5
    seqs = [list(p) for k in range(n + 1) for p in itertools.product('abc', repeat=k)]
    for a in seqs:
        for b in seqs:
            yield {'old': a, 'new': b}


def gen_matrix_inputs(tier):
    for kw in gen_seq_pairs(tier):
        yield {'a': kw['old'], 'b': kw['new']}


def gen_diff_inputs(tier):
    import itertools

    n = 3 if tier == 'quick' else 4
    seqs = [list(p) for k in range(n + 1) for p in itertools.product('ab', repeat=k)]
    for x in seqs:
        for y in seqs:
            # a well-formed LCS matrix is what the real caller passes; build it with the real code
            from pharmpy.internals.sequence.lcs import _matrix
            c = _matrix(x, y)
            for i in range(-1, len(x)):
                for j in range(-1, len(y)):
                    yield {'c': c, 'x': x, 'y': y, 'i': i, 'j': j}


M.contracts['diff'].domain = 'gen_seq_pairs'

M.contracts['_matrix'].domain = 'gen_matrix_inputs'
M.contracts['_diff'].domain = 'gen_diff_inputs'
