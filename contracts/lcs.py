"""Contracts for src/pharmpy/internals/sequence/lcs.py (serves C04, C02)."""
from pyvc.api import *

M = ModuleSpec('src/pharmpy/internals/sequence/lcs.py', prop='C04')
T = Opaque('T')
P = Tuple(Int, T)

# projections of an edit script on the old / new sequence
po = M.fold('po', Seq(P), Seq(T), '[]', 'lambda acc, e: acc + [e[1]] if e[0] <= 0 else acc',
            homomorphic=True)
pn = M.fold('pn', Seq(P), Seq(T), '[]', 'lambda acc, e: acc + [e[1]] if e[0] >= 0 else acc',
            homomorphic=True)

M.contract(
    '_matrix',
    params={'a': Seq(T), 'b': Seq(T)},
    returns=Seq(Seq(Int)),
    ensures=[
        'len(result) == len(a) + 1',
        'all(len(result[p]) == len(b) + 1 for p in range(len(a) + 1))',
        'all(result[p][q] >= 0 for p in range(len(a) + 1) for q in range(len(b) + 1))',
    ],
    loops=[
        Loop(counter='ki', inv=[
            'len(lengths) == len(a) + 1',
            'all(len(lengths[p]) == len(b) + 1 for p in range(len(a) + 1))',
            'all(lengths[p][q] >= 0 for p in range(len(a) + 1) for q in range(len(b) + 1))',
        ]),
        Loop(counter='kj', inv=[
            'len(lengths) == len(a) + 1',
            'all(len(lengths[p]) == len(b) + 1 for p in range(len(a) + 1))',
            'all(lengths[p][q] >= 0 for p in range(len(a) + 1) for q in range(len(b) + 1))',
        ]),
    ],
)

M.contract(
    '_diff',
    params={'c': Seq(Seq(Int)), 'x': Seq(T), 'y': Seq(T), 'i': Int, 'j': Int},
    returns=Seq(P), generator=True,
    requires=[
        '-1 <= i < len(x)',
        '-1 <= j < len(y)',
        'len(c) >= i + 2',
        'all(len(c[p]) >= j + 2 for p in range(i + 2))',
    ],
    ensures=[
        'all(-1 <= e[0] <= 1 for e in result)',
        'po(result) == x[:i + 1]',
        'pn(result) == y[:j + 1]',
    ],
    decreases='i + j + 2',
)

M.contract(
    'diff',
    params={'old': Seq(T), 'new': Seq(T)},
    returns=Seq(P), generator=True,
    locals={'saved': Seq(P)},
    ensures=[
        'all(-1 <= e[0] <= 1 for e in result)',
        'po(result) == old',
        'pn(result) == new',
    ],
    loops=[
        # for a, b in zip(old, new): common head
        Loop(counter='k0', inv=[
            'i == k0',
            'all(-1 <= e[0] <= 1 for e in result)',
            'po(result) == old[:i]',
            'pn(result) == new[:i]',
        ], hints=[
            'old[:k0 + 1] == old[:k0] + [old[k0]]',
            'new[:k0 + 1] == new[:k0] + [new[k0]]',
        ]),
        # for a, b in zip(reversed(rold), reversed(rnew)): common tail, saved in reverse
        Loop(counter='k1', inv=[
            'len(saved) == k1',
            'all(e[0] == 0 for e in saved)',
            'po(rev(saved)) == rold[len(rold) - k1:]',
            'pn(rev(saved)) == rnew[len(rnew) - k1:]',
        ]),
        # for op, val in _diff(...): re-yield the script of the middle part
        Loop(counter='k2', seq='D', ghost={'R2': 'result'}, inv=[
            'result == R2 + D[:k2]',
        ]),
        # while saved: yield saved.pop()
        Loop(ghost={'R3': 'result', 'S0': 'saved'}, inv=[
            'len(saved) <= len(S0)',
            'saved == S0[:len(saved)]',
            'result == R3 + rev(S0[len(saved):])',
        ], decreases='len(saved)'),
    ],
)

TRUSTED = ['sequence theory (len/at, in-range facts, skolemised extensionality) of pyvc.sym',
           'element == is an equivalence that z3 equality models (opaque element sort)']


def gen_seq_pairs(tier):
    """bounded domain: all pairs of sequences over a 3-letter alphabet up to length 4 (quick) / 5"""
    import itertools

    n = 4 if tier == 'quick' else 5
    seqs = [list(p) for k in range(n + 1) for p in itertools.product('abc', repeat=k)]
    for a in seqs:
        for b in seqs:
            yield {'old': a, 'new': b}


def gen_matrix_inputs(tier):
    for kw in gen_seq_pairs(tier):
        yield {'a': kw['old'], 'b': kw['new']}


def gen_diff_inputs(tier):
    import itertools

    n = 3 if tier == 'quick' else 4
    seqs = [list(p) for k in range(n + 1) for p in itertools.product('ab', repeat=k)]
    for x in seqs:
        for y in seqs:
            # a well-formed LCS matrix is what the real caller passes; build it with the real code
            from pharmpy.internals.sequence.lcs import _matrix
            c = _matrix(x, y)
            for i in range(-1, len(x)):
                for j in range(-1, len(y)):
                    yield {'c': c, 'x': x, 'y': y, 'i': i, 'j': j}


M.contracts['diff'].domain = 'gen_seq_pairs'
# relied upon by update_random_variable_records / update_thetas: within a replaced run the
# deletions come before the insertions (tie-break of _diff).  Not proved (needs the Lipschitz
# property of the LCS matrix); checked on the bounded domain only.
M.contracts['diff'].ensures_bounded = [
    'all(not (result[q][0] == 1 and result[q + 1][0] == -1) for q in range(len(result) - 1))',
]
M.contracts['_matrix'].domain = 'gen_matrix_inputs'
M.contracts['_diff'].domain = 'gen_diff_inputs'
