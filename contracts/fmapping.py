"""Class invariant of pharmpy.internals.immutable.frozenmapping (serves C06: equal mappings hash equally).

Representation invariant  Inv(m):  m._hash is None  or  m._hash == H(m._mapping)
where H is `hash(frozenset(d.items()))`, an uninterpreted function of the content of the dict d.
Proved: __init__ establishes Inv (for a dict and for another frozenmapping satisfying Inv, whose content it
takes over), __hash__ returns H(content) and keeps Inv and the content, replace(key, value) returns a mapping
that satisfies Inv and whose content is the old content with key set to value, leaving the receiver unchanged.
With Mapping.__eq__ (equality of the contents) this gives eq => hash for every mapping reachable through these
operations, whatever was hashed before."""
from pyvc.api import *

M = ModuleSpec('src/pharmpy/internals/immutable.py', prop='C06')
M.exec_class = 'monitor'
MODULES_HERE = [M]
MONITORS = {}

TRUSTED = [
    'frozenmapping: dicts are key set + value array; hash(frozenset(d.items())) is an uninterpreted function H of that '
    'content; dict(x) copies the content of a dict or of a mapping; Mapping.__eq__ compares contents (collections.abc)',
    'a constructor call frozenmapping(x) inside replace is used through the contract of __init__ (fresh object '
    'satisfying the postcondition of __init__)',
]


def _symbolic():
    import z3
    from pyvc import sym
    from pyvc.monitor import MonitorSpec
    from pyvc.symexec import SObj, MDict, Val, NONE, BoolV
    from pyvc.sym import TInt, TBool, TOpaque, TOption

    K, V = TOpaque('MapKey', {}), TOpaque('MapValue', {})
    OH = TOption(TInt)
    KS = z3.ArraySort(K.sort(), z3.BoolSort())
    VS = z3.ArraySort(K.sort(), V.sort())
    H = z3.Function('hash_of_items', KS, VS, z3.IntSort())

    def Hd(d):
        # H is applied to the representation; where two representations of one content meet, the instance
        # same_content(a, b) => H(a) == H(b) is added (hash_congruence)
        return H(d.keys, d.arrs[0])

    def hash_congruence(st, a, b):
        st.facts.add(z3.Implies(same_content(a, b), Hd(a) == Hd(b)))

    def same_content(a, b):
        k = z3.Const(sym.fresh_name('k'), K.sort())
        return z3.ForAll([k], z3.And(z3.Select(a.keys, k) == z3.Select(b.keys, k),
                                     z3.Implies(z3.Select(a.keys, k), z3.Select(a.arrs[0], k) == z3.Select(b.arrs[0], k))))

    def hash_term(h):
        from pyvc.sym import TNone
        if isinstance(h, Val) and h.ty == OH:
            return h.t
        if isinstance(h, Val) and h.ty is TInt:
            return OH.some(h.t)
        if isinstance(h, Val) and h.ty is TNone:
            return OH.none()
        raise TypeError(f'unexpected value of _hash: {h}')

    def inv_of(obj):
        h = hash_term(obj.fields['_hash'])
        return z3.Or(OH.is_none(h), OH.val(h) == Hd(obj.fields['_mapping']))

    def fresh_fm(prefix):
        return SObj('frozenmapping', {'_mapping': MDict.fresh(K, [V], prefix + '_map'),
                                      '_hash': Val(OH, OH.fresh(prefix + '_hash'))})

    class FM(MonitorSpec):
        name = 'frozenmapping'

        def setup(self, ex, st):
            st.env['self'] = fresh_fm('self')
            st.mon['tid'] = z3.Int('tid')

        def havoc(self, ex, st):
            pass

        def inv(self, ex, st):
            if ex.c.qualname.endswith('__init__') and not st.mon.get('exit_sig'):
                return []  # not yet constructed at entry
            return [('Inv: the cached hash is None or the hash of the content', inv_of(st.env['self']))]

        def snapshot(self, ex, st):
            s = st.env['self']
            return {'map': MDict(K, [V], s.fields['_mapping'].keys, list(s.fields['_mapping'].arrs))}

        def local_pre(self, ex, st, point):
            res = []
            if point == 'entry' and ex.c.qualname.endswith('__init__'):
                # the argument: a dict or a frozenmapping - modelled as a mapping object with a content and a
                # cached hash satisfying the invariant; isinstance(mapping, frozenmapping) is an unknown Bool, and
                # dict(mapping) copies the content in either case
                arg = fresh_fm('arg')
                st.env['mapping'] = arg
                st.mon['init_source'] = MDict(K, [V], arg.fields['_mapping'].keys, list(arg.fields['_mapping'].arrs))
            for nm, v in st.env.items():
                if nm != 'self' and isinstance(v, SObj) and v.cls == 'frozenmapping':
                    res.append(inv_of(v))  # arguments that are frozenmappings satisfy the invariant
            return res

        def on_exit(self, ex, st):
            sig = st.mon['exit_sig']
            q = ex.c.qualname
            me = st.env['self']
            pre = st.mon['pre']['map']
            if sig[0] == 'raise':
                return
            if q.endswith('__hash__'):
                rv = sig[1]
                ex.oblige(st, 'post', '__hash__ returns the hash of the content', ex.to_term(rv, TInt, st) == Hd(pre), 0,
                          'result == H(content)', keep=True)
                ex.oblige(st, 'frame', '__hash__ does not change the content', same_content(me.fields['_mapping'], pre), 0,
                          'content unchanged', keep=True)
            elif q.endswith('__init__'):
                src = st.mon['init_source']
                ex.oblige(st, 'post', '__init__ takes over the content of its argument',
                          same_content(me.fields['_mapping'], src), 0, 'content == content(argument)', keep=True)
            elif q.endswith('replace'):
                rv = sig[1]
                ok = isinstance(rv, SObj) and rv.cls == 'frozenmapping'
                if not ok:
                    ex.oblige(st, 'post', 'replace returns a frozenmapping', z3.BoolVal(False), 0, 'result type', keep=True)
                    return
                want = MDict(K, [V], pre.keys, list(pre.arrs))
                want.setitem(ex, st, st.env['key'], st.env['value'])
                ex.oblige(st, 'post', 'replace: the result satisfies the invariant (no stale cached hash)',
                          inv_of(rv), 0, 'Inv(result)', keep=True)
                ex.oblige(st, 'post', 'replace: the content of the result is the old content with key set to value',
                          same_content(rv.fields['_mapping'], want), 0, 'content(result) == content[key := value]',
                          keep=True)
                ex.oblige(st, 'frame', 'replace does not change the receiver', same_content(me.fields['_mapping'], pre), 0,
                          'receiver unchanged', keep=True)

    MONITORS['frozenmapping'] = FM()

    @M.intrinsic('isinstance')
    def _isinstance(ex, st, args, kwargs, node):
        v = args[0]
        if isinstance(v, SObj):
            if 'is_fm' not in st.mon:
                st.mon['is_fm'] = z3.Bool(sym.fresh_name('arg_is_frozenmapping'))
            return Val(TBool, st.mon['is_fm'])
        return BoolV(False)

    def content_of(v):
        if isinstance(v, SObj) and v.cls == 'frozenmapping':
            return v.fields['_mapping']
        if isinstance(v, MDict):
            return v
        return None

    @M.intrinsic('dict')
    def _dict(ex, st, args, kwargs, node):
        d = content_of(args[0]) if args else None
        if d is None:
            return NotImplemented
        return MDict(K, [V], d.keys, list(d.arrs))

    class Items:
        def __init__(self, d):
            self.d = d

    @M.intrinsic('method:items')
    def _items(ex, st, args, kwargs, node):
        return Items(args[0]) if isinstance(args[0], MDict) else NotImplemented

    M.intrinsics['frozenset'] = lambda ex, st, a, kw, n: a[0]

    @M.intrinsic('hash')
    def _hash(ex, st, args, kwargs, node):
        if isinstance(args[0], Items):
            return Val(TInt, Hd(args[0].d))
        return NotImplemented

    @M.intrinsic('frozenmapping')
    def _construct(ex, st, args, kwargs, node):
        """constructor call, by the contract of __init__: a fresh object with the content of the argument that
        satisfies the invariant"""
        src = content_of(args[0])
        if src is None:
            return NotImplemented
        new = fresh_fm('new')
        st.assume(same_content(new.fields['_mapping'], src))
        hash_congruence(st, new.fields['_mapping'], src)
        st.assume(inv_of(new))
        return new

    return K, V


try:
    import z3  # noqa: F401
    _KV = _symbolic()
except ImportError:
    _KV = None

for q, params in (('frozenmapping.__init__', {'mapping': Opaque('FMArg')}),
                  ('frozenmapping.__hash__', {}),
                  ('frozenmapping.replace', {'key': Opaque('MapKey'), 'value': Opaque('MapValue')})):
    c = M.contract(q, params=params)
    c.monitor = 'frozenmapping'
    c.sidecar_module = 'contracts.fmapping'
