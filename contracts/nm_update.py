"""Contracts for src/pharmpy/model/external/nonmem/update.py (serves C04, C02)."""
from pyvc.api import *

M = ModuleSpec('src/pharmpy/model/external/nonmem/update.py', prop='C04')
Param = Opaque('Param', name=Str)
P = Tuple(Int, Param)

po = M.fold('po', Seq(P), Seq(Param), '[]', 'lambda acc, e: acc + [e[1]] if e[0] <= 0 else acc',
            homomorphic=True)
pn = M.fold('pn', Seq(P), Seq(Param), '[]', 'lambda acc, e: acc + [e[1]] if e[0] >= 0 else acc',
            homomorphic=True)

M.contract(
    'reorder_diff',
    params={'diff': Seq(P), 'kept_names': SetOf(Str)},
    returns=Seq(P),
    locals={'new_diff': Seq(P), 'handled': SetOf(Int)},
    requires=[
        'all(-1 <= e[0] <= 1 for e in diff)',
        # the script comes from lcs.diff(old, new) of two Parameters collections: names are unique
        # within the old and within the new sequence
        'all(implies(p != q and diff[p][0] <= 0 and diff[q][0] <= 0, diff[p][1].name != diff[q][1].name)'
        ' for p in range(len(diff)) for q in range(len(diff)))',
        'all(implies(p != q and diff[p][0] >= 0 and diff[q][0] >= 0, diff[p][1].name != diff[q][1].name)'
        ' for p in range(len(diff)) for q in range(len(diff)))',
    ],
    ensures=[
        # the reordered script still describes the same old and the same new parameter sequence
        'po(result) == po(diff)',
        'pn(result) == pn(diff)',
    ],
    loops=[
        Loop(counter='k0', inv=[
            'po(new_diff) == po(diff[:k0])',
            'all(implies(q in handled, diff[q][0] == 1) for q in range(len(diff)))',
        ]),
        Loop(counter='k1', ghost={'N1': 'new_diff', 'H1': 'handled'}, inv=[
            'new_diff == N1',
            'handled == H1',
        ]),
    ],
)

TRUSTED = ['sequence theory of pyvc.sym', 'Parameter objects are opaque values with a `name`; '
           'set of names as characteristic function']


def gen_reorder_inputs(tier):
    import itertools
    from pyvc.native import Opq

    n = 4 if tier == 'quick' else 5
    names = ['a', 'b', 'c']
    # two generations of each parameter (same name, different object) model "changed" parameters
    params = [Opq('Param', f'{nm}{g}', {'name': nm}) for nm in names for g in (0, 1)]
    entries = [(op, p) for op in (-1, 0, 1) for p in params[:4]]
    for k in range(n + 1):
        for combo in itertools.product(entries, repeat=k):
            if k == n and tier == 'quick' and combo[0][0] == 0:
                continue
            for kept in ({'a'}, {'a', 'b'}, set()):
                yield {'diff': list(combo), 'kept_names': set(kept)}


M.contracts['reorder_diff'].domain = 'gen_reorder_inputs'


# ------------------------------------------------------------------------------------------------
# new_advan_trans (C02): the ADVAN/TRANS pair written to $SUBROUTINES is one PREDPP accepts, the
# ADVAN is the first library routine whose structure matches, and nonlinear systems get ADVAN13
# without a TRANS.  The structure predicates (match_advanN, is_nonlinear_odes, ...) are sympy /
# graph code and stay abstract: uninterpreted predicates of the model.
# PREDPP reference (NONMEM Users Guide VI, $SUBROUTINES): ADVAN1/2 accept TRANS1, TRANS2;
# ADVAN3/4 accept TRANS1, TRANS3, TRANS4, TRANS5, TRANS6; ADVAN11/12 accept TRANS1, TRANS4, TRANS6;
# the general routines (ADVAN5, 6, 7, 8, 9, 13) accept TRANS1 only.
# ------------------------------------------------------------------------------------------------
NModel = Opaque('NModel')
TRUSTED += [
    'new_advan_trans: get_odes, is_nonlinear_odes, has_zero_order_inputs, match_advan1..12, the $SUBROUTINES '
    'option lookup and the "elimination rate is a ratio of two symbols" test are uninterpreted functions of the '
    'model (sympy / graph code; exercised by the bounded code generation check contracts/b_nm.py)',
    'PREDPP table of the TRANS routines each ADVAN accepts, transcribed by hand',
]

ADVAN_OF = ("('ADVAN13' if is_nonlinear_odes(model) or has_zero_order_inputs(model) else "
            "'ADVAN1' if match_advan1(get_odes(model)) else 'ADVAN2' if match_advan2(model.statements) else "
            "'ADVAN3' if match_advan3(get_odes(model)) else 'ADVAN4' if match_advan4(model.statements) else "
            "'ADVAN11' if match_advan11(get_odes(model)) else 'ADVAN12' if match_advan12(model.statements) else "
            "'ADVAN5')")
VALID = ("((result[0] in ('ADVAN1', 'ADVAN2') and result[1] in ('TRANS1', 'TRANS2')) or "
         "(result[0] in ('ADVAN3', 'ADVAN4') and result[1] in ('TRANS1', 'TRANS3', 'TRANS4', 'TRANS5', 'TRANS6')) or "
         "(result[0] in ('ADVAN11', 'ADVAN12') and result[1] in ('TRANS1', 'TRANS4', 'TRANS6')) or "
         # general routines: the callers (update_needed_pk_parameters, to_des, from_des) do not consume the TRANS
         # component and from_des decides the text written to $SUBROUTINES, so it is not constrained here
         # (constraining it to TRANS1 was a false alarm: ('ADVAN5', 'TRANS4') is returned but never written)
         "result[0] in ('ADVAN5', 'ADVAN7', 'ADVAN13'))")

c = M.contract(
    'new_advan_trans', params={'model': NModel},
    ensures=[
        f'result[0] == {ADVAN_OF}',
        'result[2] == is_nonlinear_odes(model) and result[3] == has_zero_order_inputs(model)',
        # nonlinear systems are written as $DES for ADVAN13 and have no TRANS
        '(result[0] == "ADVAN13" and result[1] is None) if is_nonlinear_odes(model) else True',
        # otherwise the pair is one PREDPP accepts
        f'{VALID} if not is_nonlinear_odes(model) else True',
        # a TRANS1 parametrisation (micro constants) is valid everywhere and is kept
        '(result[1] == "TRANS1") if (not is_nonlinear_odes(model) and old_trans(model) == "TRANS1") else True',
    ],
    domain='gen_models')
c.prop = 'C02'


def _symbolic_advan():
    import z3
    from pyvc import sym
    from pyvc.symexec import Val, PyTuple
    from pyvc.sym import TBool, TStr, TOption, TSeq, TOpaque

    model = NModel.resolve()
    OS = TOption(TStr)
    Rec = TOpaque('SubsRecord', {})
    Recs = TSeq(Rec)
    Odes = TOpaque('OdesOf', {})
    Stmts = TOpaque('StatementsOf', {})
    Ex = TOpaque('RateExpr', {})
    Cmt = Opaque('Cmt').resolve()
    recs = z3.Function('subroutines_records', model.sort(), Recs.sort())
    trans_opt = z3.Function('trans_option', Rec.sort(), OS.sort())
    odes_of = z3.Function('get_odes', model.sort(), Odes.sort())
    stmts_of = z3.Function('statements_of', model.sort(), Stmts.sort())
    central = z3.Function('central_compartment', Odes.sort(), Cmt.sort())
    flow = z3.Function('get_flow', Odes.sort(), Cmt.sort(), Cmt.sort(), Ex.sort())
    numer = z3.Function('numerator', Ex.sort(), Ex.sort())
    denom = z3.Function('denominator', Ex.sort(), Ex.sort())
    is_sym = z3.Function('is_symbol', Ex.sort(), z3.BoolSort())
    preds = {}
    for nm, dom in (('is_nonlinear_odes', model), ('has_zero_order_inputs', model), ('match_advan1', Odes),
                    ('match_advan2', Stmts), ('match_advan3', Odes), ('match_advan4', Stmts),
                    ('match_advan11', Odes), ('match_advan12', Stmts)):
        preds[nm] = (z3.Function(nm, dom.sort(), z3.BoolSort()), dom)

    def has_ty(v, ty):
        return isinstance(v, Val) and v.ty == ty

    @M.intrinsic('attr:internals')
    def _internals(ex, st, args, kwargs, node):
        return args[0] if has_ty(args[0], model) else NotImplemented

    @M.intrinsic('attr:control_stream')
    def _cs(ex, st, args, kwargs, node):
        return args[0] if has_ty(args[0], model) else NotImplemented

    @M.intrinsic('attr:statements')
    def _stmts(ex, st, args, kwargs, node):
        return Val(Stmts, stmts_of(args[0].t)) if has_ty(args[0], model) else NotImplemented

    def records(ex, st, m):
        t = recs(m)
        ex.ops(st).known(Recs, t)
        return t

    @M.intrinsic('method:get_records')
    def _get_records(ex, st, args, kwargs, node):
        return Val(Recs, records(ex, st, args[0].t)) if has_ty(args[0], model) else NotImplemented

    @M.intrinsic('method:get_option_startswith')
    def _opt(ex, st, args, kwargs, node):
        return Val(OS, trans_opt(args[0].t)) if has_ty(args[0], Rec) else NotImplemented

    M.intrinsics['get_odes'] = lambda ex, st, a, kw, n: Val(Odes, odes_of(a[0].t))
    for nm, (fn, dom) in preds.items():
        def mk(fn, dom):
            return lambda ex, st, a, kw, n: Val(TBool, fn(ex.to_term(a[0], dom, st)))
        M.intrinsics[nm] = mk(fn, dom)

    def _old_trans(ex, st, a, kw, n):
        # spec function: the TRANS option of the first $SUBROUTINES record, None without such a record
        t = records(ex, st, a[0].t)
        return Val(OS, z3.If(Recs.f_len(t) > 0, trans_opt(Recs.f_at(t, 0)), OS.none()))

    M.intrinsics['old_trans'] = _old_trans

    @M.intrinsic('attr:central_compartment')
    def _central(ex, st, args, kwargs, node):
        return Val(Cmt, central(args[0].t)) if has_ty(args[0], Odes) else NotImplemented

    M.consts['output'] = Opaque('Cmt')

    @M.intrinsic('method:get_flow')
    def _flow(ex, st, args, kwargs, node):
        if has_ty(args[0], Odes):
            return Val(Ex, flow(args[0].t, ex.to_term(args[1], Cmt, st), ex.to_term(args[2], Cmt, st)))
        return NotImplemented

    @M.intrinsic('method:as_numer_denom')
    def _nd(ex, st, args, kwargs, node):
        if has_ty(args[0], Ex):
            return PyTuple([Val(Ex, numer(args[0].t)), Val(Ex, denom(args[0].t))])
        return NotImplemented

    @M.intrinsic('method:is_symbol')
    def _issym(ex, st, args, kwargs, node):
        return Val(TBool, is_sym(args[0].t)) if has_ty(args[0], Ex) else NotImplemented


try:
    import z3  # noqa: F401
    _symbolic_advan()
except ImportError:
    pass


def _native_advan():
    def lazy(name):
        def f(*a):
            import pharmpy.model.external.nonmem.update as u
            return getattr(u, name)(*a)
        return f

    for nm in ('is_nonlinear_odes', 'has_zero_order_inputs', 'get_odes', 'match_advan1', 'match_advan2',
               'match_advan3', 'match_advan4', 'match_advan11', 'match_advan12'):
        M.natives[nm] = lazy(nm)

    def old_trans(model):
        subs = model.internals.control_stream.get_records('SUBROUTINES')
        return subs[0].get_option_startswith('TRANS') if subs else None

    M.natives['old_trans'] = old_trans


_native_advan()


def gen_models(tier):
    """in-memory models just before code generation: example models after one or two structural setters
    (the model passed to new_advan_trans still carries the old $SUBROUTINES record)"""
    import warnings
    warnings.simplefilter('ignore')
    import pharmpy.modeling as pm

    starts = [pm.load_example_model('pheno')]
    starts.append(pm.set_michaelis_menten_elimination(starts[0]))
    starts.append(pm.set_first_order_absorption(starts[0]))
    setters = [
        lambda m: pm.set_peripheral_compartments(m, 1), lambda m: pm.set_peripheral_compartments(m, 2),
        lambda m: pm.set_peripheral_compartments(m, 3), pm.set_first_order_absorption, pm.set_zero_order_absorption,
        pm.set_michaelis_menten_elimination, pm.set_first_order_elimination, pm.set_mixed_mm_fo_elimination,
        pm.set_instantaneous_absorption, lambda m: pm.set_transit_compartments(m, 2),
    ]
    import pharmpy.model.external.nonmem.update as u
    seen = []
    orig = u.new_advan_trans

    def spy(model):
        seen.append(model)
        return orig(model)

    u.new_advan_trans = spy
    try:
        for s0 in starts:
            for f in setters:
                try:
                    m1 = f(s0)
                except Exception:
                    continue
                if tier == 'thorough':
                    for g in setters:
                        try:
                            g(m1)
                        except Exception:
                            pass
    finally:
        u.new_advan_trans = orig
    for m in seen:
        yield {'model': m}
