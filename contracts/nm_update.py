"""Contracts for src/pharmpy/model/external/nonmem/update.py (serves C04, C02)."""
from pyvc.api import *

M = ModuleSpec('src/pharmpy/model/external/nonmem/update.py', prop='C04')
Param = Opaque('Param', name=Str)
P = Tuple(Int, Param)

po = M.fold('po', Seq(P), Seq(Param), '[]', 'lambda acc, e: acc + [e[1]] if e[0] <= 0 else acc',
            homomorphic=True)
pn = M.fold('pn', Seq(P), Seq(Param), '[]', 'lambda acc, e: acc + [e[1]] if e[0] >= 0 else acc',
            homomorphic=True)

M.contract(
    'reorder_diff',
    params={'diff': Seq(P), 'kept_names': SetOf(Str)},
    returns=Seq(P),
    locals={'new_diff': Seq(P), 'handled': SetOf(Int)},
    requires=[
        'all(-1 <= e[0] <= 1 for e in diff)',
        # the script comes from lcs.diff(old, new) of two Parameters collections: names are unique
        # within the old and within the new sequence
        'all(implies(p != q and diff[p][0] <= 0 and diff[q][0] <= 0, diff[p][1].name != diff[q][1].name)'
        ' for p in range(len(diff)) for q in range(len(diff)))',
        'all(implies(p != q and diff[p][0] >= 0 and diff[q][0] >= 0, diff[p][1].name != diff[q][1].name)'
        ' for p in range(len(diff)) for q in range(len(diff)))',
    ],
    ensures=[
        # the reordered script still describes the same old and the same new parameter sequence
        'po(result) == po(diff)',
        'pn(result) == pn(diff)',
    ],
    loops=[
        Loop(counter='k0', inv=[
            'po(new_diff) == po(diff[:k0])',
            'all(implies(q in handled, diff[q][0] == 1) for q in range(len(diff)))',
        ]),
        Loop(counter='k1', ghost={'N1': 'new_diff', 'H1': 'handled'}, inv=[
            'new_diff == N1',
            'handled == H1',
        ]),
    ],
)

TRUSTED = ['sequence theory of pyvc.sym', 'Parameter objects are opaque values with a `name`; '
           'set of names as characteristic function']


def gen_reorder_inputs(tier):
    import itertools
    from pyvc.native import Opq

    n = 4 if tier == 'quick' else 5
    names = ['a', 'b', 'c']
    # two generations of each parameter (same name, different object) model "changed" parameters
    params = [Opq('Param', f'{nm}{g}', {'name': nm}) for nm in names for g in (0, 1)]
    entries = [(op, p) for op in (-1, 0, 1) for p in params[:4]]
    for k in range(n + 1):
        for combo in itertools.product(entries, repeat=k):
            if k == n and tier == 'quick' and combo[0][0] == 0:
                continue
            for kept in ({'a'}, {'a', 'b'}, set()):
                yield {'diff': list(combo), 'kept_names': set(kept)}


M.contracts['reorder_diff'].domain = 'gen_reorder_inputs'
