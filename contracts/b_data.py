"""Bounded contract checks for the dataset properties C14 (derivations) and C13 (reading).

Both checks enumerate a finite domain exhaustively (no sampling) and compare the REAL pharmpy
functions with independent references written in this file:

* bounded_dataset_derivations: a per-individual, chronological walk over the event records
  (property C14, functions of src/pharmpy/modeling/data.py); every derivation is also held to
  the frame "the input model's dataset is not modified" (property C06), on datasets with
  numeric TIME as well as with NM-TRAN clock TIME and DATE columns, with EVID and MDV columns
  that disagree on some records, and with covariates that are missing on some records; the
  expansion of additional doses also with several additional doses per record and dosing
  intervals that span later records, on ordinary doses and on EVID=4 reset-and-dose records
* bounded_dataset_reading: a reference NM-TRAN reader written from docs/NONMEM.rst
  (property C13, src/pharmpy/model/external/nonmem/dataset.py, modeling/write_csv.py) and the
  write/read cycles of datasets through generated model code (also for a model with its own
  missing data token, and for data / model files whose names contain characters or keywords with
  a meaning in $DATA), IGNORE/ACCEPT filters on columns that have a synonym in $INPUT

Every entry of 'fails' carries 'also': all failing cases of its (fid, clause) key in
enumeration order (capped), see tools/BOUNDED_GUIDE.md.

The results are labelled "bounded"; nothing here is a proof.
"""

import itertools
import math
import multiprocessing
import os
import re
import shutil
import tempfile
import warnings

warnings.filterwarnings('ignore')
for _v in ('OMP_NUM_THREADS', 'OPENBLAS_NUM_THREADS', 'MKL_NUM_THREADS', 'NUMEXPR_NUM_THREADS',
           'NUMEXPR_MAX_THREADS'):
    os.environ.setdefault(_v, '1')  # the checks are parallel over cases, not inside a case

import numpy as np  # noqa: E402
import pandas as pd  # noqa: E402

DATA_PY = 'src/pharmpy/modeling/data.py'
DATASET_PY = 'src/pharmpy/model/external/nonmem/dataset.py'
WRITE_CSV_PY = 'src/pharmpy/modeling/write_csv.py'
MODEL_PY = 'src/pharmpy/model/model.py'

NPROC = 16
ALSO_CAP = 300  # length of the 'also' list of a failing clause (tools/BOUNDED_GUIDE.md)

# ======================================================================================
# Part 1: dataset derivations (C14)
# ======================================================================================

# kind of an event record -> what the record is
#   evid: the NM-TRAN event id of the record, dose: record administers a dose,
#   addl/ss/cmt: value of the optional column, mdv: explicit missing observation
KINDS = {
    'o': dict(evid=0, dose=False),
    'm': dict(evid=2, dose=False, mdv=1),  # MDV=1, AMT=0: neither observation nor dose
    'd': dict(evid=1, dose=True),
    'da': dict(evid=1, dose=True, addl=1),
    'ds': dict(evid=1, dose=True, ss=1),
    'r': dict(evid=3, dose=False),
    'R': dict(evid=4, dose=True),
    'Ra': dict(evid=4, dose=True, addl=1),
    'd1': dict(evid=1, dose=True, cmt=1),
    'd2': dict(evid=1, dose=True, cmt=2),
    'R1': dict(evid=4, dose=True, cmt=1),
    'R2': dict(evid=4, dose=True, cmt=2),
    # records on which an EVID and an MDV column disagree about "observation":
    'om': dict(evid=0, dose=False, mdv=1),  # observation event whose DV is missing (MDV=1)
    'x': dict(evid=2, dose=False, mdv=0),  # other-type event that carries MDV=0
    # doses with more than one additional dose / a dosing interval of more than one time step
    'da2': dict(evid=1, dose=True, addl=2),
    'dai2': dict(evid=1, dose=True, addl=1, ii=2),
    'Ra2': dict(evid=4, dose=True, addl=2),
    'Rai2': dict(evid=4, dose=True, addl=1, ii=2),
}

# schema: which optional columns exist, the name of the id column, the model around the data
#   model 'iv'     : one compartment CENTRAL(1), dose into CENTRAL with admid 1
#   model 'ivoral' : DEPOT(1) [admid 1], CENTRAL(2) [admid 2]
SCHEMAS = {
    'base': dict(model='iv', id='ID', cols=[], kinds=['o', 'd']),
    'nodose': dict(model='iv', id='ID', cols=[], kinds=['o'], nodose=True),
    'evid': dict(model='iv', id='ID', cols=['EVID'], kinds=['o', 'd', 'r', 'R']),
    'mdv': dict(model='iv', id='ID', cols=['MDV'], kinds=['o', 'm', 'd']),
    'evid_mdv_rate': dict(
        model='iv', id='ID', cols=['EVID', 'MDV', 'RATE'], kinds=['o', 'd', 'r', 'R'], small=True
    ),
    'addl': dict(model='iv', id='ID', cols=['ADDL', 'II'], kinds=['o', 'd', 'da']),
    'evid_addl': dict(
        model='iv', id='ID', cols=['EVID', 'ADDL', 'II'], kinds=['o', 'da', 'r', 'Ra']
    ),
    'ss': dict(model='iv', id='ID', cols=['SS'], kinds=['o', 'd', 'ds']),
    'subj_evid': dict(
        model='iv', id='SUBJ', cols=['EVID'], kinds=['o', 'd', 'r', 'R'], small=True
    ),
    'subj_addl': dict(
        model='iv', id='SUBJ', cols=['EVID', 'ADDL', 'II'], kinds=['o', 'd', 'da']
    ),
    'cmt': dict(model='ivoral', id='ID', cols=['CMT'], kinds=['o', 'd1', 'd2']),
    'cmt_evid': dict(
        model='ivoral', id='ID', cols=['EVID', 'CMT'], kinds=['o', 'd1', 'd2', 'R1']
    ),
    'admid_evid': dict(model='ivoral', id='ID', cols=['EVID', 'ADMID'], kinds=['o', 'd1', 'd2']),
    # NM-TRAN time items: TIME is a text column (datatype nmtran-time) with clock times h:mm,
    # optionally together with a date column (datatype nmtran-date): a day number or a calendar
    # date in the order of the column name (DATE m/d/y, DAT1 d/m/y, DAT2 y/m/d, DAT3 y/d/m)
    'clock': dict(model='iv', id='ID', cols=[], kinds=['o', 'd'], timefmt='clock'),
    'daynum': dict(model='iv', id='ID', cols=[], kinds=['o', 'd'], timefmt='daynum',
                   datecol='DATE'),
    'date': dict(model='iv', id='ID', cols=[], kinds=['o', 'd'], timefmt='cal', datecol='DATE'),
    'date_evid': dict(model='iv', id='ID', cols=['EVID'], kinds=['o', 'd', 'R'], timefmt='cal',
                      datecol='DATE', small=True),
    'dat1': dict(model='iv', id='ID', cols=[], kinds=['o', 'd'], timefmt='cal', datecol='DAT1',
                 thorough=True),
    'dat2': dict(model='iv', id='ID', cols=[], kinds=['o', 'd'], timefmt='cal', datecol='DAT2',
                 thorough=True),
    'dat3': dict(model='iv', id='ID', cols=[], kinds=['o', 'd'], timefmt='cal', datecol='DAT3',
                 thorough=True),
    # BOTH an EVID and an MDV column, disagreeing on some records (EVID=0 with MDV=1, EVID=2 with
    # MDV=0).  The MDV column says which records carry an observation, the EVID column is the
    # event id.  Only the derivations that read these two columns (and the dose / baseline
    # subsets) are evaluated on these datasets: see OBS_FUNCS.
    'evid_mdv': dict(model='iv', id='ID', cols=['EVID', 'MDV'], kinds=['o', 'om', 'x', 'd'],
                     only='obs'),
    'subj_mdv_evid': dict(model='iv', id='SUBJ', cols=['MDV', 'EVID'], kinds=['o', 'om', 'x', 'd'],
                          only='obs', small=True),
    # ADDL/II with SEVERAL additional doses (ADDL=2, II=1) and with a dosing interval that spans
    # other records (ADDL=1, II=2), on ordinary doses and on EVID=4 reset-and-dose records: the
    # additional doses interleave with the records that follow their dose record.  Only the
    # expansion of the additional doses is evaluated on these datasets: see ONLY_FUNCS.
    # (same number of records in both tiers: fixed=True)
    'addl_multi': dict(model='iv', id='ID', cols=['ADDL', 'II'], kinds=['o', 'da2', 'dai2'],
                       only='expand', fixed=True),
    'evid_addl_multi': dict(model='iv', id='ID', cols=['EVID', 'ADDL', 'II'],
                            kinds=['o', 'da2', 'dai2', 'Ra2', 'Rai2'], only='expand', fixed=True),
}

# the derivations evaluated on the schemas with only='obs'
OBS_FUNCS = ('get_mdv', 'get_evid', 'get_observations', 'get_number_of_observations',
             'get_number_of_observations_per_individual', 'get_doses', 'get_baselines',
             'list_time_varying_covariates')
# schema key 'only' -> the derivations evaluated on the datasets of the schema
ONLY_FUNCS = {'obs': OBS_FUNCS, 'expand': ('expand_additional_doses',)}

# Rendering of the enumerated time t (0, 1, 2, ...) as NM-TRAN items.  The record walk works on
# the elapsed hours; the items are written from the hours, never parsed back.
#   clock : t -> 1.5 h steps, TIME h:mm
#   daynum: t -> 12 h steps, DATE = day number (1, 1, 2, ...), TIME = 0:00 / 12:00
#   cal   : t -> 12 h steps starting 2001-02-28 0:00 (crosses a month boundary of a non leap year)
TIME_STEP = {'clock': 1.5, 'daynum': 12.0, 'cal': 12.0}
_CAL_DAYS = [(2001, 2, 28), (2001, 3, 1), (2001, 3, 2), (2001, 3, 3)]
_CAL_ORDER = {'DATE': 'mdy', 'DAT1': 'dmy', 'DAT2': 'ymd', 'DAT3': 'ydm'}


def _time_items(timefmt, datecol, t):
    """(elapsed hours, TIME item, DATE item or None) of the enumerated time t"""
    hours = TIME_STEP[timefmt] * t
    if timefmt == 'clock':
        minutes = int(round(hours * 60))
        return hours, f'{minutes // 60}:{minutes % 60:02d}', None
    day, half = divmod(int(t), 2)
    clock = '12:00' if half else '0:00'
    if timefmt == 'daynum':
        return hours, clock, str(day + 1)
    y, m, d = _CAL_DAYS[day]
    parts = {'y': str(y), 'm': str(m), 'd': str(d)}
    return hours, clock, '/'.join(parts[k] for k in _CAL_ORDER[datecol])

COLTYPES = {
    'TIME': ('idv', 'float64'),
    'AMT': ('dose', 'float64'),
    'DV': ('dv', 'float64'),
    'EVID': ('event', 'int32'),
    'MDV': ('mdv', 'int32'),
    'RATE': ('rate', 'float64'),
    'ADDL': ('additional', 'int32'),
    'II': ('ii', 'int32'),
    'SS': ('ss', 'int32'),
    'CMT': ('compartment', 'int32'),
    'ADMID': ('admid', 'int32'),
    'WGT': ('covariate', 'float64'),
    'AGE': ('covariate', 'float64'),
}
DEFAULT_AMTS = (50.0, 100.0)  # amounts of the dose records in even / odd file position

_MODELS = {}


def _base_model(kind):
    if kind not in _MODELS:
        from pharmpy.modeling import create_basic_pk_model

        _MODELS[kind] = create_basic_pk_model(kind)
    return _MODELS[kind]


def _is_reset(kind):
    return KINDS[kind]['evid'] >= 3


# ---------------------------------------------------------------------------------------
# building the data frame and the model of a case
#   case = {'schema': name, 'ids': [3, 7], 'inds': [[(time, kind), ...], ...]}
# ---------------------------------------------------------------------------------------


def _records(case):
    """Flat list of records (dicts) in file order with everything the reference needs"""
    sch = SCHEMAS[case['schema']]
    amts = case.get('amts') or DEFAULT_AMTS
    timefmt = sch.get('timefmt')
    recs = []
    gi = 0
    for pos, (idval, seq) in enumerate(zip(case['ids'], case['inds'])):
        rg = 0
        last_admid = 1
        for j, (t, kind) in enumerate(seq):
            K = KINDS[kind]
            gi += 1
            if K['evid'] >= 3:
                rg += 1
            dose = K['dose'] and not sch.get('nodose')
            cmt = K.get('cmt', 2 if sch['model'] == 'ivoral' else 1)
            if dose and 'cmt' in K:
                last_admid = K['cmt']  # ivoral: compartment n <-> admid n
            if timefmt:
                hours, time_item, date_item = _time_items(timefmt, sch.get('datecol'), t)
            else:
                hours, time_item, date_item = float(t), float(t), None
            rec = dict(
                pos=pos,
                idval=idval,
                j=j,
                row=gi - 1,
                time=hours,
                time_item=time_item,
                date_item=date_item,
                kind=kind,
                dose=dose,
                evid=K['evid'],
                rg=rg,
                amt=float(amts[gi % 2]) if dose else 0.0,
                dv=10.0 + gi,
                addl=K.get('addl', 0),
                ii=K.get('ii', 1) if K.get('addl', 0) else 0,
                ss=K.get('ss', 0),
                cmt=cmt,
                admid_in=last_admid,
                mdv_in=K['mdv'] if 'mdv' in K else (1 if K['evid'] != 0 else 0),
            )
            recs.append(rec)
    return recs


def _cov_patterns(n):
    """Every way a covariate can change over the n records of an individual relative to its
    first record (0 = value of the first record, 1 = another value), constant one excluded.
    The first pattern is 0..01 (only the last record differs)."""
    pats = [p for p in itertools.product((0, 1), repeat=n) if p[0] == 0 and any(p)]
    pats.sort(key=lambda p: (p != (0,) * (n - 1) + (1,), p))
    return pats


def _missing_patterns(n):
    """Every way in which a covariate can be missing on the n records of an individual
    (1 = missing on that record), at least one record missing"""
    return [p for p in itertools.product((0, 1), repeat=n) if any(p)]


def _build_df_missing(case):
    """The dataset of a case (constant covariates WGT, AGE) plus, for every individual (file
    position p) and every way q of being missing over its records, one covariate column
    NA<p>_<q> that is missing (NaN) on exactly those records of that individual, e.g. NA0_10:
    missing on the first of the two records of the first individual.  Where the column has a
    value, the value is 5 + row number (no two records have the same value)."""
    df, _ = _build_df(case, 'const')
    recs = _records(case)
    n = len(recs)
    for p in range(len(case['ids'])):
        rows = [r['row'] for r in recs if r['pos'] == p]
        for pat in _missing_patterns(len(rows)):
            col = [5.0 + i for i in range(n)]
            for row, bit in zip(rows, pat):
                if bit:
                    col[row] = math.nan
            df[f'NA{p}_' + ''.join(str(b) for b in pat)] = np.array(col, dtype=np.float64)
    return df


def _build_df(case, cov='const'):
    """The dataset of a case.  cov='const': the covariates WGT and AGE are constant within
    every individual.  cov='first'/'last': in the first/last individual (if it has >=2 records)
    AGE differs on the last record only and, for every other way of changing over the records
    of that individual (e.g. 0,1,0: changes and returns to the value of the first record), there
    is one more covariate column CV<pattern>.  Returns (frame, names of the time varying
    covariates)."""
    sch = SCHEMAS[case['schema']]
    recs = _records(case)
    idname = sch['id']
    npos = len(case['ids'])
    nper = [len(s) for s in case['inds']]
    n = len(recs)
    f8, i8 = np.float64, np.int64
    data = {idname: np.array([r['idval'] for r in recs], dtype=i8)}
    if sch.get('timefmt'):
        data['TIME'] = [r['time_item'] for r in recs]
        if sch.get('datecol'):
            data[sch['datecol']] = [r['date_item'] for r in recs]
    else:
        data['TIME'] = np.array([r['time'] for r in recs], dtype=f8)
    if not sch.get('nodose'):
        data['AMT'] = np.array([r['amt'] for r in recs], dtype=f8)
    data['DV'] = np.array([r['dv'] for r in recs], dtype=f8)
    for c in sch['cols']:
        if c == 'EVID':
            data[c] = np.array([r['evid'] for r in recs], dtype=i8)
        elif c == 'MDV':
            data[c] = np.array([r['mdv_in'] for r in recs], dtype=i8)
        elif c == 'RATE':
            data[c] = np.zeros(n, dtype=f8)
        elif c == 'ADDL':
            data[c] = np.array([r['addl'] for r in recs], dtype=i8)
        elif c == 'II':
            data[c] = np.array([r['ii'] for r in recs], dtype=i8)
        elif c == 'SS':
            data[c] = np.array([r['ss'] for r in recs], dtype=i8)
        elif c == 'CMT':
            data[c] = np.array([r['cmt'] for r in recs], dtype=i8)
        elif c == 'ADMID':
            data[c] = np.array([r['admid_in'] for r in recs], dtype=i8)
    data['WGT'] = np.array([70.0 + r['pos'] for r in recs], dtype=f8)
    base = [30.0 + r['pos'] for r in recs]
    varying = []
    extra = {}
    age = list(base)
    if cov in ('first', 'last'):
        p = 0 if cov == 'first' else npos - 1
        if nper[p] >= 2:
            rows = [r['row'] for r in recs if r['pos'] == p]
            for k, pat in enumerate(_cov_patterns(nper[p])):
                col = list(base)
                for row, bit in zip(rows, pat):
                    col[row] += float(bit)
                if k == 0:
                    age = col
                    varying.append('AGE')
                else:
                    name = 'CV' + ''.join(str(b) for b in pat)
                    extra[name] = col
                    varying.append(name)
    data['AGE'] = np.array(age, dtype=f8)
    for name, col in extra.items():
        data[name] = np.array(col, dtype=f8)
    return pd.DataFrame(data), varying


_DI_CACHE = {}


def _build_di(df, idname, schema=None):
    sch = SCHEMAS.get(schema, {})
    key = (tuple(df.columns), idname, sch.get('timefmt'))
    if key not in _DI_CACHE:
        _DI_CACHE[key] = _build_di_uncached(df, idname, sch)
    return _DI_CACHE[key]


_UNITLESS = []


def _build_di_uncached(df, idname, sch):
    from pharmpy.model import ColumnInfo, DataInfo

    if not _UNITLESS:
        # the default unit of a column; built once because its construction is slow
        _UNITLESS.append(ColumnInfo.create('X').unit)
    u = _UNITLESS[0]
    cols = []
    for c in df.columns:
        if c == idname:
            cols.append(ColumnInfo.create(c, type='id', datatype='int32', unit=u))
        elif c == 'TIME' and sch.get('timefmt'):
            cols.append(ColumnInfo.create(c, type='idv', scale='ratio', datatype='nmtran-time',
                                          unit=u))
        elif c == sch.get('datecol'):
            cols.append(ColumnInfo.create(c, scale='interval', datatype='nmtran-date', unit=u))
        elif c.startswith('CV') or c.startswith('NA'):
            cols.append(ColumnInfo.create(c, type='covariate', datatype='float64', unit=u))
        else:
            tp, dt = COLTYPES[c]
            cols.append(ColumnInfo.create(c, type=tp, datatype=dt, unit=u))
    return DataInfo.create(cols)


def _fresh_model(case, df0, di):
    base = _base_model(SCHEMAS[case['schema']]['model'])
    return base.replace(dataset=df0.copy(deep=True), datainfo=di)


# ---------------------------------------------------------------------------------------
# the reference: per-individual chronological walk
# ---------------------------------------------------------------------------------------


def _walk_doseid(recs, expand):
    """Dose period of every ORIGINAL record by a walk over each individual's events.

    expand=True inserts the additional doses (ADDL/II) as separate dose events at
    time + k*II (k=1..ADDL) in chronological position inside the reset group of their record.
    Rule (docstring of get_doseid): a non-dose record at the time of a dose belongs to the
    preceding dose interval; at the first dose (of the individual or after a reset) there is
    no preceding interval and both the period before and the period of that dose are accepted.
    A steady state dose keeps the records at its time (comment in get_doseid).
    Records of different reset groups (separated by EVID 3/4) are never at "the same time".
    Returns (doseid list, tad list) indexed by original row; a doseid is a tuple of the allowed
    values; tad None = not specified by the property (no dose yet, no dose since the last
    reset, or a record at the time of the individual's first dose).
    """
    n = len(recs)
    doseid = [None] * n
    tad = [None] * n
    for pos in sorted(set(r['pos'] for r in recs)):
        mine = [r for r in recs if r['pos'] == pos]
        events = []
        for rg in sorted(set(r['rg'] for r in mine)):
            grp = []
            for r in mine:
                if r['rg'] != rg:
                    continue
                grp.append((r['time'], r, False))
                if expand and r['dose']:
                    for k in range(1, r['addl'] + 1):
                        grp.append((r['time'] + k * r['ii'], r, True))
            grp.sort(key=lambda e: e[0])  # stable
            events.extend(grp)
        doses = []  # (time, rg, ss)
        for t, r, expanded in events:
            if r['dose']:
                doses.append((t, r['rg'], r['ss'] if not expanded else 0))
                if not expanded:
                    doseid[r['row']] = (len(doses),)
                    tad[r['row']] = 0.0
            else:

                def tied(k):
                    d = doses[k - 1]
                    return d[0] == t and d[1] == r['rg'] and not d[2]

                def first_in_group(k):
                    return k == 1 or doses[k - 2][1] != doses[k - 1][1]

                k = len(doses)
                while k >= 1 and tied(k) and not first_in_group(k):
                    k -= 1
                if k >= 1 and tied(k):
                    # at the time of the first dose of the individual (or of the first dose
                    # after a reset) there is no preceding dose interval: the docstring rule
                    # gives the period before that dose, the code comment keeps the record with
                    # the first dose; the property does not decide -> either
                    doseid[r['row']] = (k - 1, k)
                else:
                    doseid[r['row']] = (k,)
                    if k >= 1 and doses[k - 1][1] == r['rg']:
                        tad[r['row']] = t - doses[k - 1][0]
    return doseid, tad


def _features(recs, expand):
    """Classification of a dataset (used to key the equality clauses)"""
    has_reset = any(r['evid'] >= 3 for r in recs)
    multi = False
    keys = {}
    for r in recs:
        times = [r['time']]
        if expand and r['dose']:
            times += [r['time'] + k * r['ii'] for k in range(1, r['addl'] + 1)]
        for t in times:
            d = keys.setdefault((r['pos'], r['rg'], t), [0, 0])
            d[0 if r['dose'] else 1] += 1
    for nd, nn in keys.values():
        if nd >= 2 and nn >= 1:
            multi = True
    if has_reset:
        return ' (dataset with EVID 3/4 reset records)'
    if multi:
        return ' (several doses at the time of a non-dose record)'
    if any(r['date_item'] is not None for r in recs):
        return ' (dataset with NM-TRAN DATE and TIME columns)'
    return ''


def _reference(case):
    sch = SCHEMAS[case['schema']]
    recs = _records(case)
    cols = sch['cols']
    ref = {'recs': recs}
    nodose = bool(sch.get('nodose'))
    # observation / mdv / evid
    if 'MDV' in cols:
        mdv = [r['mdv_in'] for r in recs]
        obs = [m == 0 for m in mdv]
    elif 'EVID' in cols:
        mdv = [1 if r['evid'] != 0 else 0 for r in recs]
        obs = [r['evid'] == 0 for r in recs]
    elif not nodose:
        mdv = [1 if r['dose'] else 0 for r in recs]
        obs = [not r['dose'] for r in recs]
    else:
        mdv = [0 for r in recs]
        obs = [True for r in recs]
    ref['mdv'] = mdv
    ref['obs'] = obs
    if 'EVID' in cols:
        ref['evid'] = [r['evid'] for r in recs]
    else:
        # NM-TRAN default: 1 dose, 0 observation, 2 other (MDV=1 without dose)
        ref['evid'] = [1 if r['dose'] else (0 if o else 2) for r, o in zip(recs, obs)]
    ref['doseid'], _ = _walk_doseid(recs, expand=False)
    _, ref['tad'] = _walk_doseid(recs, expand=True)
    # administration id: dose -> admid of its compartment, other records -> last used admid
    # of the individual (None = unspecified: no dose yet in this individual)
    if 'ADMID' in cols:
        ref['admid'] = [r['admid_in'] for r in recs]
    else:
        adm = []
        last = {}
        for r in recs:
            if r['dose']:
                a = r['cmt'] if sch['model'] == 'ivoral' else 1
                last[r['pos']] = a
                adm.append(a)
            else:
                adm.append(last.get(r['pos']))
        ref['admid'] = adm
    # compartment
    if 'CMT' in cols:
        ref['cmt'] = [r['cmt'] for r in recs]
    elif 'ADMID' in cols:
        # dose -> compartment of the administration route, observation -> central (2)
        ref['cmt'] = [r['admid_in'] if r['dose'] else 2 for r in recs]
    else:
        # dose / non-dose only: dose -> dosing compartment (1), everything else 0
        ref['cmt'] = [1 if r['dose'] else 0 for r in recs]
    return ref


# ---------------------------------------------------------------------------------------
# comparison helpers
# ---------------------------------------------------------------------------------------


def _same_df(a, b):
    """Same columns, index, dtypes and values (NaN equal to NaN)"""
    if not isinstance(a, pd.DataFrame):
        return False
    if a is b:
        return True
    if list(a.columns) != list(b.columns):
        return False
    if len(a) != len(b) or not a.index.equals(b.index):
        return False
    if list(a.dtypes) != list(b.dtypes):
        return False
    return bool(a.equals(b))


def _same_values(a, b, cols):
    """Same records, values and order for the given columns (dtype not compared); a text
    column (NM-TRAN TIME / DATE items) must hold the same items"""
    if len(a) != len(b):
        return False
    if list(a.index) != list(b.index):
        return False
    for c in cols:
        if c not in a.columns:
            return False
        if b[c].dtype.kind not in 'iufb':
            if [str(v) for v in a[c].tolist()] != [str(v) for v in b[c].tolist()]:
                return False
            if a[c].dtype.kind in 'iufb':
                return False
            continue
        try:
            x = np.asarray(a[c].to_numpy(), dtype=float)
            y = np.asarray(b[c].to_numpy(), dtype=float)
        except (TypeError, ValueError):
            return False
        if not np.array_equal(x, y):
            return False
    return True


def _flist(x):
    out = []
    for v in x:
        try:
            out.append(float(v))
        except (TypeError, ValueError):
            out.append(repr(v))
    return out


def _series_is(ser, values, index=None, name=None):
    """ser is a Series with exactly these values (and index / name if given)"""
    if not isinstance(ser, pd.Series):
        return False, f'not a Series: {type(ser).__name__} {ser!r}'
    got = _flist(ser.tolist())
    if got != [float(v) for v in values]:
        return False, f'values {got} expected {list(values)}'
    if index is not None and list(ser.index) != list(index):
        return False, f'index {list(ser.index)} expected {list(index)}'
    if name is not None and ser.name != name:
        return False, f'name {ser.name!r} expected {name!r}'
    return True, ''


RENDER = [True]  # workers switch the rendering of details off; the parent re-runs the
#                   smallest failing case of every clause with rendering on


class _Lazy:
    """Text that is only rendered when a clause fails (and details are wanted)"""

    def __init__(self, *parts):
        self.parts = parts

    def __str__(self):
        if not RENDER[0]:
            return ''
        out = []
        for p in self.parts:
            out.append(p.to_string() if isinstance(p, pd.DataFrame) else str(p))
        return ''.join(out)

    def __format__(self, spec):
        return str(self)


class _Ctx:
    def __init__(self, case):
        self.case = case
        self.fails = []  # (function name, clause, detail)

    def fail(self, fn, clause, detail):
        self.fails.append((fn, clause, str(detail)[:600] if RENDER[0] else ''))


DOCUMENTED_ERRORS = {
    # function -> schema predicate under which DatasetError is the documented outcome
    'get_doses': lambda sch: sch.get('nodose'),
    'get_doseid': lambda sch: sch.get('nodose'),
    'add_time_after_dose': lambda sch: sch.get('nodose'),
}


_NOT_EVALUATED = 'not evaluated on this schema'  # returned by _call in place of an exception


def _call(ctx, fname, df0, di, **kwargs):
    """Call pharmpy.modeling.<fname> on a fresh model around a private copy of df0.

    Checks the frame (input model's dataset untouched, also when raising) and the
    "only documented exceptions" clause.  Returns (result, raised)."""
    import pharmpy.modeling as pm
    from pharmpy.model import DatasetError

    sch = SCHEMAS[ctx.case['schema']]
    if sch.get('only') and fname not in ONLY_FUNCS[sch['only']]:
        return None, _NOT_EVALUATED
    model = _fresh_model(ctx.case, df0, di)
    given = model.dataset
    res = None
    raised = None
    try:
        res = getattr(pm, fname)(model, **kwargs)
    except Exception as e:  # noqa: BLE001
        raised = e
    after = model.dataset
    if not _same_df(given, df0) or (after is not given and not _same_df(after, df0)):
        ctx.fail(
            fname,
            "the input model's dataset is not modified",
            f'columns after the call {list(given.columns)}, before {list(df0.columns)}; '
            f'dtypes after {[str(t) for t in given.dtypes]}, before '
            f'{[str(t) for t in df0.dtypes]}; data after\n{_Lazy(given)}',
        )
    if raised is not None:
        documented = (
            isinstance(raised, DatasetError)
            and fname in DOCUMENTED_ERRORS
            and DOCUMENTED_ERRORS[fname](sch)
        )
        if not documented:
            ctx.fail(
                fname,
                f'no internal error (only documented exceptions) [{type(raised).__name__}]',
                f'{type(raised).__name__}: {raised}\n{_Lazy(df0)}',
            )
    elif fname in DOCUMENTED_ERRORS and DOCUMENTED_ERRORS[fname](sch):
        ctx.fail(fname, 'DatasetError when no dose column can be identified', f'returned {res!r}')
        res = None
    return res, raised


# ---------------------------------------------------------------------------------------
# the contracts
# ---------------------------------------------------------------------------------------


def _check_case(case):
    """Evaluate every contract on one dataset; returns (fails, nontrivial)"""
    from pharmpy.model import Model

    ctx = _Ctx(case)
    sch = SCHEMAS[case['schema']]
    idname = sch['id']
    cols = sch['cols']
    df0, _ = _build_df(case)
    di = _build_di(df0, idname, case['schema'])
    ref = _reference(case)
    recs = ref['recs']
    n = len(recs)
    rows = list(range(n))
    desc = _Lazy(df0)
    has_m = any(r['kind'] == 'm' for r in recs)
    msuffix = ' (MDV=1 record without dose)' if (has_m and 'EVID' not in cols) else ''

    # ---- get_mdv -------------------------------------------------------------------
    res, err = _call(ctx, 'get_mdv', df0, di)
    if err is None:
        ok, why = _series_is(res, ref['mdv'], index=rows, name='MDV')
        if not ok:
            ctx.fail('get_mdv', 'MDV of every record equals the record walk', f'{why}\n{desc}')

    # ---- get_evid ------------------------------------------------------------------
    res, err = _call(ctx, 'get_evid', df0, di)
    if err is None:
        ok, why = _series_is(res, ref['evid'], index=rows, name='EVID')
        if not ok:
            ctx.fail(
                'get_evid', 'EVID of every record equals the record walk' + msuffix,
                f'{why}\n{desc}',
            )

    # ---- get_observations ----------------------------------------------------------
    obsrows = [i for i in rows if ref['obs'][i]]
    time_items = [r['time_item'] for r in recs]  # the TIME items as they stand in the dataset
    exp_index = [(recs[i]['idval'], time_items[i]) for i in obsrows]
    exp_dv = [recs[i]['dv'] for i in obsrows]
    res, err = _call(ctx, 'get_observations', df0, di)
    if err is None:
        ok, why = _series_is(res, exp_dv, index=exp_index, name='DV')
        if ok and list(res.index.names) != [idname, 'TIME']:
            ok, why = False, f'index names {list(res.index.names)}'
        if not ok:
            ctx.fail(
                'get_observations',
                'the observations are exactly the DV of the observation records indexed by '
                '(id, time) in record order',
                f'{why}\n{desc}',
            )
    res, err = _call(ctx, 'get_observations', df0, di, keep_index=True)
    if err is None:
        ok, why = _series_is(res, exp_dv, index=obsrows, name='DV')
        if not ok:
            ctx.fail(
                'get_observations',
                'keep_index=True gives the DV of the observation records with their row index',
                f'{why}\n{desc}',
            )

    # ---- get_number_of_observations(_per_individual) ----------------------------------
    res, err = _call(ctx, 'get_number_of_observations', df0, di)
    if err is None:
        if not (isinstance(res, (int, np.integer)) and int(res) == len(obsrows)):
            ctx.fail(
                'get_number_of_observations',
                'the count equals the number of observation records',
                f'got {res!r} expected {len(obsrows)}\n{desc}',
            )
    res, err = _call(ctx, 'get_number_of_observations_per_individual', df0, di)
    if err is None:
        counts = {}
        for idval in case['ids']:
            counts[idval] = 0
        for i in obsrows:
            counts[recs[i]['idval']] += 1
        ok = isinstance(res, pd.Series)
        why = '' if ok else f'not a Series: {res!r}'
        if ok:
            got = {k: int(v) for k, v in res.items()}
            # an individual without observations may be absent or counted as 0
            full = dict(counts)
            nonzero = {k: v for k, v in counts.items() if v > 0}
            ok = got == full or got == nonzero
            why = f'got {got} expected {full}'
            if ok and (res.name != 'observation_count' or res.index.name != idname):
                ok, why = False, f'name {res.name!r} index name {res.index.name!r}'
        if not ok:
            ctx.fail(
                'get_number_of_observations_per_individual',
                'the count per individual equals the number of its observation records',
                f'{why}\n{desc}',
            )

    # ---- get_doses -----------------------------------------------------------------
    doserows = [i for i in rows if recs[i]['dose']]
    res, err = _call(ctx, 'get_doses', df0, di)
    if err is None and res is not None:
        ok, why = _series_is(
            res,
            [recs[i]['amt'] for i in doserows],
            index=[(recs[i]['idval'], time_items[i]) for i in doserows],
            name='AMT',
        )
        if not ok:
            ctx.fail(
                'get_doses',
                'the doses are exactly the amounts of the dose records indexed by (id, time) '
                'in record order',
                f'{why}\n{desc}',
            )

    # ---- get_doseid ----------------------------------------------------------------
    res, err = _call(ctx, 'get_doseid', df0, di)
    if err is None and res is not None:
        ok = isinstance(res, pd.Series)
        why = '' if ok else f'not a Series: {res!r}'
        if ok:
            got = _flist(res.tolist())
            ok = len(got) == n and all(g in [float(a) for a in allowed]
                                       for g, allowed in zip(got, ref['doseid']))
            ok = ok and all(isinstance(v, (int, np.integer)) for v in res.tolist())
            why = f'values {res.tolist()} allowed {ref["doseid"]}'
            if ok and (list(res.index) != rows or res.name != 'DOSEID'):
                ok, why = False, f'index {list(res.index)} name {res.name!r}'
        if not ok:
            ctx.fail(
                'get_doseid',
                'DOSEID of every record equals the per-individual walk'
                + _features(recs, expand=False),
                f'{why}\n{desc}',
            )
        elif len(case['ids']) > 1:
            _check_independent(ctx, 'get_doseid', case, df0, di, res, idname, desc)

    # ---- expand_additional_doses ---------------------------------------------------
    for flag in (True, False):
        res, err = _call(ctx, 'expand_additional_doses', df0, di, flag=flag)
        if err is not None:
            continue
        if not isinstance(res, Model):
            ctx.fail('expand_additional_doses', 'returns a model', repr(res))
            continue
        d = res.dataset
        if 'ADDL' not in cols:
            if not _same_df(d, df0):
                ctx.fail(
                    'expand_additional_doses',
                    'without ADDL/II columns the dataset is returned unchanged',
                    f'{_Lazy(d)}\n{desc}',
                )
            continue
        _check_expanded(ctx, df0, d, recs, flag, idname, desc)

    # ---- add_time_after_dose -------------------------------------------------------
    res, err = _call(ctx, 'add_time_after_dose', df0, di)
    if err is None and res is not None:
        _check_tad(ctx, df0, di, res, ref, desc)

    # ---- get_admid / add_admid -----------------------------------------------------
    res, err = _call(ctx, 'get_admid', df0, di)
    if err is None:
        _check_partial(
            ctx, 'get_admid', res, ref['admid'], 'ADMID' if 'ADMID' not in cols else 'ADMID',
            'ADMID of a dose record is the admid of its route and other records carry the last '
            'used admid of the individual',
            desc,
        )
    if err is None and isinstance(res, pd.Series) and len(case['ids']) > 1:
        _check_independent(ctx, 'get_admid', case, df0, di, res, idname, desc)
    res, err = _call(ctx, 'add_admid', df0, di)
    if err is None:
        _check_added(ctx, 'add_admid', df0, di, res, 'ADMID', 'admid', ref['admid'],
                     'ADMID' in cols, desc)

    # ---- get_cmt / add_cmt ---------------------------------------------------------
    res, err = _call(ctx, 'get_cmt', df0, di)
    if err is None:
        _check_partial(
            ctx, 'get_cmt', res, ref['cmt'], None,
            'CMT of every record equals the compartment column or the compartment derived '
            'from the record walk' + msuffix,
            desc,
        )
    res, err = _call(ctx, 'add_cmt', df0, di)
    if err is None:
        _check_added(ctx, 'add_cmt', df0, di, res, 'CMT', 'compartment', ref['cmt'],
                     'CMT' in cols, desc, msuffix)

    # ---- translate_nmtran_time -------------------------------------------------------
    res, err = _call(ctx, 'translate_nmtran_time', df0, di)
    if err is None:
        _check_translated(ctx, df0, res, recs, sch, idname, desc)

    # ---- get_baselines / list_time_varying_covariates (covariate variants) ----------
    # (not evaluated on the schemas that are restricted to other derivations)
    covariate_funcs = not sch.get('only') or 'get_baselines' in ONLY_FUNCS[sch['only']]
    for cov in ('const', 'first', 'last') if covariate_funcs else ():
        dfc, varying = _build_df(case, cov)
        if cov != 'const' and not varying:
            continue
        if cov == 'last' and len(case['ids']) == 1:
            continue
        dic = _build_di(dfc, idname, case['schema'])
        descc = _Lazy(dfc)
        res, err = _call(ctx, 'list_time_varying_covariates', dfc, dic)
        if err is None:
            if not (isinstance(res, list) and sorted(res) == sorted(varying)):
                ctx.fail(
                    'list_time_varying_covariates',
                    'exactly the covariates with more than one value within some individual '
                    'are listed',
                    f'got {res!r} expected {varying}\n{descc}',
                )
        res, err = _call(ctx, 'get_baselines', dfc, dic)
        if err is None:
            firsts = []
            seen = set()
            for r in recs:
                if r['pos'] not in seen:
                    seen.add(r['pos'])
                    firsts.append(r['row'])
            other = [c for c in dfc.columns if c != idname]
            ok = isinstance(res, pd.DataFrame)
            why = '' if ok else f'not a DataFrame: {res!r}'
            if ok:
                # result is indexed by individual; rows compared by id value
                exp_map = {int(dfc[idname][i]): _flist(dfc.loc[i, other].tolist()) for i in firsts}
                try:
                    got_map = {int(k): _flist(res.loc[k, other].tolist()) for k in res.index}
                    ok = got_map == exp_map and res.index.name == idname
                    ok = ok and list(res.columns) == other and len(res) == len(firsts)
                    why = _Lazy('got\n', res)
                except Exception as e:  # noqa: BLE001
                    ok, why = False, f'{type(e).__name__}: {e}\n{res!r}'
            if not ok:
                ctx.fail(
                    'get_baselines',
                    'the baseline of an individual is its first record',
                    f'{why}\n{descc}',
                )

    # ---- get_baselines on covariates that are missing on some records --------------------
    # (docstring of get_baselines: "Baseline is taken to be the first row even if that has a
    # missing value"; the record walk takes the first record of the individual as it stands)
    if covariate_funcs:
        dfm = _build_df_missing(case)
        dim = _build_di(dfm, idname, case['schema'])
        res, err = _call(ctx, 'get_baselines', dfm, dim)
    else:
        res, err = None, _NOT_EVALUATED
    if err is None:
        why = _baselines_differ(res, dfm, recs, idname)
        if why:
            ctx.fail(
                'get_baselines',
                'the baseline of an individual is its first record, also where that record has '
                'missing values',
                f'{why}\n{_Lazy(dfm)}',
            )

    nontrivial = any(r['dose'] for r in recs) and any(not r['dose'] for r in recs)
    return ctx.fails, nontrivial


def _baselines_differ(res, df, recs, idname):
    """None when res holds, per individual, the values of its first record (a missing value
    where that record has a missing value), else what differs"""
    firsts = {}
    for r in recs:
        firsts.setdefault(r['idval'], r['row'])
    other = [c for c in df.columns if c != idname]
    if not isinstance(res, pd.DataFrame):
        return f'not a DataFrame: {res!r}'
    if res.index.name != idname or list(res.columns) != other:
        return f'index name {res.index.name!r}, columns {list(res.columns)} expected {other}'
    try:
        got_ids = [int(k) for k in res.index]
    except (TypeError, ValueError):
        return f'index {list(res.index)}'
    if sorted(got_ids) != sorted(firsts) or len(got_ids) != len(firsts):
        return f'individuals {got_ids} expected {sorted(firsts)}'
    for k, idval in zip(res.index, got_ids):
        exp = _flist(df.loc[firsts[idval], other].tolist())
        got = _flist(res.loc[k, other].tolist())
        if not _same_numbers(got, exp):
            return _Lazy(f'individual {idval}: {got} expected {exp} (columns {other}); got\n', res)
    return None


def _check_translated(ctx, df0, res, recs, sch, idname, desc):
    """translate_nmtran_time: one TIME column in hours.  The origin of the time scale is not
    specified; the elapsed time since the individual's first record is."""
    from pharmpy.model import Model

    fname = 'translate_nmtran_time'
    if not isinstance(res, Model):
        ctx.fail(fname, 'returns a model', repr(res))
        return
    d = res.dataset
    if not sch.get('timefmt'):
        if not _same_df(d, df0):
            ctx.fail(fname, 'without NM-TRAN TIME/DATE items the dataset is returned unchanged',
                     f'{_Lazy(d)}\n{desc}')
        return
    shown = _Lazy('result\n', d, '\ninput\n', desc)
    keep = [c for c in df0.columns if c not in ('TIME', sch.get('datecol'))]
    if not isinstance(d, pd.DataFrame) or 'TIME' not in d.columns or not _same_values(
        d[[c for c in d.columns if c in keep]], df0, keep
    ):
        ctx.fail(fname, 'the records and the values of the other columns are kept in the '
                 'original order', shown)
        return
    try:
        got = [float(v) for v in d['TIME'].tolist()]
    except (TypeError, ValueError):
        got = None
    if got is None or d['TIME'].dtype != np.float64:
        ctx.fail(fname, 'the translated TIME column is numeric (float64)', shown)
        return
    first = {}
    for r in recs:
        first.setdefault(r['pos'], r['row'])
    elapsed = [got[r['row']] - got[first[r['pos']]] for r in recs]
    exp = [r['time'] - recs[first[r['pos']]]['time'] for r in recs]
    if elapsed != exp:
        ctx.fail(fname, "the translated TIME of a record minus that of the individual's first "
                 'record is the elapsed time in hours given by the NM-TRAN DATE and TIME items',
                 f'elapsed {elapsed} expected {exp}\n{shown}')
    try:
        dt = res.datainfo['TIME'].datatype
    except Exception as e:  # noqa: BLE001
        dt = repr(e)
    if dt != 'float64':
        ctx.fail(fname, 'the datainfo describes the translated TIME column as float64',
                 f'datatype {dt}')


def _check_independent(ctx, fname, case, df0, di, res, idname, desc):
    """The derivation is per individual: the values of an individual's records are the ones
    obtained from the dataset that contains only this individual"""
    whole = _flist(res.tolist())
    for idval in case['ids']:
        sel = [i for i in range(len(df0)) if int(df0[idname][i]) == idval]
        sub = df0.iloc[sel].reset_index(drop=True)
        r1, e1 = _call(ctx, fname, sub, di)
        if e1 is not None or not isinstance(r1, pd.Series):
            continue  # reported by the clauses on the one-individual datasets
        alone = _flist(r1.tolist())
        part = [whole[i] for i in sel]
        if alone != part:
            ctx.fail(
                fname,
                "the values of an individual's records do not depend on the other individuals "
                'in the dataset',
                f'individual {idval}: {part} in the dataset, {alone} alone\n{desc}',
            )
            return


def _check_partial(ctx, fname, res, expected, name, clause, desc):
    """Series equals expected where expected is specified (None = unspecified)"""
    if not isinstance(res, pd.Series):
        ctx.fail(fname, clause, f'not a Series: {res!r}\n{desc}')
        return
    got = _flist(res.tolist())
    ok = len(got) == len(expected) and list(res.index) == list(range(len(expected)))
    if ok:
        ok = all(e is None or g == float(e) for g, e in zip(got, expected))
    if not ok:
        ctx.fail(fname, clause, f'got {got} index {list(res.index)} expected {expected}\n{desc}')


def _check_added(ctx, fname, df0, di, res, col, coltype, expected, present, desc, suffix=''):
    from pharmpy.model import Model

    if not isinstance(res, Model):
        ctx.fail(fname, 'returns a model', repr(res))
        return
    d = res.dataset
    if present:
        if not _same_df(d, df0):
            ctx.fail(fname, f'an existing {col} column is kept and the dataset is unchanged',
                     f'{_Lazy(d)}\n{desc}')
        return
    if list(d.columns) != list(df0.columns) + [col]:
        ctx.fail(fname, f'exactly one column {col} is appended',
                 f'columns {list(d.columns)}\n{desc}')
        return
    rest = d[list(df0.columns)]
    if not _same_values(rest, df0, df0.columns):
        ctx.fail(fname, 'existing records and values are kept in the original order',
                 f'{_Lazy(d)}\n{desc}')
    elif list(rest.dtypes) != list(df0.dtypes):
        ctx.fail(fname, 'existing column dtypes are kept',
                 f'{dict(rest.dtypes)} before {dict(df0.dtypes)}')
    got = _flist(d[col].tolist())
    if len(got) != len(expected) or not all(
        e is None or g == float(e) for g, e in zip(got, expected)
    ):
        ctx.fail(fname, f'the added {col} column equals the record walk' + suffix,
                 f'got {got} expected {expected}\n{desc}')
    try:
        tp = res.datainfo[col].type
    except Exception as e:  # noqa: BLE001
        tp = repr(e)
    if tp != coltype:
        ctx.fail(fname, f'the added column has type {coltype} in the datainfo', f'type {tp}')


def _check_expanded(ctx, df0, d, recs, flag, idname, desc):
    fname = 'expand_additional_doses'
    tag = f'flag={flag}: '
    shown = _Lazy('result\n', d, '\ninput\n', desc)
    if flag:
        expcols = list(df0.columns) + ['EXPANDED']
    else:
        expcols = [c for c in df0.columns if c not in ('ADDL', 'II')]
    if list(d.columns) != expcols:
        ctx.fail(fname, tag + 'the columns are the original ones '
                 + ('plus EXPANDED' if flag else 'without ADDL and II'),
                 f'columns {list(d.columns)} expected {expcols}')
        return
    keep = [c for c in expcols if c != 'EXPANDED']
    if list(d.index) != list(range(len(d))):
        ctx.fail(fname, tag + 'the result has a fresh 0..n-1 row index', shown)
    # expected additional dose records
    extra = []
    for r in recs:
        if r['dose']:
            for k in range(1, r['addl'] + 1):
                extra.append((r['row'], r['time'] + k * r['ii']))
    total = sum(r['amt'] * (r['addl'] + 1) for r in recs)
    got_total = float(d['AMT'].sum())
    if got_total != total:
        ctx.fail(fname, 'the total administered amount is preserved: sum(AMT) after == '
                 'sum(AMT*(ADDL+1)) before', f'{got_total} != {total}\n{shown}')
    # identify original vs. added rows.  DV is unique per original record; an added
    # record copies the DV of its dose record.
    if len(d) != len(recs) + len(extra):
        ctx.fail(fname, 'the result has one record per original record plus ADDL records per dose',
                 f'{len(d)} records expected {len(recs) + len(extra)}\n{shown}')
        return
    if flag:
        try:
            mask = [bool(x) for x in d['EXPANDED'].tolist()]
        except Exception:  # noqa: BLE001
            mask = None
        if mask is None or d['EXPANDED'].dtype != np.bool_:
            ctx.fail(fname, 'EXPANDED is a boolean column', shown)
            return
        orig = d[[not m for m in mask]].reset_index(drop=True)
        added = d[mask]
        if not _same_values(orig, df0, keep):
            ctx.fail(fname, 'flag=True: the records with EXPANDED false are exactly the original '
                     'records in the original order', shown)
    else:
        # every original record appears (matched by DV and time), in the original relative order
        want = [(r['dv'], r['time']) for r in recs]
        seq = list(zip(_flist(d['DV'].tolist()), _flist(d['TIME'].tolist())))
        it = iter(range(len(seq)))
        posn = []
        ok = True
        for w in want:
            for i in it:
                if seq[i] == w:
                    posn.append(i)
                    break
            else:
                ok = False
                break
        if not ok:
            ctx.fail(fname, 'flag=False: every original record is kept in the original relative '
                     'order', shown)
            return
        orig = d.iloc[posn].reset_index(drop=True)
        added = d.drop(index=posn)
        if not _same_values(orig, df0, keep):
            ctx.fail(fname, 'flag=False: every original record is kept in the original relative '
                     'order', shown)
    # the added records: one per (dose record, k) at time + k*II, a copy of the dose record
    exp_added = sorted(
        (float(df0[idname][row]), t, float(df0['AMT'][row]), float(df0['DV'][row]))
        for row, t in extra
    )
    got_added = sorted(
        zip(_flist(added[idname].tolist()), _flist(added['TIME'].tolist()),
            _flist(added['AMT'].tolist()), _flist(added['DV'].tolist()))
    )
    if got_added != exp_added:
        ctx.fail(fname, 'the added records are the doses at time + k*II (k=1..ADDL) with the '
                 'amount of their dose record', f'added {got_added} expected {exp_added}\n{shown}')
    # individuals stay contiguous and in the original order, time is chronological inside
    # every reset group of an individual
    ids = _flist(d[idname].tolist())
    blocks = [k for k, _ in itertools.groupby(ids)]
    want_blocks = [float(k) for k, _ in itertools.groupby([r['idval'] for r in recs])]
    if blocks != want_blocks:
        ctx.fail(fname, 'the individuals keep their order and stay contiguous',
                 f'{blocks} expected {want_blocks}\n{shown}')
    else:
        times = _flist(d['TIME'].tolist())
        if 'EVID' in d.columns:
            ev = _flist(d['EVID'].tolist())
        else:
            ev = [0.0] * len(d)
        bad = False
        for i in range(1, len(d)):
            if ids[i] == ids[i - 1] and ev[i] < 3 and times[i] < times[i - 1]:
                bad = True
        if bad:
            ctx.fail(fname, 'the expanded records are in chronological order within each '
                     'individual and reset group', shown)


def _check_tad(ctx, df0, di, res, ref, desc):
    from pharmpy.model import Model

    fname = 'add_time_after_dose'
    recs = ref['recs']
    if not isinstance(res, Model):
        ctx.fail(fname, 'returns a model', repr(res))
        return
    d = res.dataset
    shown = _Lazy('result\n', d, '\ninput\n', desc)
    if list(d.columns) != list(df0.columns) + ['TAD']:
        ctx.fail(fname, 'exactly one column TAD is appended',
                 f'columns {list(d.columns)} expected {list(df0.columns) + ["TAD"]}')
        if 'TAD' not in d.columns:
            return
    rest = d[[c for c in d.columns if c != 'TAD']]
    ids = [r['idval'] for r in recs]
    osuffix = '' if ids == sorted(ids) else ' (individuals not in ascending id order)'
    if not _same_values(rest, df0, df0.columns):
        ctx.fail(fname, 'existing records and values are kept in the original order' + osuffix,
                 shown)
    elif list(rest.dtypes) != list(df0.dtypes):
        ctx.fail(fname, 'existing column dtypes are kept',
                 f'{dict(rest.dtypes)} before {dict(df0.dtypes)}')
    # datainfo
    try:
        dires = res.datainfo
        okdi = dires['TAD'].descriptor == 'time after dose'
        okdi = okdi and list(dires.names) == list(d.columns)
        okdi = okdi and all(dires[c] == di[c] for c in df0.columns)
        why = '' if okdi or not RENDER[0] else repr(dires)
    except Exception as e:  # noqa: BLE001
        okdi, why = False, f'{type(e).__name__}: {e}'
    if not okdi:
        ctx.fail(fname, 'the datainfo keeps the existing column descriptions and describes TAD as '
                 'time after dose', why)
    # the TAD of each original record (records matched by the unique DV)
    try:
        dvs = _flist(d['DV'].tolist())
        tads = _flist(d['TAD'].tolist())
    except Exception:  # noqa: BLE001
        return
    if sorted(dvs) != sorted(r['dv'] for r in recs):
        return  # records lost or duplicated: reported by the frame clause above
    by_dv = dict(zip(dvs, tads))
    suffix = _features(recs, expand=True)
    neg = zero = eq = None
    for r in recs:
        t = by_dv[r['dv']]
        if not (isinstance(t, float) and t >= 0):
            neg = neg or f'record {r["row"]} TAD {t}'
        if r['dose'] and t != 0.0:
            zero = zero or f'dose record {r["row"]} TAD {t}'
        e = ref['tad'][r['row']]
        if e is not None and t != e:
            eq = eq or f'record {r["row"]} TAD {t} expected {e}'
    if neg:
        ctx.fail(fname, 'TAD is never negative', f'{neg}\n{shown}')
    if zero:
        ctx.fail(fname, 'TAD is zero at each dose record', f'{zero}\n{shown}')
    if eq:
        ctx.fail(fname, 'TAD equals time minus the time of the dose of the record\'s dose interval '
                 '(observation at the time of a dose: preceding interval)' + suffix,
                 f'{eq}; expected TAD {ref["tad"]}\n{shown}')


# ---------------------------------------------------------------------------------------
# enumeration
# ---------------------------------------------------------------------------------------


def _seqs(kinds, n, times):
    for ks in itertools.product(kinds, repeat=n):
        for ts in itertools.product(times, repeat=n):
            if all(ts[i] >= ts[i - 1] or _is_reset(ks[i]) for i in range(1, n)):
                yield [[t, k] for t, k in zip(ts, ks)]


BASE_AMTS = [0.5, 100.0]  # even / odd file position: fractional and whole amounts alternate
FRAC_AMTS = [0.25, 0.5]  # every amount below one unit
WHOLE_AMTS = [50.0, 100.0]  # every amount a whole number


def _has_dose(case):
    if SCHEMAS[case['schema']].get('nodose'):
        return False
    return any(KINDS[k]['dose'] for s in case['inds'] for _, k in s)


def _enumerate_cases(tier):
    """quick: one individual with <=3 records (<=2 in the 'small' schemas), TIME in {0,1,2};
    two individuals with <=3 records in total (<=2 in the small schemas), TIME in {0,1},
    ids (3,7) and, when both have one record, also (7,3).  thorough: one more record.
    The amounts of the dose records alternate 100 / 0.5 with the position of the record in the
    file; quick: the one-individual datasets with <=2 records also with amounts 0.5 / 0.25 only,
    thorough: every dataset with <=3 records also with amounts 0.5 / 0.25 only and 100 / 50
    only."""
    thorough = tier == 'thorough'
    for case in _enumerate_shapes(tier):
        case['amts'] = list(BASE_AMTS)
        yield case
        if not _has_dose(case):
            continue
        size = _case_size(case)
        if (thorough and size <= 3) or (len(case['ids']) == 1 and size <= 2):
            yield dict(case, amts=list(FRAC_AMTS))
        if thorough and size <= 3:
            yield dict(case, amts=list(WHOLE_AMTS))


def _enumerate_shapes(tier):
    t1 = (0, 1, 2)
    t2 = (0, 1)
    for name, sch in SCHEMAS.items():
        if sch.get('thorough') and tier != 'thorough':
            continue
        extra = 1 if tier == 'thorough' and not sch.get('fixed') else 0
        kinds = sch['kinds']
        small = 1 if sch.get('small') else 0
        nmax = 3 - small + extra
        tot = 3 - small + extra
        for n in range(1, nmax + 1):
            for s in _seqs(kinds, n, t1):
                yield {'schema': name, 'ids': [3], 'inds': [s]}
        for n1 in range(1, tot):
            for n2 in range(1, tot - n1 + 1):
                for s1 in _seqs(kinds, n1, t2):
                    for s2 in _seqs(kinds, n2, t2):
                        yield {'schema': name, 'ids': [3, 7], 'inds': [s1, s2]}
                        if n1 + n2 <= 2 + extra:
                            yield {'schema': name, 'ids': [7, 3], 'inds': [s1, s2]}


def _case_size(case):
    return sum(len(s) for s in case['inds'])


def _single_thread():
    try:
        import numexpr

        numexpr.set_num_threads(1)
    except Exception:  # noqa: BLE001
        pass


def _work(chunk):
    warnings.filterwarnings('ignore')
    _single_thread()
    RENDER[0] = False  # the details are rendered by the parent for the reported cases only
    out = []
    for idx, case in chunk:
        try:
            fails, nontrivial = _check_case(case)
        except Exception as e:  # noqa: BLE001
            import traceback

            fails = [('CHECKER', 'checker error', traceback.format_exc()[-800:] + repr(e))]
            nontrivial = False
        out.append((idx, fails, nontrivial))
    return out


def _run_pool(worker, items, chunksize):
    chunks = [items[i:i + chunksize] for i in range(0, len(items), chunksize)]
    if len(chunks) <= 1:
        return [worker(c) for c in chunks]
    ctx = multiprocessing.get_context('fork')
    with ctx.Pool(min(NPROC, len(chunks))) as pool:
        return pool.map(worker, chunks, chunksize=1)


def bounded_dataset_derivations(tier='quick'):
    import pharmpy.modeling  # noqa: F401

    for kind in ('iv', 'ivoral'):
        _base_model(kind)  # built once, inherited by the forked workers
    cases = list(_enumerate_cases(tier))
    items = list(enumerate(cases))
    render = RENDER[0]
    try:
        results = _run_pool(_work, items, 40)
    finally:
        RENDER[0] = render  # a single chunk runs in this process
    best = {}
    also = {}
    nontriv = 0
    for chunk in results:
        for idx, fails, nontrivial in chunk:
            if nontrivial:
                nontriv += 1
            for fn, clause, detail in fails:
                key = (fn, clause)
                lst = also.setdefault(key, [])
                if len(lst) < ALSO_CAP:
                    lst.append({'case': cases[idx], 'fn': fn, 'clause': clause})
                rank = (_case_size(cases[idx]), len(cases[idx]['ids']), idx)
                if key not in best or rank < best[key][0]:
                    best[key] = (rank, idx, detail)
    fails = []
    RENDER[0] = True
    for (fn, clause), (rank, idx, detail) in sorted(best.items()):
        if fn != 'CHECKER':
            # the workers do not render details: re-run the reported case
            for fn2, clause2, detail2 in _check_case(cases[idx])[0]:
                if (fn2, clause2) == (fn, clause):
                    detail = detail2
                    break
        fails.append(
            {
                'fid': f'{DATA_PY}:{fn}',
                'clause': clause,
                'detail': detail,
                'case': {'case': cases[idx], 'fn': fn, 'clause': clause},
                'also': also[(fn, clause)][:ALSO_CAP],
                'replay_fn': 'bounded_dataset_derivations_replay',
            }
        )
    RENDER[0] = render
    extra = 1 if tier == 'thorough' else 0
    nsch = len([1 for sch in SCHEMAS.values() if extra or not sch.get('thorough')])
    nsmall = len([1 for sch in SCHEMAS.values() if sch.get('small')])
    nobs = len([1 for sch in SCHEMAS.values() if sch.get('only') == 'obs'])
    nexp = len([1 for sch in SCHEMAS.values() if sch.get('only') == 'expand'])
    bound = (
        'all event datasets over %d column schemas (optional EVID/MDV/RATE/ADDL+II/SS/CMT/ADMID '
        'columns, id column ID or SUBJ, one schema without dose column, TIME as number or as '
        'NM-TRAN clock time h:mm alone / with a day number or calendar DATE column%s): one '
        'individual (id 3) '
        'with <=%d records (<=%d in %d near-duplicate schemas), TIME in {0,1,2} (x1.5 h or x12 h '
        'in the clock/date schemas) non-decreasing '
        'within a reset group (ties included), every record kind of the schema (observation, '
        'MDV=1 non-dose record, dose, dose with ADDL=1 II=1, SS dose, EVID 3, EVID 4, doses into '
        'compartment 1/2); two individuals (ids 3,7; also 7,3 when they have <=%d records in '
        'total) with <=%d records in total, TIME in {0,1}; dose amounts alternating 100 / 0.5 '
        'with the file position, %s; covariates constant / '
        'changing within the first / last individual in every pattern over its records relative '
        'to the first record (one covariate column per pattern, e.g. 0,0,1 / 0,1,0 / 0,1,1); '
        'get_baselines also with covariate columns that are missing (NaN) on every non-empty '
        'subset of the records of each individual (one column per individual and subset); '
        '%d of the schemas have BOTH an EVID and an MDV column (either column order) with the '
        'record kinds observation, dose, EVID=0 with MDV=1 and EVID=2 with MDV=0: on these only '
        'get_mdv, get_evid, get_observations, the observation counts, get_doses, get_baselines '
        'and list_time_varying_covariates are evaluated; %d of the schemas (ADDL/II without and '
        'with an EVID column) have doses with ADDL=2 II=1 and with ADDL=1 II=2, on ordinary doses '
        'and (with the EVID column) on EVID 4 records: on these only expand_additional_doses is '
        'evaluated, on datasets of <=3 records in both tiers'
        % (nsch, ' (DATE, DAT1, DAT2, DAT3)' if extra else '', 3 + extra, 2 + extra, nsmall,
           2 + extra, 3 + extra,
           'datasets with <=3 records also with 0.5 / 0.25 only and with 100 / 50 only' if extra else
           'one-individual datasets with <=2 records also with amounts 0.5 / 0.25 only',
           nobs, nexp)
    )
    samples = [repr(cases[i])[:200] for i in (0, len(cases) // 2, len(cases) - 1)]
    return {
        'cases': len(cases),
        'nontrivial': nontriv,
        'bound': bound,
        'samples': samples,
        'fails': fails,
    }


def bounded_dataset_derivations_replay(rp):
    c = rp['case']
    fails, _ = _check_case(c['case'])
    for fn, clause, detail in fails:
        if fn == c['fn'] and clause == c['clause']:
            return (False, detail)
    return (True, 'ok')


# ======================================================================================
# Part 2: dataset reading (C13)
# ======================================================================================
#
# The reference below is written from /repo/docs/NONMEM.rst ("NM-TRAN dataset parsing",
# "Comment lines", "NULL items in datasets", "IGNORE/ACCEPT"):
#   - delimiter between items is comma, space or TAB; spaces around a comma and after a TAB are
#     ignored; a space before a TAB is an error; spaces at the beginning/end of a row are ignored
#   - a comma at the end or beginning of a row inserts a NULL; an item between two commas or two
#     TABs is NULL; a "." is NULL; NULL becomes the NULL= value (default 0)
#   - numbers: digits with optional sign and decimal point, E/e/D/d exponent, the short form
#     2-1 == 2e-1 and 2+1 == 2e1, a lone + or - is 0; an item is at most 24 characters
#   - DROPped columns may contain anything of any length; surplus columns are dropped, short
#     rows are padded with NULL
#   - empty lines (only spaces and TABs) are an error
#   - comment lines: default ^#, IGNORE=c -> ^c, IGNORE=@ -> ^\s*[a-zA-Z#]
#   - IGNORE/ACCEPT are applied one at a time in the order given, before the items are checked;
#     .EQ./.NE. (== = /=) compare text, .EQN. .NEN. .LT. .GT. .LE. .GE. (< > <= >=) numbers;
#     for a numeric operator "the column will be parsed before ignore and give errors
#     appropriately": the items of the filter column go through the item rules (NULL value, 24
#     characters, number forms) before they are compared
#   - pharmpy's missing data token (DataInfo.missing_data_token / conf.missing_data_token,
#     default -99): an item that is exactly the token is a missing value (NaN); NaN compares
#     false with everything except through "not equal"

PARSING_PY = 'src/pharmpy/model/external/nonmem/parsing.py'

_REF_NUM = re.compile(r'([+-]?)(\d+\.?\d*|\.\d+)(?:[eEdD]([+-]?\d+)|([+-]\d+))?')


class _RefError(Exception):
    """The documented outcome is an error (DatasetError / ValueError)"""


def _ref_fortran(s):
    if s in ('+', '-'):
        return 0.0
    m = _REF_NUM.fullmatch(s)
    if not m:
        raise _RefError(f'{s!r} is not a number')
    exp = m.group(3) or m.group(4) or '0'
    return float(f'{m.group(1)}{m.group(2)}e{exp}')


MISSING_DEFAULT = '-99'  # documented default of pharmpy's missing data token


def _ref_item(item, null_value, missing):
    """Value of one data item by the item rules: NULL -> NULL value, at most 24 characters,
    the missing data token -> NaN, otherwise a number in one of the documented forms"""
    if item in ('', '.'):
        item = null_value
    if len(item) > 24:
        raise _RefError('item longer than 24 characters')
    if item == missing:
        return math.nan
    return _ref_fortran(item)


def _ref_split(line):
    """Items of one data line; '' stands for an empty (NULL) item"""
    if ' \t' in line:
        raise _RefError('space before TAB')
    s = line.strip(' ')
    tokens = []
    cur = ''
    i = 0
    n = len(s)
    while i < n:
        c = s[i]
        if c == ',' or c == '\t':
            tokens.append(cur)
            cur = ''
            i += 1
            while i < n and s[i] == ' ':
                i += 1
        elif c == ' ':
            j = i
            while j < n and s[j] == ' ':
                j += 1
            if j < n and s[j] == ',':
                i = j  # spaces before a comma are ignored
            else:
                tokens.append(cur)
                cur = ''
                i = j
        else:
            cur += c
            i += 1
    tokens.append(cur)
    return tokens


_REF_FILTER = re.compile(
    r'\s*(\w+)\s*(\.EQN\.|\.NEN\.|\.EQ\.|\.NE\.|\.LT\.|\.GT\.|\.LE\.|\.GE\.|==|=|/=|<=|>=|<|>)'
    r'\s*(.+?)\s*'
)
_TEXT_OPS = {'.EQ.': 'eq', '==': 'eq', '=': 'eq', '.NE.': 'ne', '/=': 'ne'}
_NUM_OPS = {'.EQN.': 'eq', '.NEN.': 'ne', '.LT.': 'lt', '<': 'lt', '.GT.': 'gt', '>': 'gt',
            '.LE.': 'le', '<=': 'le', '.GE.': 'ge', '>=': 'ge'}


def _ref_condition(flt, colnames, null_value, missing=MISSING_DEFAULT):
    m = _REF_FILTER.fullmatch(flt)
    if not m:
        raise AssertionError(f'reference cannot parse filter {flt!r}')
    col, op, val = m.group(1), m.group(2), m.group(3)
    if len(val) >= 2 and val[0] == val[-1] and val[0] in '\'"':
        val = val[1:-1]
    k = colnames.index(col)

    def cmp(a, b, rel):
        return {'eq': a == b, 'ne': a != b, 'lt': a < b, 'gt': a > b, 'le': a <= b,
                'ge': a >= b}[rel]

    if op in _TEXT_OPS:
        return lambda row: cmp(row[k], val, _TEXT_OPS[op])
    num = float(val)

    def cond(row):
        return cmp(_ref_item(row[k], null_value, missing), num, _NUM_OPS[op])

    return cond


def _ref_read(spec):
    """Reference reader: ('error', why) | ('skip', why) | ('ok', rows)
    rows: list of lists; float for a parsed column, raw item (str) for a dropped column"""
    text = spec['text']
    colnames = spec['colnames']
    drop = spec.get('drop') or [False] * len(colnames)
    null_value = spec.get('null_value')
    null_value = '0' if null_value is None else str(null_value)
    ic = spec.get('ignore_character') or '#'
    missing = spec.get('missing') or MISSING_DEFAULT
    lines = text.split('\n')
    if lines and lines[-1] == '':
        lines = lines[:-1]
    kept = []
    for ln in lines:
        if ic == '@':
            comment = re.match(r'\s*[a-zA-Z#]', ln) is not None
        else:
            comment = ln.startswith(ic)
        if not comment:
            kept.append(ln)
    if not kept:
        return ('skip', 'no data record')
    try:
        for ln in kept:
            if ' \t' in ln:
                raise _RefError('space before TAB')
            if ln.strip(' \t') == '':
                raise _RefError('blank line')
        m = len(colnames)
        rows = []
        for ln in kept:
            items = _ref_split(ln)
            rows.append((items + [''] * (m - len(items)))[:m])
        for kind in ('ignore', 'accept'):
            for flt in spec.get(kind) or []:
                cond = _ref_condition(flt, colnames, null_value, missing)
                if kind == 'ignore':
                    rows = [r for r in rows if not cond(r)]
                else:
                    rows = [r for r in rows if cond(r)]
        out = []
        for r in rows:
            o = []
            for item, dropped in zip(r, drop):
                if dropped:
                    o.append(item)
                    continue
                o.append(_ref_item(item, null_value, missing))
            out.append(o)
    except _RefError as e:
        return ('error', str(e))
    return ('ok', out)


def _real_read(spec):
    """('error', exception) | ('ok', DataFrame)"""
    import io

    from pharmpy.model.external.nonmem.dataset import read_nonmem_dataset

    kwargs = {}
    if spec.get('null_value') is not None:
        kwargs['null_value'] = spec['null_value']
    if spec.get('ignore_character') is not None:
        kwargs['ignore_character'] = spec['ignore_character']
    if spec.get('drop') is not None:
        kwargs['drop'] = list(spec['drop'])
    if spec.get('ignore'):
        kwargs['ignore'] = list(spec['ignore'])
    if spec.get('accept'):
        kwargs['accept'] = list(spec['accept'])
    if spec.get('missing') is not None:
        kwargs['missing_data_token'] = spec['missing']
    try:
        df = read_nonmem_dataset(io.StringIO(spec['text']), colnames=list(spec['colnames']),
                                 **kwargs)
    except Exception as e:  # noqa: BLE001
        return ('error', e)
    return ('ok', df)


_READ_CLAUSES = {
    'tok': 'the rows are split into items by the documented delimiter rules, NULL items become '
           'the NULL value, short rows are padded and surplus items dropped',
    'comment': 'comment lines are removed by the documented IGNORE=c rule and blank lines are an '
               'error',
    'drop': 'dropped columns may contain anything, other items are numbers of at most 24 '
            'characters',
    'filter': 'IGNORE/ACCEPT filters are applied in order with text or numeric comparison as the '
              'operator dictates',
}


def _same_numbers(a, b):
    """Equal lists of floats, a missing value (NaN) equal to a missing value"""
    return len(a) == len(b) and all(
        x == y or (isinstance(x, float) and isinstance(y, float) and math.isnan(x)
                   and math.isnan(y))
        for x, y in zip(a, b)
    )


def _compare_table(df, spec, rows):
    colnames = spec['colnames']
    drop = spec.get('drop') or [False] * len(colnames)
    if not isinstance(df, pd.DataFrame):
        return f'not a DataFrame: {df!r}'
    if list(df.columns) != list(colnames):
        return f'columns {list(df.columns)} expected {list(colnames)}'
    if len(df) != len(rows):
        return f'{len(df)} rows expected {len(rows)}: {df.values.tolist()} expected {rows}'
    if list(df.index) != list(range(len(rows))):
        return f'index {list(df.index)}'
    for k, (c, dropped) in enumerate(zip(colnames, drop)):
        got = df[c].tolist()
        exp = [r[k] for r in rows]
        if dropped:
            for g, e in zip(got, exp):
                if e not in ('', '.') and str(g) != e:
                    return f'dropped column {c}: {got} expected {exp}'
        else:
            try:
                g = [float(x) for x in got]
            except (TypeError, ValueError):
                return f'column {c} is not numeric: {got}'
            if not _same_numbers(g, exp):
                return f'column {c}: {g} expected {exp}; table {df.values.tolist()} expected {rows}'
    return None


def _read_case(spec):
    """One read_nonmem_dataset case -> list of (fid, clause, detail)"""
    r = _read_case1(spec)
    if r and spec['fam'] == 'filter' and (spec.get('ignore') or spec.get('accept')):
        # the filter clause is about the rows that are kept: when the same file is already
        # mis-read without any filter the failure belongs to the clause of that rule
        plain = {k: v for k, v in spec.items() if k not in ('ignore', 'accept')}
        plain['fam'] = 'tok'
        r0 = _read_case1(plain)
        if r0:
            return r0
    return r


def _filter_class(spec):
    """Class of a filter case used to key the clause: a text operator (.EQ./.NE.) applied to
    a column in which some row has a NULL item (".", empty, or absent because the row is
    short) - docs/NONMEM.rst: NULLs are inserted after the filtering, a filter cannot match
    a NULL"""
    for flt in (spec.get('ignore') or []) + (spec.get('accept') or []):
        m = _REF_FILTER.fullmatch(flt)
        if not m or m.group(2) not in _TEXT_OPS:
            continue
        k = spec['colnames'].index(m.group(1))
        for ln in spec['text'].split('\n'):
            if ln == '':
                continue
            try:
                items = _ref_split(ln)
            except _RefError:
                continue
            if (items[k] if k < len(items) else '') in ('', '.'):
                return ' (text comparison with a NULL item)'
    return ''


def _read_case1(spec):
    from pharmpy.model import DatasetError

    ref = _ref_read(spec)
    if ref[0] == 'skip':
        return None
    fid = f'{DATASET_PY}:read_nonmem_dataset'
    clause = _READ_CLAUSES[spec['fam']]
    if spec['fam'] == 'filter':
        clause += _filter_class(spec)
    real = _real_read(spec)
    shown = {k: v for k, v in spec.items() if k != 'fam' and v is not None}
    if real[0] == 'error':
        e = real[1]
        if ref[0] == 'error':
            if isinstance(e, DatasetError):
                return []
            return [(fid, f'no internal error (only DatasetError) [{type(e).__name__}]',
                     f'{type(e).__name__}: {e} (documented outcome: DatasetError, {ref[1]}) for '
                     f'{shown}')]
        if isinstance(e, DatasetError):
            return [(fid, clause, f'DatasetError: {e}; expected table {ref[1]} for {shown}')]
        return [(fid, f'no internal error (only DatasetError) [{type(e).__name__}]',
                 f'{type(e).__name__}: {e}; expected table {ref[1]} for {shown}')]
    if ref[0] == 'error':
        return [(fid, clause + ' (documented error is raised)',
                 f'read {real[1].values.tolist()} but the documented outcome is an error '
                 f'({ref[1]}) for {shown}')]
    why = _compare_table(real[1], spec, ref[1])
    if why:
        return [(fid, clause, f'{why} for {shown}')]
    return []


# ---- enumeration of the reading cases --------------------------------------------------

_SEPS = [',', ' ', '\t', ' ,', ', ', ' , ', '  ', '\t ']


def _row_text(pattern, seps, lead, trail, rowno):
    """pattern: tuple over {'V','D','.',''}; V -> integer unique for (row, position),
    D -> decimal unique for (row, position)"""
    items = []
    for pos, p in enumerate(pattern):
        if p == 'V':
            items.append(str(10 * rowno + pos + 1))
        elif p == 'D':
            items.append(f'{10 * rowno + pos + 1}.5')
        else:
            items.append(p)
    s = items[0]
    for sep, it in zip(seps, items[1:]):
        s += sep + it
    return lead + s + trail


def _documented_row(text):
    """Rows whose meaning docs/NONMEM.rst defines: not blank, no TAB at the very beginning or
    end (a NULL is documented for a leading/trailing comma and between two TABs only)"""
    core = text.strip(' ')
    if core == '' or core.strip('\t ') == '':
        return False
    if core[0] == '\t' or core[-1] == '\t':
        return False
    return True


def _enumerate_reading(tier):
    thorough = tier == 'thorough'
    # --- tok: one row, <=3 items, every separator form per gap, optional leading/trailing space
    pads = [('', ''), (' ', ''), ('', ' ')]
    seen = set()
    for k in (1, 2, 3):
        for pattern in itertools.product(('V', 'D', '.', ''), repeat=k):
            for seps in itertools.product(_SEPS, repeat=k - 1):
                for lead, trail in pads:
                    text = _row_text(pattern, seps, lead, trail, 0)
                    if not _documented_row(text):
                        continue
                    for m in (2, 3):
                        nulls = (None, '7', '-') if k <= 2 else (None,)
                        for nv in nulls:
                            key = (text, m, nv)
                            if key in seen:
                                continue
                            seen.add(key)
                            yield {'fam': 'tok', 'text': text + '\n',
                                   'colnames': ['A', 'B', 'C'][:m], 'null_value': nv}
    # --- tok: two rows (also of different length), one separator form per row
    alphabet = ('V', '.', '') if thorough else ('V', '.')
    seps2 = _SEPS if thorough else [',', ' ', '\t']
    rows = []
    for k in (1, 2, 3):
        for pattern in itertools.product(alphabet, repeat=k):
            for sep in (seps2 if k > 1 else [',']):
                rows.append((pattern, (sep,) * (k - 1)))
    for (p1, s1) in rows:
        for (p2, s2) in rows:
            t1 = _row_text(p1, s1, '', '', 0)
            t2 = _row_text(p2, s2, '', '', 1)
            if not (_documented_row(t1) and _documented_row(t2)):
                continue
            for m in (1, 2, 3):
                for nv in (None, '7'):
                    key = (t1 + '\n' + t2, m, nv)
                    if key in seen:
                        continue
                    seen.add(key)
                    yield {'fam': 'tok', 'text': t1 + '\n' + t2 + '\n',
                           'colnames': ['A', 'B', 'C'][:m], 'null_value': nv}
    # --- comment: comment / header / blank lines, every IGNORE=c form, last line with and
    #     without newline
    lines = ['1,2', '#3,4', 'A,4', ' B,4', 'I3,4', ' #3,4', '', '  ']
    for k in (1, 2, 3):
        for ls in itertools.product(lines, repeat=k):
            for ic in (None, '#', 'I', '@'):
                for final_newline in (True, False):
                    text = '\n'.join(ls) + ('\n' if final_newline else '')
                    if not final_newline and ls[-1] == '':
                        continue  # same text as the file with one line less
                    yield {'fam': 'comment', 'text': text, 'colnames': ['A', 'B'],
                           'ignore_character': ic}
    # --- drop: text and over-long items in dropped and non-dropped columns
    items = ['1', 'X', '1' * 25, '0' * 23 + '1', '.']
    for m in (2, 3):
        for its in itertools.product(items, repeat=m):
            for drop in itertools.product((False, True), repeat=m):
                yield {'fam': 'drop', 'text': ','.join(its) + '\n',
                       'colnames': ['A', 'B', 'C'][:m], 'drop': list(drop)}
    # --- filter: one IGNORE / ACCEPT of every operator, text vs. numeric comparison
    avals = ['1', '2', '1.0', '1+0', 'X']
    ops = ['.EQ.', '==', '=', '.NE.', '/=', '.EQN.', '.NEN.', '.LT.', '<', '.GT.', '>', '.LE.',
           '<=', '.GE.', '>=']
    for a1 in avals:
        for a2 in avals:
            text = f'{a1},11\n{a2},12\n'
            for op in ops:
                for val in ('1', '2', "'1'", '"1"'):
                    for sp in ('', ' '):
                        flt = f'A{sp}{op}{sp}{val}'
                        for kind in ('ignore', 'accept'):
                            yield {'fam': 'filter', 'text': text, 'colnames': ['A', 'B'],
                                   kind: [flt]}
            # two IGNOREs in order: a text filter removes the row a numeric one could not parse
            for first in ('A.EQ.X', 'A.NE.1', 'B.EQ.11'):
                for op in ('.EQN.', '.NEN.', '.LT.', '.GT.', '.LE.', '.GE.'):
                    for val in ('1', '2'):
                        for order in (0, 1):
                            fl = [first, f'A{op}{val}']
                            if order:
                                fl.reverse()
                            yield {'fam': 'filter', 'text': text, 'colnames': ['A', 'B'],
                                   'ignore': fl}
    yield from _enumerate_null_filters(tier)


_B_ITEMS = [
    # forms of the item of the filter column B in a row "a,b" (None: the row is short)
    '5', '0', '7.0', '-99', '.', '', None, '0' * 23 + '5', '0' * 24 + '5',
]
_B_OPS = ['.EQN.', '.NEN.', '.LT.', '<', '.GT.', '>', '.LE.', '<=', '.GE.', '>=', '.EQ.', '.NE.']


def _b_row(rowno, item):
    a = str(10 * rowno + 1)
    return a if item is None else f'{a},{item}'


def _enumerate_null_filters(tier):
    """IGNORE / ACCEPT on the second column B of files whose B items are plain numbers, NULL
    items ("." and empty), missing because the row is short, the missing data token, or
    numbers of 24 / 25 characters; every numeric operator spelling (and .EQ./.NE.) x
    comparison values 0, 5, 7, -99 x NULL value default / 7; thorough: also three-row files
    over the first 7 forms, and the two-row files with the missing data token set to 5"""
    thorough = tier == 'thorough'
    for n, missing in ((2, None), (3, None), (2, '5')) if thorough else ((2, None),):
        items = _B_ITEMS if n == 2 else _B_ITEMS[:7]
        for its in itertools.product(items, repeat=n):
            text = ''.join(_b_row(i, it) + '\n' for i, it in enumerate(its))
            for op in _B_OPS:
                for val in ('0', '5', '7', '-99'):
                    for nv in (None, '7'):
                        for kind in ('ignore', 'accept'):
                            spec = {'fam': 'filter', 'text': text, 'colnames': ['A', 'B'],
                                    'null_value': nv, kind: [f'B{op}{val}']}
                            if missing is not None:
                                spec['missing'] = missing
                            yield spec


def _read_work(chunk):
    warnings.filterwarnings('ignore')
    _single_thread()
    out = []
    for idx, spec in chunk:
        try:
            r = _read_case(spec)
        except Exception as e:  # noqa: BLE001
            import traceback

            r = [('CHECKER', 'checker error', traceback.format_exc()[-800:] + repr(e))]
        out.append((idx, r))
    return out


# ---- convert_fortran_number ------------------------------------------------------------

_NUM_ALPHABET = '0123456789+-.dDeE'


def _number_case(s):
    from pharmpy.model.external.nonmem.dataset import convert_fortran_number

    fid = f'{DATASET_PY}:convert_fortran_number'
    try:
        exp = ('ok', _ref_fortran(s))
    except _RefError:
        exp = ('error', None)
    try:
        got = ('ok', convert_fortran_number(s))
    except ValueError:
        got = ('error', None)
    except Exception as e:  # noqa: BLE001
        return [(fid, f'no internal error (only ValueError) [{type(e).__name__}]',
                 f'convert_fortran_number({s!r}) raised {type(e).__name__}: {e}')]
    if exp[0] == 'error' and got[0] == 'ok':
        return [(fid, 'a string that is not a number in one of the documented forms is rejected '
                 'with ValueError', f'convert_fortran_number({s!r}) == {got[1]!r}')]
    if exp[0] == 'ok' and got[0] == 'error':
        return [(fid, 'every documented number form (decimal, E/D exponent, short form a+b / a-b, '
                 'lone sign) is converted', f'convert_fortran_number({s!r}) raised ValueError, '
                 f'expected {exp[1]!r}')]
    if exp[0] == 'ok':
        try:
            same = float(got[1]) == exp[1]
        except (TypeError, ValueError):
            same = False
        if not same:
            return [(fid, 'the converted value is mantissa * 10**exponent',
                     f'convert_fortran_number({s!r}) == {got[1]!r} expected {exp[1]!r}')]
    return []


def _number_work(prefixes_and_len):
    warnings.filterwarnings('ignore')
    prefixes, maxlen = prefixes_and_len
    n = nontriv = 0
    best = {}
    allf = {}  # key -> every failing string of this job in enumeration order (capped)
    for prefix in prefixes:
        for total in range(len(prefix), maxlen + 1):
            if total == 0:
                continue
            for rest in itertools.product(_NUM_ALPHABET, repeat=total - len(prefix)):
                s = prefix + ''.join(rest)
                n += 1
                if _REF_NUM.fullmatch(s) or s in '+-':
                    nontriv += 1
                for fid, clause, detail in _number_case(s):
                    key = (fid, clause)
                    rank = (len(s), s)
                    if key not in best or rank < best[key][0]:
                        best[key] = (rank, s, detail)
                    lst = allf.setdefault(key, [])
                    if len(lst) < ALSO_CAP:
                        lst.append(s)
    return n, nontriv, best, allf


# ---- reading through a model ($INPUT / $DATA) and the write/read cycle ---------------------

_MODEL_CODE = """$PROBLEM
$INPUT {input}
$DATA {data}
$PRED
Y=THETA(1)+ETA(1)+EPS(1)
$THETA 1
$OMEGA 0.1
$SIGMA 0.1
$ESTIMATION METHOD=1
"""

_INPUTS = [
    # $INPUT text, column names the reader must use, drop flags
    ('ID DV WT', ['ID', 'DV', 'WT'], [False, False, False]),
    ('ID DV', ['ID', 'DV'], [False, False]),
    ('ID DV WT AGE', ['ID', 'DV', 'WT', 'AGE'], [False] * 4),
    ('ID DV=DROP WT', ['ID', 'DV', 'WT'], [False, True, False]),
    ('ID DROP=DV WT', ['ID', 'DV', 'WT'], [False, True, False]),
    ('ID DV=SKIP WT', ['ID', 'DV', 'WT'], [False, True, False]),
    ('ID DROP WT', ['ID', None, 'WT'], [False, True, False]),
    ('ID SKIP WT', ['ID', None, 'WT'], [False, True, False]),
    ('ID DV=CONC WT', ['ID', 'CONC', 'WT'], [False, False, False]),
    ('ID CONC=DV WT', ['ID', 'CONC', 'WT'], [False, False, False]),
]

_DATA_OPTS = [
    # $DATA options, reader arguments
    ('', {}),
    ('IGNORE=@', {'ignore_character': '@'}),
    ('IGNORE=I', {'ignore_character': 'I'}),
    ('NULL=7', {'null_value': '7'}),
    ('IGNORE=@ IGNORE=(WT.EQN.3)', {'ignore_character': '@', 'ignore': ['WT.EQN.3']}),
    ('IGNORE=(ID.EQ.2)', {'ignore': ['ID.EQ.2']}),
    ('IGNORE=(ID.EQ.2) IGNORE=(WT.GT.5)', {'ignore': ['ID.EQ.2', 'WT.GT.5']}),
    ('IGNORE=(ID.EQ.2,WT.GT.5)', {'ignore': ['ID.EQ.2', 'WT.GT.5']}),
    ('ACCEPT=(ID.NE.2)', {'accept': ['ID.NE.2']}),
    ('ACCEPT=(WT.GE.3)', {'accept': ['WT.GE.3']}),
    # numeric filters whose outcome depends on the value of a NULL / missing item
    ('IGNORE=(WT.LE.0)', {'ignore': ['WT.LE.0']}),
    ('ACCEPT=(WT.LT.3)', {'accept': ['WT.LT.3']}),
    ('NULL=7 IGNORE=(WT.EQN.7)', {'null_value': '7', 'ignore': ['WT.EQN.7']}),
    ('ACCEPT=(WT.NEN.6)', {'accept': ['WT.NEN.6']}),
]

_DATA_TEXTS = [
    '1,1.5,3\n2,2.5,6\n',
    '1 1.5 3\n2 . 6\n3,4D0,9\n',
    '#c\n1,,3\n2,2.5\n',
    '1\t1-1\t3\t8\n2\t2.5\t6\t9\n',
    # plain numbers only; a short row, the missing data token and a NULL in the last column
    '1,1.5,3\n2,2.5\n3,3.5,-99\n4,4.5,6\n5,5.5,\n',
]


def _enumerate_model_reads(tier):
    for text in _DATA_TEXTS:
        for inp in range(len(_INPUTS)):
            for opt in range(len(_DATA_OPTS)):
                yield {'fam': 'model', 'text': text, 'input': inp, 'opt': opt}
    # header line with IGNORE=@
    for inp in range(len(_INPUTS)):
        yield {'fam': 'model', 'text': 'ID,DV,WT\n1,1.5,3\n2,2.5,6\n', 'input': inp, 'opt': 1}


def _model_read_case(spec, tmpdir):
    from pharmpy.model import DatasetError
    from pharmpy.modeling import read_model

    inp, colnames, drop = _INPUTS[spec['input']]
    opts, rargs = _DATA_OPTS[spec['opt']]
    fid = f'{PARSING_PY}:parse_dataset'
    clause = ('the dataset of a model is what the documented NM-TRAN rules give for its $INPUT '
              '(DROP/SKIP, synonyms, fewer or more columns) and $DATA (IGNORE=c, NULL, '
              'IGNORE/ACCEPT) records')
    # filters are written with the names of $INPUT; the reference uses positions
    refnames = ['ID', 'DV', 'WT', 'AGE'][:len(colnames)]
    rspec = {'text': spec['text'], 'colnames': refnames, 'drop': drop}
    rspec.update(rargs)
    if any(f.split('.')[0] not in refnames for f in (rargs.get('ignore') or [])
           + (rargs.get('accept') or [])):
        return None  # the filter column is not in this $INPUT
    ref = _ref_read(rspec)
    if ref[0] == 'skip':
        return None
    d = tempfile.mkdtemp(dir=tmpdir)
    with open(os.path.join(d, 'data.csv'), 'w') as fh:
        fh.write(spec['text'])
    code = _MODEL_CODE.format(input=inp, data=('data.csv ' + opts).strip())
    path = os.path.join(d, 'run1.mod')
    with open(path, 'w') as fh:
        fh.write(code)
    shown = f'$INPUT {inp} / $DATA data.csv {opts} / file {spec["text"]!r}'
    try:
        df = read_model(path).dataset
    except Exception as e:  # noqa: BLE001
        if ref[0] == 'error' and isinstance(e, DatasetError):
            return []
        return [(fid, f'no internal error (only DatasetError) [{type(e).__name__}]',
                 f'{type(e).__name__}: {e}; reference {ref} for {shown}')]
    if ref[0] == 'error':
        return [(fid, clause + ' (documented error is raised)',
                 f'read {df.values.tolist()}; documented outcome is an error ({ref[1]}) for '
                 f'{shown}')]
    rows = ref[1]
    if len(df) != len(rows):
        return [(fid, clause, f'{len(df)} rows {df.values.tolist()} expected {rows} for {shown}')]
    for k, (name, dropped) in enumerate(zip(colnames, drop)):
        if dropped:
            continue  # a dropped column may be absent or unparsed
        if name not in df.columns:
            return [(fid, clause, f'column {name} missing in {list(df.columns)} for {shown}')]
        try:
            got = [float(x) for x in df[name].tolist()]
        except (TypeError, ValueError):
            got = df[name].tolist()
        exp = [r[k] for r in rows]
        if not _same_numbers(got, exp):
            return [(fid, clause, f'column {name}: {got} expected {exp} for {shown}')]
    extra = [c for c in df.columns if c not in [n for n in colnames if n is not None]
             and not str(c).startswith('_DROP')]
    if extra:
        return [(fid, clause, f'unexpected columns {extra} for {shown}')]
    return []


_RT_FLOATS = [0.0, 1.0, -1.5, 1.0 / 3.0, 1e-10, 123456.789, -1.2345678901234567e-100, 1e300,
              float('nan')]
_RT_INTS = [0, 7, -5, -99, 100000]


def _enumerate_roundtrip(tier):
    for a in range(len(_RT_FLOATS)):
        for b in range(len(_RT_FLOATS)):
            yield {'fam': 'roundtrip', 'kind': 'float', 'a': a, 'b': b}
    for a in range(len(_RT_INTS)):
        for b in range(len(_RT_INTS)):
            yield {'fam': 'roundtrip', 'kind': 'int', 'a': a, 'b': b}
    if tier == 'thorough':
        for a in range(len(_RT_FLOATS)):
            for b in range(len(_RT_INTS)):
                yield {'fam': 'roundtrip', 'kind': 'both', 'a': a, 'b': b}


# missing data tokens of the model's own datainfo that differ from the configured default (-99);
# none of them is a value of _RT_FLOATS / _RT_INTS
_RT_TOKENS = ['-999', '999']
_RT_STEPS = [('write_csv', 'write_model'), ('write_model',)]


def _enumerate_roundtrip_tokens(tier):
    """The round trips again for a model whose datainfo carries its own missing data token
    (quick: -999, thorough: also 999): every pair of float values (NaN included) and of integer
    values (the default token -99 included, now an ordinary number), dataset written by
    write_csv + write_model and - when a value is missing - also by write_model alone"""
    tokens = _RT_TOKENS if tier == 'thorough' else _RT_TOKENS[:1]
    nan = [i for i, v in enumerate(_RT_FLOATS) if v != v]
    for tok in tokens:
        for a in range(len(_RT_FLOATS)):
            for b in range(len(_RT_FLOATS)):
                for steps in range(len(_RT_STEPS)):
                    if steps and a not in nan and b not in nan:
                        continue
                    yield {'fam': 'roundtrip', 'kind': 'float', 'a': a, 'b': b, 'missing': tok,
                           'steps': steps}
        for a in range(len(_RT_INTS)):
            for b in range(len(_RT_INTS)):
                yield {'fam': 'roundtrip', 'kind': 'int', 'a': a, 'b': b, 'missing': tok,
                       'steps': 0}


_RT_BASE = []


def _roundtrip_base():
    if not _RT_BASE:
        from pharmpy.model import Model

        code = _MODEL_CODE.format(input='ID TIME DV', data='none.csv IGNORE=@')
        _RT_BASE.append(Model.parse_model_from_string(code))
    return _RT_BASE[0]


def _roundtrip_df(spec):
    data = {'ID': [1, 2], 'TIME': [0.0, 1.5], 'DV': [0.5, 2.0]}
    if spec['kind'] == 'float':
        data['DV'] = [_RT_FLOATS[spec['a']], _RT_FLOATS[spec['b']]]
        data['WT'] = [70.5, 80.25]
    elif spec['kind'] == 'int':
        data['NUM'] = [_RT_INTS[spec['a']], _RT_INTS[spec['b']]]
    else:
        data['WT'] = [_RT_FLOATS[spec['a']], 1.0]
        data['NUM'] = [3, _RT_INTS[spec['b']]]
    return pd.DataFrame(data)


def _roundtrip_case(spec, tmpdir):
    from pharmpy.modeling import read_model, write_csv, write_model

    fid = f'{WRITE_CSV_PY}:write_csv'
    clause = ('a dataset written for a model and read back through the generated code is equal '
              'to the model\'s dataset')
    df = _roundtrip_df(spec)
    snap = df.copy(deep=True)
    d = tempfile.mkdtemp(dir=tmpdir)
    shown = f'dataset {df.to_dict(orient="list")}'
    tok = spec.get('missing')
    datafile = 'data.csv'
    try:
        if tok is None:
            model = _roundtrip_base().replace(dataset=df)
            model = write_csv(model, path=os.path.join(d, 'data.csv'), force=True)
            model = write_model(model, os.path.join(d, 'run1.mod'), force=True)
            back = read_model(os.path.join(d, 'run1.mod')).dataset
        else:
            # the model carries its own missing data token: the dataset is written for this
            # model and the generated code is read with the model's token
            clause = ('a dataset written for a model whose datainfo has its own missing data '
                      'token and read back through the generated code with that token is equal '
                      'to the model\'s dataset')
            steps = _RT_STEPS[spec['steps']]
            shown += f', missing data token {tok!r}, calls {" -> ".join(steps)} -> read_model'
            base = _roundtrip_base()
            base = base.replace(datainfo=base.datainfo.replace(missing_data_token=tok))
            model = base.replace(dataset=df)
            if str(model.datainfo.missing_data_token) != tok:
                return [(f'{MODEL_PY}:Model.replace',
                         'replacing the dataset keeps the missing data token of the datainfo',
                         f'token {model.datainfo.missing_data_token!r} for {shown}')]
            for step in steps:
                if step == 'write_csv':
                    model = write_csv(model, path=os.path.join(d, 'data.csv'), force=True)
                else:
                    model = write_model(model, os.path.join(d, 'run1.mod'), force=True)
            if 'write_csv' not in steps:
                datafile = 'run1.csv'
            back = read_model(os.path.join(d, 'run1.mod'), missing_data_token=tok).dataset
    except Exception as e:  # noqa: BLE001
        return [(fid, f'no internal error [{type(e).__name__}]',
                 f'{type(e).__name__}: {e} for {shown}')]
    fails = []
    if not _same_df(df, snap):
        fails.append((fid, 'the dataset of the model is not modified', shown))
    ok = isinstance(back, pd.DataFrame) and list(back.columns) == list(df.columns)
    ok = ok and len(back) == len(df)
    if ok:
        for c in df.columns:
            try:
                x = np.asarray(back[c].to_numpy(), dtype=float)
            except (TypeError, ValueError):
                ok = False
                break
            y = np.asarray(df[c].to_numpy(), dtype=float)
            if not np.array_equal(x, y, equal_nan=True):
                ok = False
    if not ok:
        got = back.to_dict(orient='list') if isinstance(back, pd.DataFrame) else repr(back)
        try:
            with open(os.path.join(d, datafile)) as fh:
                written = fh.read()
        except OSError as e:
            written = f'<{datafile}: {type(e).__name__}>'
        fails.append((fid, clause, f'read back {got} for {shown}; file written: {written!r}'))
    return fails


# ---- write/read cycle of a model whose $DATA has options ------------------------------------
#
# A model read from code with row filters (IGNORE/ACCEPT lists), NULL or IGNORE=c options gets a
# NEW dataset through the API.  Whatever the order in which the dataset and the code are written,
# the model that is read back must have exactly the new dataset: the old row filters described the
# old file and must not be applied to the written one.

_CYCLE_DATA = [
    # (columns, rows): rows of the new dataset; several of them satisfy the old filters
    (['ID', 'DV', 'WT'], [[1, 1.5, 3.0], [2, 2.5, 6.0], [3, 3.5, 9.0]]),
    (['ID', 'DV', 'WT'], [[1, 0.5, 0.0], [2, 7.0, 3.0], [4, 2.0, 7.0], [5, 3.0, 2.5]]),
    (['ID', 'TIME', 'DV'], [[1, 0.0, 1.5], [2, 1.0, 2.5]]),
    (['ID', 'DV', 'WT', 'AGE'], [[2, 1.5, 3.0, 30.0], [3, 2.5, 6.0, 40.0]]),
]
_CYCLE_STEPS = [
    # the order of the API calls between replace(dataset=...) and read_model
    ('write_csv', 'write_model'),
    ('write_model',),
    ('update_source', 'write_csv', 'write_model'),
    ('write_csv', 'update_source', 'write_model'),
]
_CYCLE_BASE = {}


def _cycle_base(opt):
    if opt not in _CYCLE_BASE:
        from pharmpy.model import Model

        code = _MODEL_CODE.format(input='ID DV WT',
                                  data=('none.csv ' + _DATA_OPTS[opt][0]).strip())
        _CYCLE_BASE[opt] = Model.parse_model_from_string(code)
    return _CYCLE_BASE[opt]


def _enumerate_cycles(tier):
    for opt in range(len(_DATA_OPTS)):
        for data in range(len(_CYCLE_DATA)):
            for steps in range(len(_CYCLE_STEPS)):
                yield {'fam': 'cycle', 'opt': opt, 'data': data, 'steps': steps}


def _cycle_case(spec, tmpdir):
    from pharmpy.modeling import read_model, write_csv, write_model

    fid = f'{WRITE_CSV_PY}:write_csv'
    clause = ('a new dataset given to a model whose $DATA has IGNORE/ACCEPT, NULL or IGNORE=c '
              'options is read back unchanged through the generated code, in whatever order the '
              'dataset and the code are written (the old row filters are not applied to it)')
    columns, rows = _CYCLE_DATA[spec['data']]
    df = pd.DataFrame({c: [r[k] for r in rows] for k, c in enumerate(columns)})
    snap = df.copy(deep=True)
    steps = _CYCLE_STEPS[spec['steps']]
    d = tempfile.mkdtemp(dir=tmpdir)
    shown = (f'$DATA options {_DATA_OPTS[spec["opt"]][0]!r}, new dataset '
             f'{df.to_dict(orient="list")}, calls replace(dataset=...) -> {" -> ".join(steps)} '
             f'-> read_model')
    code = None
    try:
        model = _cycle_base(spec['opt']).replace(dataset=df)
        for step in steps:
            if step == 'write_csv':
                model = write_csv(model, path=os.path.join(d, 'data.csv'), force=True)
            elif step == 'update_source':
                model = model.update_source()
            else:
                model = write_model(model, os.path.join(d, 'run1.mod'), force=True)
        with open(os.path.join(d, 'run1.mod')) as fh:
            code = fh.read()
        back = read_model(os.path.join(d, 'run1.mod')).dataset
    except Exception as e:  # noqa: BLE001
        datarec = [ln for ln in (code or '').split('\n') if ln.startswith('$DATA')]
        return [(fid, f'no internal error [{type(e).__name__}]',
                 f'{type(e).__name__}: {e} for {shown}; generated {datarec}')]
    fails = []
    if not _same_df(df, snap):
        fails.append((fid, 'the dataset of the model is not modified', shown))
    ok = isinstance(back, pd.DataFrame) and list(back.columns) == list(df.columns)
    ok = ok and len(back) == len(df)
    if ok:
        for c in df.columns:
            try:
                x = [float(v) for v in back[c].tolist()]
            except (TypeError, ValueError):
                ok = False
                break
            if not _same_numbers(x, [float(v) for v in df[c].tolist()]):
                ok = False
    if not ok:
        got = back.to_dict(orient='list') if isinstance(back, pd.DataFrame) else repr(back)
        datarec = [ln for ln in code.split('\n') if ln.startswith('$DATA')]
        fails.append((fid, clause, f'read back {got} for {shown}; generated {datarec}'))
    return fails


# ---- IGNORE/ACCEPT filters on columns that have a synonym in $INPUT --------------------------
#
# $INPUT A=B gives a data item a reserved name and a synonym; the filter may name the column by
# either of them.  The comparison value is text of the DATA FILE: it is compared with the items
# as it is written, whatever names it happens to contain (IGNORE=(DV.EQ.NODV) with DV=CONC
# removes the rows whose item is NODV).

_SYN_INPUTS = [
    # $INPUT text, the names by which each file column can be referred to, dataset column names
    ('ID DV=CONC WT', [['ID'], ['DV', 'CONC'], ['WT']], ['ID', 'CONC', 'WT']),
    ('ID CONC=DV WT', [['ID'], ['CONC', 'DV'], ['WT']], ['ID', 'CONC', 'WT']),
    ('ID=SUBJ DV WT', [['ID', 'SUBJ'], ['DV'], ['WT']], ['SUBJ', 'DV', 'WT']),
    ('SUBJ=ID DV WT', [['SUBJ', 'ID'], ['DV'], ['WT']], ['SUBJ', 'DV', 'WT']),
    ('ID DV WT', [['ID'], ['DV'], ['WT']], ['ID', 'DV', 'WT']),
    ('ID DV=CONC WT=AMT', [['ID'], ['DV', 'CONC'], ['WT', 'AMT']], ['ID', 'CONC', 'WT']),
]
_SYN_ROWS = [['1', '1.5', '3'], ['2', '2.5', '6'], ['3', '3.5', '9']]


def _syn_names(inp):
    return [n for names in _SYN_INPUTS[inp][1] for n in names]


def _enumerate_synonym_filters(tier):
    """Every $INPUT of _SYN_INPUTS x filter column named by each of its names x text operator x
    IGNORE/ACCEPT x comparison values made from every name of the $INPUT (NO<name>; thorough:
    also <name>1 and the bare name), unquoted (the value made from the label itself - thorough:
    every value - also in quotes); the middle row of a three-row file has the value as its item
    in the filter column.  Plus one numeric filter (.GT. 2) per column name."""
    thorough = tier == 'thorough'
    ops = ['.EQ.', '.NE.', '==', '/='] if thorough else ['.EQ.', '.NE.']
    for inp in range(len(_SYN_INPUTS)):
        names = _syn_names(inp)
        for label in names:
            for op in ops:
                for kind in ('ignore', 'accept'):
                    for n in names:
                        forms = ['NO' + n] + ([n + '1', n] if thorough else [])
                        for val in forms:
                            quotes = ['', "'", '"'] if thorough else (
                                ['', "'"] if n == label else [''])
                            for q in quotes:
                                yield {'fam': 'syn', 'input': inp, 'label': label, 'op': op,
                                       'val': val, 'quote': q, 'kind': kind}
            for kind in ('ignore', 'accept'):
                yield {'fam': 'syn', 'input': inp, 'label': label, 'op': '.GT.', 'val': '2',
                       'quote': '', 'kind': kind}


def _syn_case(spec, tmpdir):
    from pharmpy.model import DatasetError
    from pharmpy.modeling import read_model

    inp, colnames_by, dsnames = _SYN_INPUTS[spec['input']]
    fid = f'{PARSING_PY}:parse_dataset'
    clause = ('an IGNORE/ACCEPT filter may name its column by the reserved name or by the $INPUT '
              'synonym; the items of that column are compared with the value as it is written '
              '(names inside the value are not replaced)')
    k = [i for i, names in enumerate(colnames_by) if spec['label'] in names][0]
    rows = [list(r) for r in _SYN_ROWS]
    if spec['op'] in _TEXT_OPS:
        rows[1][k] = spec['val']  # this row has the comparison value as its item
    text = ''.join(','.join(r) + '\n' for r in rows)
    value = spec['quote'] + spec['val'] + spec['quote']
    # the reference reader refers to the columns by position
    refnames = [f'P{i}' for i in range(len(colnames_by))]
    rspec = {'text': text, 'colnames': refnames, 'drop': [False] * len(refnames),
             spec['kind']: [f'P{k}{spec["op"]}{value}']}
    ref = _ref_read(rspec)
    opt = f'{spec["kind"].upper()}=({spec["label"]}{spec["op"]}{value})'
    d = tempfile.mkdtemp(dir=tmpdir)
    with open(os.path.join(d, 'data.csv'), 'w') as fh:
        fh.write(text)
    path = os.path.join(d, 'run1.mod')
    with open(path, 'w') as fh:
        fh.write(_MODEL_CODE.format(input=inp, data='data.csv ' + opt))
    shown = f'$INPUT {inp} / $DATA data.csv {opt} / file {text!r}'
    try:
        df = read_model(path).dataset
    except Exception as e:  # noqa: BLE001
        if ref[0] == 'error' and isinstance(e, DatasetError):
            return []
        if isinstance(e, DatasetError):
            return [(fid, clause, f'DatasetError: {e}; expected {ref[1]} for {shown}')]
        return [(fid, f'no internal error (only DatasetError) [{type(e).__name__}]',
                 f'{type(e).__name__}: {e}; reference {ref} for {shown}')]
    if ref[0] == 'error':
        return [(fid, clause + ' (documented error is raised)',
                 f'read {df.values.tolist()}; documented outcome is an error ({ref[1]}) for '
                 f'{shown}')]
    exp = ref[1]
    if not isinstance(df, pd.DataFrame) or list(df.columns) != dsnames:
        return [(fid, clause, f'columns {list(getattr(df, "columns", []))} expected {dsnames} '
                 f'for {shown}')]
    try:
        got = [[float(v) for v in r] for r in df.values.tolist()]
    except (TypeError, ValueError):
        got = df.values.tolist()
    if len(got) != len(exp) or not all(_same_numbers(g, e) for g, e in zip(got, exp)):
        return [(fid, clause, f'read {got} expected {exp} for {shown}')]
    return []


# ---- write/read cycle with special characters in the name of the data file ------------------
#
# The name of the file a dataset is written to ends up in the $DATA record of the generated code.
# NM-TRAN control stream syntax gives several characters a meaning there (";" starts a comment,
# space and "," separate options, "(" ")" "=" delimit option lists, quotes delimit a file name) and
# reserves the option keywords; pharmpy has to quote (or otherwise protect) such a name so that the
# generated code refers to the file that was written.  Whatever the name: the dataset that is read
# back through the generated code is the model's dataset.

# every printable ASCII character that is neither a letter nor a digit, except the path separator
_FN_CHARS = [c for c in map(chr, range(32, 127)) if not c.isalnum() and c != '/']
# the option keywords of $DATA (data_record.lark) and their accepted abbreviations
_FN_KEYWORDS = ['IGNORE', 'NULL', 'ACCEPT', 'NOWIDE', 'WIDE', 'CHECKOUT', 'RECORDS', 'LRECL',
                'NOREWIND', 'REWIND', 'NOOPEN', 'LAST20', 'TRANSLATE', 'BLANKOK', 'MISDAT',
                'IGN', 'ACC', 'NUL']
_FN_STEPS = [
    # how the dataset gets its file
    'write_csv(path=<name>) -> write_model(run1.mod)',  # the data file has the name
    'write_model(<stem>.mod)',  # the model file has the name, its dataset is written next to it
]


def _fn_names(tier):
    """(name, step kinds) in enumeration order"""
    out = []
    for c in _FN_CHARS:
        out.append((f'da{c}ta.csv', (0, 1)))  # inside the name
    for c in _FN_CHARS:
        out.append((f'{c}data.csv', (0, 1)))  # first character
    for c in _FN_CHARS:
        out.append((f'data.cs{c}', (0,)))  # last character
    for c in _FN_CHARS:
        out.append((f's{c}b/data.csv', (0,)))  # in the name of a sub directory (relative path)
    for kw in _FN_KEYWORDS:
        out.append((f'{kw}.csv', (0, 1)))
        out.append((kw, (0,)))
        out.append((f'x{kw}x.csv', (0, 1)))
        out.append((f'{kw.lower()}.csv', (0, 1)))
    if tier == 'thorough':
        for c1 in _FN_CHARS:
            for c2 in _FN_CHARS:
                if "'" in (c1, c2) and '"' in (c1, c2):
                    continue  # documented: a name cannot have both kinds of quotes (ValueError)
                out.append((f'da{c1}{c2}ta.csv', (0,)))
    return out


def _enumerate_filenames(tier):
    for name, kinds in _fn_names(tier):
        for steps in kinds:
            yield {'fam': 'fname', 'name': name, 'steps': steps}


def _fname_case(spec, tmpdir):
    from pharmpy.modeling import read_model, write_csv, write_model

    fid = f'{WRITE_CSV_PY}:write_csv'
    clause = ('a dataset written for a model to a file whose name (or relative path) contains '
              'characters or keywords with a meaning in $DATA is read back unchanged through the '
              'generated code')
    df = pd.DataFrame({'ID': [1, 2], 'TIME': [0.0, 1.5], 'DV': [0.5, 2.0]})
    name = spec['name']
    d = tempfile.mkdtemp(dir=tmpdir)
    shown = f'file name {name!r}, calls {_FN_STEPS[spec["steps"]]} -> read_model'
    code = None
    try:
        model = _roundtrip_base().replace(dataset=df)
        if spec['steps'] == 0:
            datapath = os.path.join(d, name)
            os.makedirs(os.path.dirname(datapath), exist_ok=True)
            modelpath = os.path.join(d, 'run1.mod')
            model = write_csv(model, path=datapath, force=True)
        else:
            stem = name[:-4] if name.endswith('.csv') else name
            modelpath = os.path.join(d, stem + '.mod')
        model = write_model(model, modelpath, force=True)
        with open(modelpath) as fh:
            code = fh.read()
        back = read_model(modelpath).dataset
    except Exception as e:  # noqa: BLE001
        datarec = [ln for ln in (code or '').split('\n') if ln.startswith('$DATA')]
        return [(fid, f'no internal error [{type(e).__name__}]',
                 f'{type(e).__name__}: {e} for {shown}; generated {datarec}')]
    ok = isinstance(back, pd.DataFrame) and list(back.columns) == list(df.columns)
    ok = ok and len(back) == len(df)
    if ok:
        for c in df.columns:
            try:
                x = [float(v) for v in back[c].tolist()]
            except (TypeError, ValueError):
                ok = False
                break
            if not _same_numbers(x, [float(v) for v in df[c].tolist()]):
                ok = False
    if not ok:
        got = back.to_dict(orient='list') if isinstance(back, pd.DataFrame) else repr(back)
        datarec = [ln for ln in code.split('\n') if ln.startswith('$DATA')]
        written = sorted(os.path.relpath(os.path.join(r, f), d)
                         for r, _, fs in os.walk(d) for f in fs)
        return [(fid, clause, f'read back {got} for {shown}; generated {datarec}; files written '
                 f'{written}')]
    return []


def _file_case(spec, tmpdir):
    if spec['fam'] == 'model':
        return _model_read_case(spec, tmpdir)
    if spec['fam'] == 'syn':
        return _syn_case(spec, tmpdir)
    if spec['fam'] == 'cycle':
        return _cycle_case(spec, tmpdir)
    if spec['fam'] == 'fname':
        return _fname_case(spec, tmpdir)
    return _roundtrip_case(spec, tmpdir)


def _file_work(chunk):
    warnings.filterwarnings('ignore')
    _single_thread()
    tmpdir = tempfile.mkdtemp(prefix='b_data_')
    out = []
    try:
        for idx, spec in chunk:
            try:
                r = _file_case(spec, tmpdir)
            except Exception as e:  # noqa: BLE001
                import traceback

                r = [('CHECKER', 'checker error', traceback.format_exc()[-800:] + repr(e))]
            out.append((idx, r))
    finally:
        shutil.rmtree(tmpdir, ignore_errors=True)
    return out


def _spec_size(spec):
    if 'text' in spec:
        return (len(spec['text']), len(spec.get('colnames', [])),
                len(spec.get('ignore') or []) + len(spec.get('accept') or []))
    return (0, 0, 0)


def bounded_dataset_reading(tier='quick'):
    import pharmpy.modeling  # noqa: F401
    from pharmpy.model.external.nonmem import dataset as _ds  # noqa: F401

    _roundtrip_base()
    for opt in range(len(_DATA_OPTS)):
        _cycle_base(opt)  # parsed once, inherited by the forked workers
    maxlen = 5 if tier == 'thorough' else 4
    best = {}
    also = {}
    cases = nontriv = 0

    def record(fid, clause, rank, case, detail):
        key = (fid, clause)
        if key not in best or rank < best[key][0]:
            best[key] = (rank, case, detail)
        lst = also.setdefault(key, [])
        if len(lst) < ALSO_CAP:
            lst.append({'spec': case, 'fid': fid, 'clause': clause})

    # A: convert_fortran_number
    prefixes = [a + b for a in _NUM_ALPHABET for b in _NUM_ALPHABET]
    jobs = [([p], maxlen) for p in prefixes] + [(list(_NUM_ALPHABET), 1)]
    ctx = multiprocessing.get_context('fork')
    with ctx.Pool(NPROC) as pool:
        for n, nt, b, allf in pool.map(_number_work, jobs, chunksize=8):
            cases += n
            nontriv += nt
            for (fid, clause), (rank, s, detail) in b.items():
                key = (fid, clause)
                if key not in best or rank < best[key][0]:
                    best[key] = (rank, {'fam': 'number', 's': s}, detail)
            for (fid, clause), strings in allf.items():
                lst = also.setdefault((fid, clause), [])
                for s in strings[:ALSO_CAP - len(lst)]:
                    lst.append({'spec': {'fam': 'number', 's': s}, 'fid': fid, 'clause': clause})
    # B: read_nonmem_dataset
    specs = list(_enumerate_reading(tier))
    for chunk in _run_pool(_read_work, list(enumerate(specs)), 400):
        for idx, r in chunk:
            if r is None:
                continue
            cases += 1
            nontriv += 1
            for fid, clause, detail in r:
                record(fid, clause, _spec_size(specs[idx]) + (idx,), specs[idx], detail)
    # C, D, E: through a model
    fspecs = (list(_enumerate_model_reads(tier)) + list(_enumerate_roundtrip(tier))
              + list(_enumerate_cycles(tier)) + list(_enumerate_roundtrip_tokens(tier))
              + list(_enumerate_synonym_filters(tier)) + list(_enumerate_filenames(tier)))
    for chunk in _run_pool(_file_work, list(enumerate(fspecs)), 12):
        for idx, r in chunk:
            if r is None:
                continue
            cases += 1
            nontriv += 1
            for fid, clause, detail in r:
                record(fid, clause, _spec_size(fspecs[idx]) + (idx,), fspecs[idx], detail)
    fails = []
    for (fid, clause), (rank, case, detail) in sorted(best.items()):
        fails.append({'fid': fid, 'clause': clause, 'detail': str(detail)[:700],
                      'case': {'spec': case, 'fid': fid, 'clause': clause},
                      'also': also[(fid, clause)][:ALSO_CAP],
                      'replay_fn': 'bounded_dataset_reading_replay'})
    bound = (
        'convert_fortran_number on every string of length <=%d over "0123456789+-.dDeE"; '
        'read_nonmem_dataset on every one-row file of <=3 items (integer, decimal, ".", empty) with '
        'each of 8 separator forms per gap (comma, space, TAB, space+comma, comma+space, '
        'space+comma+space, two spaces, TAB+space), optional leading/trailing space, 2 or 3 $INPUT '
        'columns, NULL value default/7/-; every two-row file with rows of 1-3 items (also of '
        'different length) x 1-3 columns; every file of <=3 lines from 8 comment/header/blank/data '
        'lines x IGNORE=c in {default,#,I,@} x final newline; every <=3 column row over 5 items '
        '(number, text, 25 and 24 characters, ".") x every DROP pattern; every IGNORE/ACCEPT '
        'operator (15 spellings) x 4 values x 25 two-row files and two-filter sequences; '
        'every %s file "a,b" whose second item is one of %d forms (plain numbers, ".", '
        'empty, absent because the row is short, the missing data token -99, numbers of 24 and 25 '
        'characters) x IGNORE/ACCEPT on that column with 12 operator spellings x values '
        '0/5/7/-99 x NULL value default/7; '
        '%d $INPUT forms x %d $DATA option sets x %d files read through a model; write_csv + '
        'write_model + read_model on 2-row datasets over %d float and %d integer values; '
        'a model with each of the %d $DATA option sets (IGNORE/ACCEPT lists, NULL, IGNORE=c) '
        'given one of %d new datasets, written in %d orders of write_csv / update_source / '
        'write_model and read back; the float and integer round trips again for a model whose '
        'datainfo has its own missing data token (%s), written by write_csv + write_model and, '
        'when a value is missing, by write_model alone, read back with that token; '
        '%d $INPUT forms with synonyms (DV=CONC, CONC=DV, ID=SUBJ, SUBJ=ID, WT=AMT, none) x '
        'IGNORE/ACCEPT filter on each column named by its reserved name or its synonym x text '
        'operators %s x values NO<name>%s for every name of the $INPUT (%s) on a three-row file '
        'whose middle row has the value as item, plus a numeric filter .GT. 2 per name; '
        'write/read cycle of a 2-row dataset written to a file named with each of the %d printable '
        'ASCII characters that are neither letter, digit nor "/" inside the name, as its first and '
        'as its last character and inside the name of a sub directory, and named after each of %d '
        '$DATA option keywords / abbreviations (as stem, without extension, inside the stem, in '
        'lower case)%s, the name given to write_csv or - as the name of the model file next to '
        'which write_model writes the dataset - to write_model alone'
        % (maxlen, 'two-row (also with missing data token 5; and three-row over 7 forms)'
           if tier == 'thorough' else 'two-row',
           len(_B_ITEMS), len(_INPUTS), len(_DATA_OPTS), len(_DATA_TEXTS) + 1, len(_RT_FLOATS),
           len(_RT_INTS), len(_DATA_OPTS), len(_CYCLE_DATA), len(_CYCLE_STEPS),
           ', '.join(_RT_TOKENS if tier == 'thorough' else _RT_TOKENS[:1]), len(_SYN_INPUTS),
           '.EQ. .NE. == /=' if tier == 'thorough' else '.EQ. .NE.',
           ', <name>1, <name>' if tier == 'thorough' else '',
           'unquoted and in single / double quotes' if tier == 'thorough'
           else 'unquoted; the value made from the filter label also in quotes',
           len(_FN_CHARS), len(_FN_KEYWORDS),
           ', and with every pair of such characters inside the name' if tier == 'thorough' else '')
    )
    samples = [repr(specs[0])[:160], repr(specs[len(specs) // 2])[:160], repr(fspecs[-1])[:160]]
    return {'cases': cases, 'nontrivial': nontriv, 'bound': bound, 'samples': samples,
            'fails': fails}


def bounded_dataset_reading_replay(rp):
    c = rp['case']
    spec = c['spec']
    if spec['fam'] == 'number':
        r = _number_case(spec['s'])
    elif spec['fam'] in ('model', 'roundtrip', 'cycle', 'syn', 'fname'):
        tmpdir = tempfile.mkdtemp(prefix='b_data_')
        try:
            r = _file_case(spec, tmpdir)
        finally:
            shutil.rmtree(tmpdir, ignore_errors=True)
    else:
        r = _read_case(spec)
    for fid, clause, detail in r or []:
        if fid == c['fid'] and clause == c['clause']:
            return (False, detail)
    return (True, 'ok')
