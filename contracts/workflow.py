"""Contracts for src/pharmpy/workflows/workflow.py (serves C17)."""
from pyvc.api import *

M = ModuleSpec('src/pharmpy/workflows/workflow.py', prop='C17')
# task functions, static inputs and dask keys are all opaque values of one sort ("Str" here is just
# the name of that uninterpreted sort; the literal 'results' is one of its constants)
Task = Opaque('Task', name=Str, function=Str, task_input=Seq(Str))
WF = Opaque('WF')

TRUSTED = [
    'networkx: g.nodes() lists every node once in insertion order; g.predecessors(t) lists the '
    'predecessors of t (which are nodes) in edge insertion order; nx.dfs_tree(g) has exactly the nodes '
    'of g (bounded conformance in contracts/b_search.py)',
    'uuid.uuid4() values are pairwise distinct, so every generated key "<name>-<uuid>" differs from all '
    'keys generated before and from the literal "results"; an f-string without uuid.uuid4() is an arbitrary string',
    'dask graph semantics (a tuple with a callable head is a task, strings equal to keys are references) '
    'is outside this contract: bounded check in contracts/b_search.py',
]


def _symbolic():
    import z3

    from pyvc import sym
    from pyvc.symexec import BoolV, MDict, Val
    from pyvc.sym import TBool, TSeq, TStr

    task = Task.resolve()
    wf = WF.resolve()
    G = sym.TOpaque('Graph')
    ST = TSeq(task)
    nodes_f = z3.Function('g_nodes', G.sort(), ST.sort())
    dfs_f = z3.Function('g_dfs_nodes', G.sort(), ST.sort())
    sinks_f = z3.Function('g_sinks', G.sort(), ST.sort())
    preds_f = z3.Function('g_preds', G.sort(), task.sort(), ST.sort())
    graph_f = z3.Function('wf_graph', wf.sort(), G.sort())
    uuid_key = z3.Function('is_uuid_key', TStr.sort(), z3.BoolSort())
    M.intrinsics['is_uuid_key'] = lambda ex, st, a, kw, n: Val(TBool, uuid_key(ex.to_term(a[0], TStr, st)))

    def is_node(g, t):
        q = z3.Int(sym.fresh_name('q'))
        n = nodes_f(g)
        return z3.Exists([q], z3.And(0 <= q, q < ST.f_len(n), ST.f_at(n, q) == t), patterns=[ST.f_at(n, q)])

    def seq_facts(ex, st, g):
        ops = ex.ops(st)
        n, d, s = nodes_f(g), dfs_f(g), sinks_f(g)
        for x in (n, d, s):
            ops.known(ST, x)
        p, q = z3.Ints(sym.fresh_name('p') + ' ' + sym.fresh_name('q'))
        for x in (n, d):
            st.facts.add(z3.ForAll([p, q], z3.Implies(z3.And(0 <= p, p < q, q < ST.f_len(x)),
                                                      ST.f_at(x, p) != ST.f_at(x, q)),
                                   patterns=[z3.MultiPattern(ST.f_at(x, p), ST.f_at(x, q))]))
        # dfs_tree has exactly the nodes of g
        st.facts.add(ST.f_len(d) == ST.f_len(n))
        st.facts.add(z3.ForAll([p], z3.Implies(z3.And(0 <= p, p < ST.f_len(d)), is_node(g, ST.f_at(d, p))),
                               patterns=[ST.f_at(d, p)]))
        m = z3.Int(sym.fresh_name('m'))
        st.facts.add(z3.ForAll([p], z3.Implies(z3.And(0 <= p, p < ST.f_len(n)),
                                               z3.Exists([m], z3.And(0 <= m, m < ST.f_len(d),
                                                                     ST.f_at(d, m) == ST.f_at(n, p)),
                                                         patterns=[ST.f_at(d, m)])),
                               patterns=[ST.f_at(n, p)]))
        # output tasks are nodes
        st.facts.add(z3.ForAll([p], z3.Implies(z3.And(0 <= p, p < ST.f_len(s)), is_node(g, ST.f_at(s, p))),
                               patterns=[ST.f_at(s, p)]))

    def graph_of(ex, st, selfv):
        g = graph_f(selfv.t)
        if not st.mon.get('gfacts'):
            st.mon['gfacts'] = True
            seq_facts(ex, st, g)
        return g

    @M.intrinsic('attr:_g')
    def _g(ex, st, args, kwargs, node):
        if isinstance(args[0], Val) and args[0].ty.key() == 'WF':
            return Val(G, graph_of(ex, st, args[0]))
        return NotImplemented

    @M.intrinsic('attr:output_tasks')
    def _out(ex, st, args, kwargs, node):
        if isinstance(args[0], Val) and args[0].ty.key() == 'WF':
            return Val(ST, sinks_f(graph_of(ex, st, args[0])))
        return NotImplemented

    @M.intrinsic('method:nodes')
    def _nodes(ex, st, args, kwargs, node):
        return Val(ST, nodes_f(args[0].t))

    @M.intrinsic('nx.dfs_tree')
    def _dfs(ex, st, args, kwargs, node):
        return Val(ST, dfs_f(args[0].t))

    @M.intrinsic('method:predecessors')
    def _preds(ex, st, args, kwargs, node):
        g, t = args[0].t, args[1].t
        r = preds_f(g, t)
        if not sym.has_bound_vars(r):
            ex.ops(st).known(ST, r)
            p = z3.Int(sym.fresh_name('p'))
            st.facts.add(z3.ForAll([p], z3.Implies(z3.And(0 <= p, p < ST.f_len(r)), is_node(g, ST.f_at(r, p))),
                                   patterns=[ST.f_at(r, p)]))
        return Val(ST, r)

    @M.intrinsic('isinstance')
    def _isinstance(ex, st, args, kwargs, node):
        return BoolV(True)

    @M.intrinsic('fstring')
    def _fstring(ex, st, args, kwargs, node):
        """f'{task.name}-{uuid.uuid4()}': a key different from every key issued so far and from 'results'"""
        import ast as _ast
        parts = [v.value for v in args[0].values if isinstance(v, _ast.FormattedValue)]
        if not any(_ast.unparse(v).replace(' ', '') == 'uuid.uuid4()' for v in parts):
            # a key that is not built from a fresh uuid4: an arbitrary string (may collide with any other key)
            return Val(TStr, TStr.fresh('somekey'))
        k = TStr.fresh('uuidkey')
        ids = st.env.get('ids')
        st.assume(k != sym.str_lit('results'))
        st.assume(uuid_key(k))
        if isinstance(ids, MDict):
            t = z3.Const(sym.fresh_name('t'), task.sort())
            st.assume(z3.ForAll([t], z3.Implies(ids.has(t), z3.Select(ids.arrs[0], t) != k),
                                patterns=[z3.Select(ids.keys, t)]))
        return Val(TStr, k)

    # spec helpers
    @M.intrinsic('nodes_of')
    def _nodes_of(ex, st, args, kwargs, node):
        return Val(ST, nodes_f(graph_of(ex, st, args[0])))

    @M.intrinsic('dfs_of')
    def _dfs_of(ex, st, args, kwargs, node):
        return Val(ST, dfs_f(graph_of(ex, st, args[0])))

    @M.intrinsic('sinks_of')
    def _sinks_of(ex, st, args, kwargs, node):
        return Val(ST, sinks_f(graph_of(ex, st, args[0])))

    @M.intrinsic('preds_of')
    def _preds_of(ex, st, args, kwargs, node):
        return Val(ST, preds_f(graph_of(ex, st, args[0]), args[1].t))


try:
    import z3  # noqa: F401
    _symbolic()
except ImportError:
    pass

# value stored for task t:  (t.function, *t.task_input, *[ids[p] for p in predecessors(t)])
def value_clauses(k, d, t, rng):
    """the conjuncts of `d[k] == (t.function, *t.task_input, *[ids[p] for p in preds(t)])`, each
    universally quantified by `rng` (split so that every proof obligation stays small)"""
    body = [
        (f'{k} in {d}', ''),
        (f'len({d}[{k}]) == 1 + len({t}.task_input) + len(preds_of(self, {t}))', ''),
        (f'{d}[{k}][0] == {t}.function', ''),
        (f'{d}[{k}][1 + r] == {t}.task_input[r]', f' for r in range(len({t}.task_input))'),
        (f'{d}[{k}][1 + len({t}.task_input) + r] == ids[preds_of(self, {t})[r]]',
         f' for r in range(len(preds_of(self, {t})))'),
    ]
    return [f'all({b} {rng}{inner})' for b, inner in body]


NODES = 'nodes_of(self)'
DFS = 'dfs_of(self)'
IDS_OK = [
    f'all({NODES}[p] in ids for p in range(len({NODES})))',
    f'all(implies(p != q, ids[{NODES}[p]] != ids[{NODES}[q]])'
    f'    for p in range(len({NODES})) for q in range(len({NODES})))',
    "ids[sinks_of(self)[0]] == 'results'",
    # every other key contains a fresh uuid4: unique across workflows too (a nested workflow handed to the same
    # scheduler by call_workflow must not collide with the keys of its parent)
    f"all(implies(ids[{NODES}[p]] != 'results', is_uuid_key(ids[{NODES}[p]])) for p in range(len({NODES})))",
]

M.contract(
    'Workflow.as_dask_dict',
    params={'self': WF},
    locals={'ids': DictOf(Task, Str), 'as_dict': DictOf(Str, Seq(Str))},
    raises={'ValueError': 'len(sinks_of(self)) != 1'},
    ensures=IDS_OK + value_clauses(f'ids[{NODES}[p]]', 'result', f'{NODES}[p]', f'for p in range(len({NODES}))'),
    loops=[
        Loop(counter='k0', inv=[
            f'all({NODES}[p] in ids for p in range(k0))',
            f'all(implies(p != q, ids[{NODES}[p]] != ids[{NODES}[q]]) for p in range(k0) for q in range(k0))',
            f"all(ids[{NODES}[p]] != 'results' for p in range(k0))",
            f"all(is_uuid_key(ids[{NODES}[p]]) for p in range(k0))",
        ]),
        Loop(counter='k2', inv=IDS_OK + [
            # the same facts seen through the dfs order (dfs_tree has exactly the nodes of the graph)
            f'all({DFS}[a] in ids for a in range(len({DFS})))',
            f'all(implies(a != b, ids[{DFS}[a]] != ids[{DFS}[b]])'
            f'    for a in range(len({DFS})) for b in range(len({DFS})))',
        ] + value_clauses(f'ids[{DFS}[m]]', 'as_dict', f'{DFS}[m]', 'for m in range(k2)'),
            end_hints=[
                'len(input_list) == len(task.task_input) + len(preds_of(self, task))',
                'all(input_list[len(task.task_input) + r] == ids[preds_of(self, task)[r]]'
                '    for r in range(len(preds_of(self, task))))',
                'len(value) == 1 + len(input_list)',
                'all(value[1 + j] == input_list[j] for j in range(len(input_list)))',
                'all(value[1 + len(task.task_input) + r] == ids[preds_of(self, task)[r]]'
                '    for r in range(len(preds_of(self, task))))',
                'as_dict[key] == value',
            ]),
    ],
)
