"""Bounded contract check for update_cmt / update_ode_system in src/pharmpy/model/external/nonmem/update.py
(serves C02: "any rewritten CMT/RATE data columns are mutually consistent" with the compartment numbering).

Contract, stated on the data set of the model returned by a structural transformation of a model whose
data set has an active CMT column:
  * every dose record addresses, in the compartment numbering NM-TRAN derives from the generated code
    ($MODEL order, or the fixed order of the library ADVAN), the compartment the in-memory model doses into;
  * every observation record addresses the central compartment of the in-memory model;
  * no record and no existing column other than CMT changes (a RATE column may be added, an existing one rewritten);
  * the RATE data item gives every dose record the kind of dose the in-memory model has and is 0 elsewhere;
  * $PK of the generated code assigns the reserved parameters ALAGn, Fn, Dn, Rn that the compartments of the
    in-memory model imply, with n in the numbering of the generated code.
Bound: 3 start models (bolus ADVAN1, oral ADVAN2, oral ADVAN4 with a peripheral compartment), then 2 more (oral
ADVAN2 whose data set also has a RATE column that is 0 on all records, oral ADVAN2 that already has ALAG1 and F1),
every sequence of <=1 (quick) / <=2 (thorough) of the structural transformations of contracts/b_nm.py; in the quick
tier also all ordered pairs of the transformations that add or remove compartments from the first 3 start models."""
import os
import re
import warnings

FID = 'src/pharmpy/model/external/nonmem/update.py:update_cmt'
FID_INFUSION = 'src/pharmpy/model/external/nonmem/update.py:update_infusion'
RATE_CLAUSE = ('the RATE data item gives every dose record the kind of dose the model has (none or 0: bolus, -2: '
               'modelled duration, -1: modelled rate, >0: rate in the data) and is 0 on the other records')
NPROC = 16

HEAD = """$PROBLEM cmt column
$INPUT ID TIME AMT CMT DV
$DATA data.csv IGNORE=@
"""
TAIL = """$ERROR
Y = F + F*EPS(1)
$THETA (0,1) ; POP_CL
$THETA (0,10) ; POP_V
%s$OMEGA 0.1
$OMEGA 0.1
$SIGMA 0.1
$ESTIMATION METHOD=1 INTER
"""
STARTS = {
    'bolus ADVAN1': (HEAD + "$SUBROUTINE ADVAN1 TRANS2\n$PK\nCL = THETA(1)*EXP(ETA(1))\nV = THETA(2)*EXP(ETA(2))\nS1 = V\n"
                     + TAIL % '', 1, 1),
    'oral ADVAN2': (HEAD + "$SUBROUTINE ADVAN2 TRANS2\n$PK\nCL = THETA(1)*EXP(ETA(1))\nV = THETA(2)*EXP(ETA(2))\n"
                    "KA = THETA(3)\nS2 = V\n" + TAIL % '$THETA (0,2) ; POP_KA\n', 1, 2),
    'oral ADVAN4': (HEAD + "$SUBROUTINE ADVAN4 TRANS4\n$PK\nCL = THETA(1)*EXP(ETA(1))\nV2 = THETA(2)*EXP(ETA(2))\n"
                    "KA = THETA(3)\nQ = THETA(4)\nV3 = THETA(5)\nS2 = V2\n"
                    + TAIL % '$THETA (0,2) ; POP_KA\n$THETA (0,3) ; POP_Q\n$THETA (0,20) ; POP_V3\n', 1, 2),
}
# start models added later (appended, so that the enumeration order of the first three is kept)
HEAD_RATE = HEAD.replace('AMT CMT', 'AMT RATE CMT')
STARTS.update({
    'oral ADVAN2 RATE0': (STARTS['oral ADVAN2'][0].replace(HEAD, HEAD_RATE), 1, 2),
    'oral ADVAN2 ALAG1 F1': (STARTS['oral ADVAN2'][0].replace('S2 = V\n', 'S2 = V\nALAG1 = THETA(4)\nF1 = THETA(5)\n')
                             .replace('$OMEGA', '$THETA (0,0.5) ; POP_ALAG\n$THETA (0,0.8,1) ; POP_F\n$OMEGA', 1), 1, 2),
})
# fixed compartment order of the library routines (NONMEM Users Guide VI): number = position + 1
LIBRARY = {'ADVAN1': 1, 'ADVAN2': 2, 'ADVAN3': 2, 'ADVAN4': 3, 'ADVAN11': 3, 'ADVAN12': 4}
DEPOT_FIRST = ('ADVAN2', 'ADVAN4', 'ADVAN12')


def _start(name):
    import pandas as pd
    from pharmpy.modeling import read_model_from_string

    code, dose_cmt, obs_cmt = STARTS[name]
    df = pd.DataFrame({
        'ID': [1, 1, 1, 1, 2, 2, 2, 2, 2],
        'TIME': [0.0, 1.0, 2.0, 4.0, 0.0, 1.0, 2.0, 3.0, 4.0],
        'AMT': [100, 0, 0, 0, 100, 0, 0, 50, 0],
        'CMT': [dose_cmt, obs_cmt, obs_cmt, obs_cmt, dose_cmt, obs_cmt, obs_cmt, dose_cmt, obs_cmt],
        'DV': [0.0, 5.0, 3.0, 1.0, 0.0, 6.0, 2.0, 0.0, 1.5],
    })
    if ' RATE ' in code.split('$DATA')[0]:
        df.insert(3, 'RATE', 0)
    model = read_model_from_string(code)
    return model.replace(dataset=df).update_source()


def _numbering(model):
    """compartment name -> number under NM-TRAN's reading of the generated code; None if not derivable"""
    code = model.code
    m = re.search(r'^\$SUBROUTINES?\s+.*?(ADVAN\d+)', code, flags=re.M)
    if not m:
        return None
    advan = m.group(1)
    odes = model.statements.ode_system
    mm = re.search(r'^\$MODEL\s+((?:.|\n(?!\$))*)', code, flags=re.M)
    if mm:
        names = [c.split()[0] for c in re.findall(r'COMP\w*\s*=\s*\(([^)]*)\)', mm.group(1))]
        return {n: i + 1 for i, n in enumerate(names)}
    if advan not in LIBRARY:
        return None
    central = odes.central_compartment.name
    dosing = odes.dosing_compartments[0].name
    num = {}
    if advan in DEPOT_FIRST:
        num[dosing] = 1
        num[central] = 2
    else:
        num[central] = 1
    return num


def _check(job):
    warnings.filterwarnings('ignore')
    from contracts.b_nm import _speedup, _transformations

    _speedup()
    start, seq = job
    tr = _transformations()
    try:
        m0 = _start(start)
        model = m0
        for name in seq:
            model = tr[name](model)
    except Exception:
        return (False, [])
    tag = f'{start} ; ' + (' ; '.join(seq) or '(unchanged)')
    fails = []
    try:
        df0, df = m0.dataset, model.dataset
        odes = model.statements.ode_system
        if odes is None or 'CMT' not in df.columns:
            return (False, [])
        # RATE item and reserved parameters (clauses added later; they do not depend on the CMT numbering)
        from contracts.b_nm import _RT_CLAUSE, _rate_diffs, _reserved_diffs

        more = []
        for what, detail in _rate_diffs(model, df, model.datainfo)[:1]:
            more.append((FID_INFUSION, RATE_CLAUSE, f'{tag}: {detail}'))
        seen = set()
        for what, detail in _reserved_diffs(model, model.code):
            if what not in seen:
                seen.add(what)
                more.append((_RT_CLAUSE[what][0], _RT_CLAUSE[what][1], f'{tag}: {detail}'))
        num = _numbering(model)
        if num is None:
            return (bool(more), more)
        dosing = odes.dosing_compartments[0].name
        central = odes.central_compartment.name
        # NOTE zero-order absorption adds a RATE column: new columns are allowed, existing ones must be kept
        other = [c for c in df0.columns if c != 'CMT']
        if 'RATE' in df0.columns:
            # a start model with a RATE column: the transformation may rewrite it, or drop it when it is all 0
            other = [c for c in other if c != 'RATE']
            if any(c not in df.columns for c in other + ['CMT']) or len(df) != len(df0) \
                    or not df[other].reset_index(drop=True).equals(df0[other].reset_index(drop=True)):
                fails.append((FID, 'records and the existing columns other than CMT and RATE are unchanged',
                              f'{tag}: columns {list(df0.columns)} -> {list(df.columns)}, {len(df0)} -> {len(df)} records'))
                other = None
        elif any(c not in df.columns for c in df0.columns) or len(df) != len(df0) \
                or not df[other].reset_index(drop=True).equals(df0[other].reset_index(drop=True)):
            fails.append((FID, 'records and the existing columns other than CMT are unchanged',
                          f'{tag}: columns {list(df0.columns)} -> {list(df.columns)}, {len(df0)} -> {len(df)} records'))
            other = None
        if other is not None:
            dose_rows = df['AMT'] > 0
            got_dose = sorted(set(int(v) for v in df.loc[dose_rows, 'CMT']))
            got_obs = sorted(set(int(v) for v in df.loc[~dose_rows, 'CMT']))
            if dosing in num and got_dose != [num[dosing]]:
                fails.append((FID, 'dose records address the compartment the model doses into, in the numbering of '
                              'the generated code',
                              f'{tag}: model doses into {dosing} = compartment {num[dosing]} of the generated code, '
                              f'dose records have CMT {got_dose}'))
            if central in num and got_obs != [num[central]]:
                fails.append((FID, 'observation records address the central compartment, in the numbering of the '
                              'generated code',
                              f'{tag}: central compartment {central} = compartment {num[central]}, observation '
                              f'records have CMT {got_obs}'))
        fails += more
    except Exception as exc:
        fails.append((FID, 'no internal error while checking the rewritten data set', f'{tag}: {type(exc).__name__}: {exc}'))
    return (True, fails)


def _jobs(tier):
    from contracts.b_nm import _transformations

    names = list(_transformations())
    seqs = [[]] + [[a] for a in names]
    if tier == 'thorough':
        seqs += [[a, b] for a in names for b in names]
    jobs = [(s, q) for s in STARTS for q in seqs]
    # added later (appended): two transformations that add or remove compartments, one after the other; the second
    # one renumbers compartments (and CMT values) that the first one has already renumbered
    from contracts.b_nm import _RENUMBERING

    for s in list(STARTS)[:3]:
        for a in _RENUMBERING:
            for b in _RENUMBERING:
                if (s, [a, b]) not in jobs:
                    jobs.append((s, [a, b]))
    return jobs


def bounded_cmt_columns(tier='quick'):
    import multiprocessing as mp

    jobs = _jobs(tier)
    with mp.get_context('fork').Pool(NPROC) as pool:
        res = pool.map(_check, jobs, chunksize=1)
    fails = {}
    also = {}
    nontrivial = 0
    for job, (nt, fl) in zip(jobs, res):
        nontrivial += bool(nt)
        for fid, clause, detail in fl:
            key = (fid, clause)
            size = (len(job[1]), len(str(job)))
            case = {'start': job[0], 'transformations': job[1], 'clause': clause}
            also.setdefault(key, []).append(case)
            if key not in fails or size < fails[key]['_size']:
                fails[key] = {'fid': fid, 'clause': clause, 'detail': detail, 'case': case,
                              'replay_fn': 'bounded_cmt_columns_replay', '_size': size}
    for key, f in fails.items():
        f.pop('_size')
        f['also'] = also[key][:300]  # every failing case of the clause (see tools/BOUNDED_GUIDE.md, `also`)
    return {
        'cases': len(jobs), 'nontrivial': nontrivial,
        'bound': f'{len(STARTS)} start models with an active CMT column (bolus ADVAN1, oral ADVAN2, oral ADVAN4; oral '
                 f'ADVAN2 with a RATE column that is 0 on all records; oral ADVAN2 with ALAG1 and F1) x '
                 f'sequences of <={2 if tier == "thorough" else 1} structural transformations of contracts/b_nm.py'
                 + ('' if tier == 'thorough' else '; plus, from the first 3 start models, all 64 ordered pairs of the 8 '
                    'transformations that add or remove compartments (absorption, transit, peripheral compartments)'),
        'samples': [str(jobs[1]), str(jobs[len(jobs) // 2])],
        'fails': sorted(fails.values(), key=lambda f: (f['fid'], f['clause'])),
    }


def bounded_cmt_columns_replay(rp):
    c = rp['case']
    nt, fl = _check((c['start'], list(c['transformations'])))
    hit = [f for f in fl if f[1] == c['clause']]
    if hit:
        return False, hit[0][2]
    return True, 'contract holds for this case'
