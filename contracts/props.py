"""Which sidecars decide which property (read by pyvc.cli)."""

FLOAT_AS_REAL = 'Python floats are modelled as mathematical reals (exact comparisons, real arithmetic)'
PY_SUBSET = ('Python semantics of the executed subset as encoded by pyvc.symexec (ints mathematical, '
             'sequences as len/at theories, path-by-path execution, loops cut at invariants)')

PROPS = {
    'C02': {
        'level': 'other',
        'proof': [('contracts.lcs', None), ('contracts.nm_update', ['new_advan_trans'])],
        'bounded': [('contracts.nm_update', 'src/pharmpy/model/external/nonmem/update.py:new_advan_trans',
                     'every model handed to new_advan_trans while one (quick) / two (thorough) structural setters '
                     'are applied to three start models')],
        'custom': [('contracts.b_nm', 'bounded_codegen_roundtrip'), ('contracts.b_cmt', 'bounded_cmt_columns')],
        'assumptions': [PY_SUBSET],
        'explanation': 'the edit scripts consumed by the code generator (lcs.diff) and the choice of the ADVAN/TRANS '
                       'pair (new_advan_trans: first matching library routine, a pair PREDPP accepts, ADVAN13 without '
                       'TRANS for nonlinear systems; structure predicates abstract) are proved; everything else about '
                       'C02 (parameter renaming, printer, dataset columns) is covered only by a '
                       'bounded write/read round trip of models reached by <=1 (quick) / <=2 structural '
                       'transformations and of printed expressions',
    },
    'C13': {
        'level': 'other',
        'proof': [('contracts.nmdata', None)],
        'bounded': [('contracts.nmdata', 'src/pharmpy/model/external/nonmem/dataset.py:_convert_data_item',
                     '14 item texts x 4 NULL values x 4 missing data tokens')],
        'custom': [('contracts.b_data', 'bounded_dataset_reading')],
        'assumptions': [PY_SUBSET, FLOAT_AS_REAL],
        'explanation': 'the order of the item rules in _convert_data_item (NULL substitution, 24 character limit '
                       'on the substituted item, missing data token, Fortran number) is proved for all strings '
                       'with convert_fortran_number under an assumed contract; the reader itself (regular '
                       'expressions, pandas) is only reached by a bounded contract check',
    },
    'C14': {
        'level': 'other',
        'proof': [('contracts.nmtime', None)],
        'bounded': [('contracts.nmtime', 'src/pharmpy/modeling/data.py:_translate_nonmem_time_and_date_value',
                     'TIME x DATE texts x DATE/DAT1/DAT2/DAT3 column names from a fixed list (420 quick / 945 thorough)')],
        'custom': [('contracts.b_data', 'bounded_dataset_derivations')],
        'assumptions': [PY_SUBSET, FLOAT_AS_REAL],
        'explanation': 'the NM-TRAN TIME/DATE translation that the time based derivations start from is proved '
                       'against the documented DATE forms (strings abstract); the derivations themselves are '
                       'pandas code and only reached by a bounded contract check',
    },
    'C07': {
        'level': 'exploration',
        'custom': [('contracts.b_ext', 'bounded_refactorings')],
        'assumptions': ['bounded contract check only: nothing is proved about C07 (sympy / pandas code is outside the '
                        'VC generator); expressions are compared numerically on a stated grid of inputs'],
        'explanation': 'bounded contract check only',
    },
    'C08': {
        'level': 'exploration',
        'custom': [('contracts.b_ext', 'bounded_structural_setters')],
        'assumptions': ['bounded contract check only: nothing is proved about C08'],
        'explanation': 'bounded contract check only',
    },
    'C09': {
        'level': 'exploration',
        'custom': [('contracts.b_ext', 'bounded_extensions')],
        'assumptions': ['bounded contract check only: nothing is proved about C09'],
        'explanation': 'bounded contract check only',
    },
    'C03': {
        'level': 'other',
        'proof': [('contracts.ignored', None)],
        'custom': [('contracts.b_cst', 'bounded_roundtrip'), ('contracts.b_cst', 'bounded_update_source')],
        'assumptions': [PY_SUBSET],
        'explanation': 'the tokenizer that re-creates the characters lark ignores is proved to reproduce the '
                       'covered source text exactly (tokens contiguous, each carrying its own text); the parser '
                       'round trip over generated control streams and the frame of edits are bounded checks',
    },
    'C20': {
        'level': 'other',
        'proof': [('contracts.nmtable', None), ('contracts.intmath', None)],
        'custom': [('contracts.b_rank', 'bounded_nonmem_tables')],
        'assumptions': [PY_SUBSET, FLOAT_AS_REAL],
        'explanation': 'selection of the NONMEM-designated rows (special iteration codes, documented fallbacks) '
                       'by the ExtTable accessors and triangular_root proved; the fixed-width parsing itself, '
                       'cov/cor/coi relations and the results JSON round trip are bounded checks',
    },
    'C11': {
        'level': 'other',
        'proof': [('contracts.rvs', None)],
        'custom': [('contracts.b_rvs', 'bounded_rv_algebra'), ('contracts.b_rvs', 'bounded_rv_numeric')],
        'assumptions': [PY_SUBSET, FLOAT_AS_REAL],
        'explanation': 'the overall covariance matrix is proved to be the block-diagonal composition of the '
                       'distributions (names concatenated in the same order) for all collections; join/unjoin/'
                       'indexing, the positive-semidefinite repair and the scale conversions are bounded checks',
    },
    'C17': {
        'level': 'other',
        'proof': [('contracts.workflow', None)],
        'bounded': [],
        'custom': [('contracts.b_search', 'bounded_workflows')],
        'assumptions': [PY_SUBSET],
        'explanation': 'Workflow.as_dask_dict proved for all graphs: injective keys, sink renamed, every task '
                       'stored as (function, *static inputs, *predecessor keys in predecessor order)',
    },
    'C06': {
        'level': 'other',
        'proof': [('contracts.value_classes', None), ('contracts.fmapping', None)],
        'custom': [('contracts.b_structs', 'bounded_value_classes'),
                   # the input-immutability clauses of the dataset derivations (the rest of that check serves C14)
                   ('contracts.b_data', 'bounded_dataset_derivations', None, r'is not modified|input model')],
        'assumptions': [PY_SUBSET],
        'explanation': 'eq-refl / eq-sym / eq=>hash laws proved for 11 value classes by symbolic execution of '
                       'their real __eq__/__hash__; every value class (25) and the well-formedness of created '
                       'objects checked on a bounded corpus; the frame property (no API call modifies its input) '
                       'is covered only where the bounded checks of other properties compare inputs before/after',
    },
    'C12': {
        'level': 'other',
        'proof': [('contracts.value_classes', None)],
        'custom': [('contracts.b_structs', 'bounded_modelhash'), ('contracts.b_structs', 'bounded_value_classes')],
        'assumptions': [PY_SUBSET],
        'explanation': 'eq=>to_dict-equal and from_dict(to_dict(x)) == x proved (without the JSON layer) for the '
                       'simple component classes; JSON round trips of all classes and ModelHash stability across '
                       'interpreters and build orders are bounded checks',
    },
    'C16': {
        'level': 'other',
        'proof': [('contracts.modeldb', None)],
        'bounded': [],
        'custom': [('contracts.b_db', 'bounded_store_crash')],
        'assumptions': [PY_SUBSET],
        'explanation': 'PENDING-marker protocol of transaction/snapshot proved as effect traces for every outcome; '
                       'crash points of the store operations enumerated natively (bounded)',
    },
    'C01': {
        'level': 'other',
        'proof': [('contracts.advan', None)],
        'bounded': [],
        'custom': [('contracts.b_nm', 'bounded_abbreviated_code'), ('contracts.b_nm', 'bounded_omega_theta_parse'),
                   ('contracts.b_nm', 'bounded_advan_trans')],
        'assumptions': [PY_SUBSET, FLOAT_AS_REAL],
        'explanation': 'ADVAN/TRANS kinetic tables proved equal to the PREDPP definitions for all parameter '
                       'values; abbreviated-code semantics, record parsing and the compartment wiring bounded',
    },
    'C10': {
        'level': 'other',
        'proof': [('contracts.statements_df', None)],
        'bounded': [],
        'custom': [('contracts.b_stmts', 'bounded_dataflow'), ('contracts.b_depgraph', 'bounded_depgraph')],
        'assumptions': [PY_SUBSET],
        'explanation': 'last-assignment lookup, find_assignment, find_assignment_index and reassign (exactly one '
                       'assignment of the symbol remains, it is the new one, nothing in front of the first old one '
                       'moves) proved for all statement lists, and the split of the list at the '
                       'first ODE system (_get_ode_system_index, ode_system, before_odes, after_odes, error) and the edge set of '
                       '_create_dependency_graph; dependency '
                       'analyses and the order kept by reassign bounded',
    },
    'C19': {
        'level': 'other',
        'proof': [('contracts.criteria', None)],
        'bounded': [('contracts.criteria', 'src/pharmpy/modeling/results.py:_categorize_parameters',
                     'example models pheno and moxo and five transformations of each')],
        'custom': [('contracts.b_rank', 'bounded_rank_models'), ('contracts.b_rank', 'bounded_tool_statistics')],
        'assumptions': [PY_SUBSET, FLOAT_AS_REAL],
        'explanation': 'AIC/BIC formulas and the likelihood-ratio test functions proved against their '
                       'definitions over abstract counts; ranking and tool statistics bounded',
    },
    'C05': {
        'level': 'other',
        'proof': [('contracts.statements_cs', None)],
        'bounded': [],
        'custom': [('contracts.b_stmts', 'bounded_compartmental')],
        'assumptions': [PY_SUBSET],
        'explanation': 'compartmental matrix entries and the shared compartment order of the vector accessors '
                       'proved for all graphs; _order_compartments, eqs and to_compartmental_system bounded',
    },
    'C15': {
        'level': 'proof',
        'proof': [('contracts.lock', None), ('contracts.ctxlock', None)],
        'bounded': [],
        'custom': [('contracts.lock', 'bounded_path_lock',
                    'all nestings of <=3 (quick) / <=4 (thorough) reentrant path_lock requests of one thread on 2 real files')],
        'assumptions': [PY_SUBSET],
        'explanation': 'monitor invariants of lock.py for any number of threads (per process)',
    },
    'C18': {
        'level': 'other',
        'proof': [('contracts.modelsearch', None)],
        'bounded': [],
        'custom': [('contracts.b_search', 'bounded_mfl'), ('contracts.b_search', 'bounded_enumeration')],
        'assumptions': [PY_SUBSET],
        'explanation': 'peripheral step rule of the stepwise search proved against docs/modelsearch.rst',
    },
    'C04': {
        'level': 'other',
        'proof': [('contracts.lcs', None), ('contracts.nm_update', ['reorder_diff'])],
        'bounded': [('contracts.lcs', 'src/pharmpy/internals/sequence/lcs.py:diff',
                     'all pairs of sequences over {a,b,c} up to length 4 (quick) / 5 (thorough)')],
        'custom': [('contracts.b_db', 'bounded_record_updates')],
        'assumptions': [PY_SUBSET],
        'explanation': 'edit-script correctness of lcs.diff/_diff/_matrix proved for all sequences',
    },
}
