"""Which sidecars decide which property (read by pyvc.cli)."""

FLOAT_AS_REAL = 'Python floats are modelled as mathematical reals (exact comparisons, real arithmetic)'
PY_SUBSET = ('Python semantics of the executed subset as encoded by pyvc.symexec (ints mathematical, '
             'sequences as len/at theories, path-by-path execution, loops cut at invariants)')

PROPS = {
    'C07': {
        'level': 'exploration',
        'custom': [('contracts.b_ext', 'bounded_refactorings')],
        'assumptions': ['bounded contract check only: nothing is proved about C07 (sympy / pandas code is outside the '
                        'VC generator); expressions are compared numerically on a stated grid of inputs'],
        'explanation': 'bounded contract check only',
    },
    'C08': {
        'level': 'exploration',
        'custom': [('contracts.b_ext', 'bounded_structural_setters')],
        'assumptions': ['bounded contract check only: nothing is proved about C08'],
        'explanation': 'bounded contract check only',
    },
    'C09': {
        'level': 'exploration',
        'custom': [('contracts.b_ext', 'bounded_extensions')],
        'assumptions': ['bounded contract check only: nothing is proved about C09'],
        'explanation': 'bounded contract check only',
    },
    'C03': {
        'level': 'other',
        'proof': [('contracts.ignored', None)],
        'assumptions': [PY_SUBSET],
        'explanation': 'the tokenizer that re-creates the characters lark ignores is proved to reproduce the '
                       'covered source text exactly (tokens contiguous, each carrying its own text); the parser '
                       'round trip over generated control streams and the frame of edits are bounded checks',
    },
    'C20': {
        'level': 'other',
        'proof': [('contracts.nmtable', None), ('contracts.intmath', None)],
        'custom': [('contracts.b_rank', 'bounded_nonmem_tables')],
        'assumptions': [PY_SUBSET, FLOAT_AS_REAL],
        'explanation': 'selection of the NONMEM-designated rows (special iteration codes, documented fallbacks) '
                       'by the ExtTable accessors and triangular_root proved; the fixed-width parsing itself, '
                       'cov/cor/coi relations and the results JSON round trip are bounded checks',
    },
    'C11': {
        'level': 'other',
        'proof': [('contracts.rvs', None)],
        'assumptions': [PY_SUBSET, FLOAT_AS_REAL],
        'explanation': 'the overall covariance matrix is proved to be the block-diagonal composition of the '
                       'distributions (names concatenated in the same order) for all collections; join/unjoin/'
                       'indexing, the positive-semidefinite repair and the scale conversions are bounded checks',
    },
    'C17': {
        'level': 'other',
        'proof': [('contracts.workflow', None)],
        'bounded': [],
        'assumptions': [PY_SUBSET],
        'explanation': 'Workflow.as_dask_dict proved for all graphs: injective keys, sink renamed, every task '
                       'stored as (function, *static inputs, *predecessor keys in predecessor order)',
    },
    'C06': {
        'level': 'other',
        'proof': [('contracts.value_classes', None)],
        'custom': [('contracts.b_structs', 'bounded_value_classes')],
        'assumptions': [PY_SUBSET],
        'explanation': 'eq-refl / eq-sym / eq=>hash laws proved for 11 value classes by symbolic execution of '
                       'their real __eq__/__hash__; every value class (25) and the well-formedness of created '
                       'objects checked on a bounded corpus; the frame property (no API call modifies its input) '
                       'is covered only where the bounded checks of other properties compare inputs before/after',
    },
    'C12': {
        'level': 'other',
        'proof': [('contracts.value_classes', None)],
        'custom': [('contracts.b_structs', 'bounded_modelhash'), ('contracts.b_structs', 'bounded_value_classes')],
        'assumptions': [PY_SUBSET],
        'explanation': 'eq=>to_dict-equal and from_dict(to_dict(x)) == x proved (without the JSON layer) for the '
                       'simple component classes; JSON round trips of all classes and ModelHash stability across '
                       'interpreters and build orders are bounded checks',
    },
    'C16': {
        'level': 'other',
        'proof': [('contracts.modeldb', None)],
        'bounded': [],
        'assumptions': [PY_SUBSET],
        'explanation': 'PENDING-marker protocol of transaction/snapshot proved as effect traces for every outcome; '
                       'crash points of the store operations enumerated natively (bounded)',
    },
    'C01': {
        'level': 'other',
        'proof': [('contracts.advan', None)],
        'bounded': [],
        'assumptions': [PY_SUBSET, FLOAT_AS_REAL],
        'explanation': 'ADVAN/TRANS kinetic tables proved equal to the PREDPP definitions for all parameter '
                       'values; abbreviated-code semantics, record parsing and the compartment wiring bounded',
    },
    'C10': {
        'level': 'other',
        'proof': [('contracts.statements_df', None)],
        'bounded': [],
        'assumptions': [PY_SUBSET],
        'explanation': 'last-assignment lookup proved for all statement lists; dependency analyses bounded',
    },
    'C19': {
        'level': 'other',
        'proof': [('contracts.criteria', None)],
        'bounded': [],
        'custom': [('contracts.b_rank', 'bounded_rank_models'), ('contracts.b_rank', 'bounded_tool_statistics')],
        'assumptions': [PY_SUBSET, FLOAT_AS_REAL],
        'explanation': 'AIC/BIC formulas and the likelihood-ratio test functions proved against their '
                       'definitions over abstract counts; ranking and tool statistics bounded',
    },
    'C05': {
        'level': 'other',
        'proof': [('contracts.statements_cs', None)],
        'bounded': [],
        'assumptions': [PY_SUBSET],
        'explanation': 'compartmental matrix entries and the shared compartment order of the vector accessors '
                       'proved for all graphs; _order_compartments, eqs and to_compartmental_system bounded',
    },
    'C15': {
        'level': 'proof',
        'proof': [('contracts.lock', None)],
        'bounded': [],
        'custom': [('contracts.lock', 'bounded_path_lock',
                    'all nestings of <=3 (quick) / <=4 (thorough) reentrant path_lock requests of one thread on 2 real files')],
        'assumptions': [PY_SUBSET],
        'explanation': 'monitor invariants of lock.py for any number of threads (per process)',
    },
    'C18': {
        'level': 'other',
        'proof': [('contracts.modelsearch', None)],
        'bounded': [],
        'assumptions': [PY_SUBSET],
        'explanation': 'peripheral step rule of the stepwise search proved against docs/modelsearch.rst',
    },
    'C04': {
        'level': 'other',
        'proof': [('contracts.lcs', None), ('contracts.nm_update', None)],
        'bounded': [('contracts.lcs', 'src/pharmpy/internals/sequence/lcs.py:diff',
                     'all pairs of sequences over {a,b,c} up to length 4 (quick) / 5 (thorough)')],
        'assumptions': [PY_SUBSET],
        'explanation': 'edit-script correctness of lcs.diff/_diff/_matrix proved for all sequences',
    },
}
