"""Contracts for src/pharmpy/tools/modelsearch/algorithms.py (serves C18)."""
import ast

from pyvc.api import *

M = ModuleSpec('src/pharmpy/tools/modelsearch/algorithms.py', prop='C18')

# a transformation function for PERIPHERALS(n): functools.partial(..., n=n)  ->  attribute n
PFunc = Opaque('PFunc', n=Int)
# the dict FeatureKey -> function; only the PERIPHERALS counts, in dict order, matter here
MflFuncs = Opaque('MflFuncs', periph_ns=Seq(Int))

N_ALL_SRC = "list((args[0] for kind, *args in mfl_funcs if kind == 'PERIPHERALS'))"


@M.intrinsic('listcomp')
def _listcomp(ex, st, args, kwargs, node):
    """ABSTRACTION (listed in evidence): the one filtered comprehension of _is_allowed_peripheral,
    `args[0] for (kind, *args) in mfl_funcs if kind == 'PERIPHERALS'`, is the sequence of
    PERIPHERALS counts of the search space in key order."""
    from pyvc.symexec import MList, OutOfSubset

    src = ast.unparse(node)
    if src != "[args[0] for kind, *args in mfl_funcs if kind == 'PERIPHERALS']":
        raise OutOfSubset('unexpected filtered comprehension: ' + src)
    v = st.env['mfl_funcs']
    ty = v.ty.attrs['periph_ns']
    t = v.ty.attr_fn('periph_ns')(v.t)
    ex.ops(st).known(ty, t)
    return MList(ty, t)


@M.intrinsic('getitem')
def _getitem(ex, st, args, kwargs, node):
    """func.keywords['n'] of a functools.partial -> attribute n of the abstract PFunc"""
    import z3
    from pyvc import sym
    from pyvc.symexec import BoundMethod, Val

    base, idx = args
    if isinstance(base, BoundMethod) and base.name == 'keywords' and isinstance(base.base, Val) \
            and base.base.ty.key() == 'PFunc' and z3.eq(idx.t, sym.str_lit('n')):
        return Val(sym.TInt, base.base.ty.attr_fn('n')(base.base.t))
    return NotImplemented


M.contract(
    '_is_allowed_peripheral',
    params={'func_current': PFunc, 'peripheral_previous': Seq(PFunc), 'mfl_funcs': MflFuncs},
    returns=Bool,
    requires=[
        # the counts are keys of a dict, hence pairwise distinct (in ANY order); the candidate is one
        # of them
        'all(implies(q != r, mfl_funcs.periph_ns[q] != mfl_funcs.periph_ns[r])'
        '    for q in range(len(mfl_funcs.periph_ns)) for r in range(len(mfl_funcs.periph_ns)))',
        'any(x == func_current.n for x in mfl_funcs.periph_ns)',
        # previously applied transformations come from the same dict
        'all(any(x == p.n for x in mfl_funcs.periph_ns) for p in peripheral_previous)',
    ],
    ensures=[
        # docs/modelsearch.rst: "peripheral compartments are always run sequentially, i.e. the
        # algorithm will never add more than one compartment at a given step": the first step is
        # the smallest count, every later step is the next larger count of the space
        'implies(len(peripheral_previous) == 0, '
        '        result == all(func_current.n <= x for x in mfl_funcs.periph_ns))',
        'implies(len(peripheral_previous) > 0 and result, '
        '        all(p.n < func_current.n for p in peripheral_previous))',
        'implies(len(peripheral_previous) > 0 and result, '
        '        all(implies(x < func_current.n, any(p.n >= x for p in peripheral_previous))'
        '            for x in mfl_funcs.periph_ns))',
        'implies(len(peripheral_previous) > 0 and RULE, result)',
    ],
    exit_hints=[
        'all(n_prev[q] == peripheral_previous[q].n for q in range(len(n_prev)))',
        # n_all is the sorted list of the counts: same elements, strictly increasing
        'all(implies(a < b, n_all[a] <= n_all[b]) for a in range(len(n_all)) for b in range(len(n_all)))',
        'all(implies(a != b, n_all[a] != n_all[b]) for a in range(len(n_all)) for b in range(len(n_all)))',
        'all(implies(a < b, n_all[a] < n_all[b]) for a in range(len(n_all)) for b in range(len(n_all)))',
        'implies(n_index > 0, n_all[n_index - 1] < n)',
        'implies(n_index > 0, any(x == n_all[n_index - 1] for x in mfl_funcs.periph_ns))',
        'implies(RULE, any(j < n_index and n_all[j] == max(n_prev) for j in range(len(n_all))))',
        'implies(RULE, n_index > 0)',
        'implies(RULE, n_all[n_index - 1] <= max(n_prev))',
        'implies(RULE, n_all[n_index - 1] >= max(n_prev))',
    ],
)

TRUSTED = ['abstraction of mfl_funcs to its PERIPHERALS counts in key order (one comprehension)',
           'functools.partial(...).keywords["n"] modelled as an attribute']


def gen_periph(tier):
    from pyvc.native import Opq
    import itertools

    maxn = 4 if tier == 'quick' else 5
    for k in range(1, maxn + 1):
        for ns in itertools.combinations(range(0, maxn + 1), k):
            for n in ns:
                others = [x for x in ns if x != n]
                for r in range(0, len(others) + 1):
                    for prev in itertools.permutations(others, r):
                        yield {'func_current': Opq('PFunc', f'f{n}', {'n': n}),
                               'peripheral_previous': [Opq('PFunc', f'f{x}', {'n': x}) for x in prev],
                               'mfl_funcs': Opq('MflFuncs', 'm', {'periph_ns': list(ns)})}


def _adapt(kw):
    """native adapter: build real functools.partial objects and a real key dict"""
    from functools import partial

    def f(model, n=None):
        return model

    funcs = {('ABSORPTION', 'FO'): partial(f)}
    funcs.update({('PERIPHERALS', n): partial(f, n=n) for n in kw['mfl_funcs'].periph_ns})
    funcs[('LAGTIME', 'ON')] = partial(f)
    return {'func_current': partial(f, n=kw['func_current'].n),
            'peripheral_previous': [partial(f, n=p.n) for p in kw['peripheral_previous']],
            'mfl_funcs': funcs}


class _NS:
    def __init__(self, **kw):
        self.__dict__.update(kw)


c = M.contracts['_is_allowed_peripheral']
c.defs = {'RULE': '(all(p.n < func_current.n for p in peripheral_previous) and '
                  'all(implies(x < func_current.n, any(p.n >= x for p in peripheral_previous)) '
                  'for x in mfl_funcs.periph_ns))'}
c.domain = 'gen_periph'
c.native_adapter = _adapt
