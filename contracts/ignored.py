"""Contract for _tokenize_ignored_characters in src/pharmpy/internals/parse/ignored.py (serves C03):
the tokens re-created for the characters that lark ignored (whitespace, comments, newlines,
continuations) concatenate to exactly the source text they cover."""
from pyvc.api import *

M = ModuleSpec('src/pharmpy/internals/parse/ignored.py', prop='C03')
M.char_strings = True
Tok = Tuple(Str, Seq(Int), Int, Int)   # (type, value, start_pos, end_pos)

cat = M.fold('cat', Seq(Tok), Seq(Int), '[]', 'lambda acc, e: acc + e[1]', homomorphic=True)

TRUSTED = [
    'a str is the sequence of its character codes; slicing and == are sequence slicing and equality',
    'lark.Token(type, value, start_pos=, end_pos=) is a record of these four fields and str(token) is '
    'its value',
    'the asserts of the tokenizer may fire on text that is not made of ignorable lexemes: the contract '
    'allows AssertionError and states the post-condition for normal termination (the precondition '
    '"s[i:j] consists of ignorable lexemes" is checked by the bounded round-trip runs)',
]


def _symbolic():
    import z3
    from pyvc.symexec import PyTuple, Val, IntV
    from pyvc.sym import TInt

    # WS and LF are read from the module source (set literals of characters)
    M.use_module_literals = ('WS', 'LF')

    @M.intrinsic('Token')
    def _token(ex, st, args, kwargs, node):
        return PyTuple([args[0], args[1], kwargs['start_pos'], kwargs['end_pos']])


try:
    import z3  # noqa: F401
    _symbolic()
except ImportError:
    pass

INV = [
    'old(i) <= i <= j', 'j <= len(s)', 'head == i',
    'cat(result) == s[old(i):i]',
    'all(result[k][1] == s[result[k][2]:result[k][3]] for k in range(len(result)))',
    'all(old(i) <= result[k][2] < result[k][3] <= i for k in range(len(result)))',
    'all(result[k][3] == result[k + 1][2] for k in range(len(result) - 1))',
    'implies(len(result) > 0, result[0][2] == old(i) and result[len(result) - 1][3] == i)',
    'implies(len(result) == 0, i == old(i))',
]
INNER = ['old(i) <= i < head <= j', 'j <= len(s)', 'first == s[i]'] + INV[3:]

M.contract(
    '_tokenize_ignored_characters',
    params={'s': Seq(Int), 'i': Int, 'j': Int},
    returns=Seq(Tok), generator=True,
    requires=['0 <= i <= j <= len(s)'],
    raises={'AssertionError': True},
    ensures=[
        # the yielded tokens, concatenated, are exactly the ignored text
        'cat(result) == s[old(i):j]',
        # every token carries the text at its own position, tokens are contiguous and cover [i, j)
        'all(result[k][1] == s[result[k][2]:result[k][3]] for k in range(len(result)))',
        'all(result[k][3] == result[k + 1][2] for k in range(len(result) - 1))',
        'implies(len(result) > 0, result[0][2] == old(i) and result[len(result) - 1][3] == j)',
        'implies(old(i) < j, len(result) > 0)',
    ],
    loops=[
        Loop(inv=INV, decreases='j - i'),
        Loop(inv=INNER, decreases='j - head'),
        Loop(inv=INNER, decreases='j - head'),
        Loop(inv=INNER, decreases='j - head'),
    ],
)
