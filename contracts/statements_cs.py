"""Contracts for CompartmentalSystem in src/pharmpy/model/statements.py (serves C05)."""
from pyvc.api import *

M = ModuleSpec('src/pharmpy/model/statements.py', prop='C05')
Comp = Opaque('Comp', amount=Opaque('AmountFn'), name=Str, input=Real)
CS = Opaque('CS')
M.consts['output'] = Comp

TRUSTED = [
    'rates are elements of a commutative ring, modelled as reals (symengine arithmetic is assumed to '
    'implement ring arithmetic)',
    'symengine.zeros(n) is an n x n zero matrix; f[j, i] = v stores one entry; Matrix(f) keeps entries',
    'ASSUMED CONTRACT (bounded check in contracts/b_stmts.py): _order_compartments() returns every '
    'compartment exactly once',
    'get_flow(a, b) is a pure function of the graph',
]


def _symbolic():
    import z3

    from pyvc import sym
    from pyvc.symexec import MMatrix, Val
    from pyvc.sym import TInt, TReal, TSeq

    comp = Comp.resolve()
    cs = CS.resolve()
    flow = z3.Function('flow', cs.sort(), comp.sort(), comp.sort(), z3.RealSort())
    nodes_of = z3.Function('ordered_compartments', cs.sort(), TSeq(comp).sort())
    # S(self, i, n) = sum of flow(nodes[i] -> nodes[q]) for q < n   (recursive spec function)
    S = z3.Function('rowsum', cs.sort(), z3.IntSort(), z3.IntSort(), z3.RealSort())

    @M.intrinsic('method:get_flow')
    def _get_flow(ex, st, args, kwargs, node):
        self_, a, b = args
        return Val(TReal, flow(self_.t, a.t, b.t))

    @M.intrinsic('method:_order_compartments')
    def _order(ex, st, args, kwargs, node):
        ty = TSeq(comp)
        t = nodes_of(args[0].t)
        ex.ops(st).known(ty, t)
        p, q = z3.Ints(sym.fresh_name('p') + ' ' + sym.fresh_name('q'))
        # assumed contract of _order_compartments: no duplicates, output is not a compartment
        st.facts.add(z3.ForAll([p, q], z3.Implies(z3.And(0 <= p, p < q, q < ty.f_len(t)),
                                                  ty.f_at(t, p) != ty.f_at(t, q)),
                               patterns=[z3.MultiPattern(ty.f_at(t, p), ty.f_at(t, q))]))
        return Val(ty, t)

    @M.intrinsic('symengine.zeros')
    def _zeros(ex, st, args, kwargs, node):
        n = ex.to_term(args[0], TInt, st)
        return MMatrix.zeros(n, n)

    @M.intrinsic('Matrix')
    def _matrix(ex, st, args, kwargs, node):
        return args[0]

    @M.intrinsic('rowsum')
    def _rowsum(ex, st, args, kwargs, node):
        """spec function; every mention unfolds its recursive definition once"""
        self_, i, n = args
        ty = TSeq(comp)
        nd = nodes_of(self_.t)
        it, nt = ex.to_term(i, TInt, st), ex.to_term(n, TInt, st)
        st.facts.add(S(self_.t, it, 0) == 0)
        if not sym.has_bound_vars(it) and not sym.has_bound_vars(nt):
            st.facts.add(z3.Implies(nt > 0, S(self_.t, it, nt) == S(self_.t, it, nt - 1)
                                    + flow(self_.t, ty.f_at(nd, it), ty.f_at(nd, nt - 1))))
        return Val(TReal, S(self_.t, it, nt))

    @M.intrinsic('flow')
    def _flow(ex, st, args, kwargs, node):
        return Val(TReal, flow(args[0].t, args[1].t, args[2].t))

    @M.intrinsic('nodes_of')
    def _nodes(ex, st, args, kwargs, node):
        return _order(ex, st, args, kwargs, node)


try:
    import z3  # noqa: F401
    _symbolic()
except ImportError:
    pass

M.contract(
    'CompartmentalSystem.compartmental_matrix',
    params={'self': CS},
    ensures=[
        # off-diagonal: entry [j, i] is the rate of the flow from compartment i to compartment j
        'all(implies(i != j, result[j, i] == flow(self, nodes_of(self)[i], nodes_of(self)[j]))'
        '    for i in range(len(nodes_of(self))) for j in range(len(nodes_of(self))))',
        # diagonal: minus everything that leaves compartment i (to every compartment and to output)
        'all(result[i, i] == -rowsum(self, i, len(nodes_of(self))) - flow(self, nodes_of(self)[i], output)'
        '    for i in range(len(nodes_of(self))))',
    ],
    loops=[
        Loop(counter='ki', inv=[
            'size == len(nodes)', 'nodes == nodes_of(self)',
            'all(implies(p != q, f[q, p] == flow(self, nodes[p], nodes[q]))'
            '    for p in range(ki) for q in range(size))',
            'all(f[p, p] == -rowsum(self, p, size) - flow(self, nodes[p], output) for p in range(ki))',
        ]),
        Loop(counter='kj', inv=[
            'size == len(nodes)', 'nodes == nodes_of(self)', 'from_comp == nodes[i]', '0 <= i < size',
            'all(implies(p != q, f[q, p] == flow(self, nodes[p], nodes[q]))'
            '    for p in range(i) for q in range(size))',
            'all(f[p, p] == -rowsum(self, p, size) - flow(self, nodes[p], output) for p in range(i))',
            'all(implies(q != i, f[q, i] == flow(self, nodes[i], nodes[q])) for q in range(kj))',
            'diagsum == -rowsum(self, i, kj)',
        ]),
    ],
)


# the three vector accessors are the elementwise image of the SAME compartment order
for q, attr in (('CompartmentalSystem.amounts', 'amount'), ('CompartmentalSystem.compartment_names', 'name'),
                ('CompartmentalSystem.zero_order_inputs', 'input')):
    M.contract(
        q,
        params={'self': CS},
        ensures=[
            'len(result) == len(nodes_of(self))',
            f'all(result[k] == nodes_of(self)[k].{attr} for k in range(len(nodes_of(self))))',
        ],
    )
