"""Bounded contract checks for C18 (search spaces parsed / combined / enumerated exactly) and
C17 (workflows execute as their task graph specifies).

Three checks (each with a replay function), run with
    PYTHONPATH=/verif /venv/bin/python -m pyvc.native custom contracts.b_search <fn> quick

  bounded_mfl          MFL parse / print / algebra of ModelFeatures against explicitly expanded sets
  bounded_enumeration  partitions / subsets / all_combinations / _is_allowed / modelsearch and iivsearch
                       candidate enumeration (task graphs are only built, nothing is fitted)
  bounded_workflows    Workflow / WorkflowBuilder composition and execution against a reference
                       topological evaluation

Everything is enumerated (nested loops / itertools over small alphabets), nothing is sampled.  The
references (expansion of a search space, set partitions, stepwise path rules, topological evaluation)
are written here independently of the code under contract.
"""
import itertools
import warnings
from collections import defaultdict

warnings.filterwarnings('ignore')

NPROC = 16

# ======================================================================================
# (1) MFL: parse / print / algebra
# ======================================================================================

MFL_PARSE = 'src/pharmpy/tools/mfl/parse.py'
MFL_STR = 'src/pharmpy/tools/mfl/stringify.py'

ABS_ALL = ('FO', 'ZO', 'SEQ-ZO-FO', 'INST')
ELIM_ALL = ('FO', 'ZO', 'MM', 'MIX-FO-MM')
LAG_ALL = ('ON', 'OFF')
DEPOT_ALL = ('DEPOT', 'NODEPOT')
PMODE_ALL = ('DRUG', 'MET')
PD_ALL = ('LINEAR', 'EMAX', 'SIGMOID')
PROD_ALL = ('DEGRADATION', 'PRODUCTION')
MET_ALL = ('PSC', 'BASIC')
FP_ALL = ('LIN', 'PIECE_LIN', 'EXP', 'POW')  # grammar.py: "* for all continuous effects"

PK_CATS = ('ABSORPTION', 'ELIMINATION', 'TRANSITS', 'PERIPHERALS', 'LAGTIME')
# docs/modelsearch.rst, table "DEFAULT"
PK_DEFAULT = {
    'ABSORPTION': ('INST',),
    'ELIMINATION': ('FO',),
    'TRANSITS': (0, 'DEPOT'),
    'PERIPHERALS': (0, 'DRUG'),
    'LAGTIME': ('OFF',),
}
OTHER_CATS = ('DIRECTEFFECT', 'EFFECTCOMP', 'INDIRECTEFFECT', 'METABOLITE', 'ALLOMETRY')
ALL_CATS = PK_CATS + ('COVARIATE',) + OTHER_CATS


class Unit:
    """one feature description of the generated grammar with its independently known meaning"""

    __slots__ = ('text', 'cat', 'atoms', 'forced', 'core', 'ref')

    def __init__(self, text, cat, atoms, core=False):
        self.text = text
        self.cat = cat
        self.atoms = frozenset(atoms)
        # (parameter, covariate) pairs forced by a mandatory COVARIATE statement
        self.forced = frozenset((a[0], a[1]) for a in atoms if cat == 'COVARIATE' and not a[4])
        self.core = core
        self.ref = '@' in text


def _build_units():
    units = []

    def names(cat, kw, options, core=()):
        for text, vals in options:
            units.append(Unit(f'{kw}({text})', cat, [(v,) for v in vals], core=text in core))

    names('ABSORPTION', 'ABSORPTION', [
        ('FO', ['FO']), ('ZO', ['ZO']), ('SEQ-ZO-FO', ['SEQ-ZO-FO']), ('INST', ['INST']),
        ('[FO,ZO]', ['FO', 'ZO']), ('[ZO,FO]', ['FO', 'ZO']),
        ('[FO,ZO,SEQ-ZO-FO]', ['FO', 'ZO', 'SEQ-ZO-FO']), ('[INST,FO]', ['INST', 'FO']),
        ('*', ABS_ALL)], core=('FO', 'INST', '[ZO,FO]', '*'))
    units.append(Unit('absorption( [fo , Seq-ZO-fo] )', 'ABSORPTION', [('FO',), ('SEQ-ZO-FO',)]))
    names('ELIMINATION', 'ELIMINATION', [
        ('FO', ['FO']), ('ZO', ['ZO']), ('MM', ['MM']), ('MIX-FO-MM', ['MIX-FO-MM']),
        ('[FO,MM]', ['FO', 'MM']), ('[MM,FO]', ['FO', 'MM']), ('[FO,ZO,MM]', ['FO', 'ZO', 'MM']),
        ('[MM,MIX-FO-MM]', ['MM', 'MIX-FO-MM']), ('*', ELIM_ALL)], core=('FO', 'MM', '[FO,ZO,MM]', '*'))
    counts = [('0', [0]), ('1', [1]), ('2', [2]), ('0..2', [0, 1, 2]), ('1..3', [1, 2, 3]),
              ('[0,1]', [0, 1]), ('[1,5,3]', [1, 5, 3]), ('[2,0]', [2, 0])]
    pmodes = [('', ['DRUG']), (',MET', ['MET']), (',*', PMODE_ALL), (',DRUG', ['DRUG']),
              (',[DRUG,MET]', PMODE_ALL)]
    for ct, cv in counts:
        for mt, mv in pmodes:
            if mt in (',DRUG', ',[DRUG,MET]') and ct not in ('1', '0..2'):
                continue
            core = (ct, mt) in (('0', ''), ('1', ''), ('0..2', ''), ('[1,5,3]', ''), ('1', ',MET'),
                                ('[2,0]', ',MET'), ('1..3', ',*'))
            units.append(Unit(f'PERIPHERALS({ct}{mt})', 'PERIPHERALS',
                              [(c, m) for c in cv for m in mv], core=core))
    tcounts = [('0', [0]), ('1', [1]), ('3', [3]), ('0..2', [0, 1, 2]), ('1..3', [1, 2, 3]),
               ('[0,1,3]', [0, 1, 3]), ('[3,1]', [3, 1])]
    dmodes = [('', ['DEPOT']), (',NODEPOT', ['NODEPOT']), (',*', DEPOT_ALL), (',DEPOT', ['DEPOT']),
              (',[DEPOT,NODEPOT]', DEPOT_ALL)]
    for ct, cv in tcounts:
        for mt, mv in dmodes:
            if mt in (',DEPOT', ',[DEPOT,NODEPOT]') and ct not in ('1', '[0,1,3]'):
                continue
            core = (ct, mt) in (('0', ''), ('1', ''), ('[0,1,3]', ''), ('[3,1]', ',NODEPOT'),
                                ('1', ',NODEPOT'), ('0..2', ',*'))
            units.append(Unit(f'TRANSITS({ct}{mt})', 'TRANSITS',
                              [(c, m) for c in cv for m in mv], core=core))
    names('LAGTIME', 'LAGTIME', [('ON', ['ON']), ('OFF', ['OFF']), ('[ON,OFF]', LAG_ALL),
                                 ('[OFF,ON]', LAG_ALL), ('*', LAG_ALL)], core=('ON', '[OFF,ON]', '*'))

    def cov(text, params, covs, fps, op, opt, core=False):
        units.append(Unit(text, 'COVARIATE',
                          [(p, c, f, op, opt) for p in params for c in covs for f in fps], core=core))

    cov('COVARIATE?([CL,V],[WGT],[EXP,POW],*)', ['CL', 'V'], ['WGT'], ['EXP', 'POW'], '*', True, True)
    cov('COVARIATE(CL,WGT,EXP)', ['CL'], ['WGT'], ['EXP'], '*', False, True)
    cov('COVARIATE?(CL,WGT,EXP)', ['CL'], ['WGT'], ['EXP'], '*', True, True)
    cov('COVARIATE?(V,[WGT,AGE],*)', ['V'], ['WGT', 'AGE'], FP_ALL, '*', True)
    cov('COVARIATE([CL,V],WGT,POW,+)', ['CL', 'V'], ['WGT'], ['POW'], '+', False, True)
    cov('COVARIATE(V,AGE,[LIN,EXP])', ['V'], ['AGE'], ['LIN', 'EXP'], '*', False)
    cov('LET(X,[CL,V]);COVARIATE?(@X,WGT,*)', ['CL', 'V'], ['WGT'], FP_ALL, '*', True, True)
    cov('COVARIATE(@P,@C,EXP);LET(P,CL);LET(C,[AGE,WGT])', ['CL'], ['AGE', 'WGT'], ['EXP'], '*',
        False)
    cov('covariate?(cl, wgt, cat2, +)', ['CL'], ['WGT'], ['CAT2'], '+', True)

    names('DIRECTEFFECT', 'DIRECTEFFECT', [('linear', ['LINEAR']), ('[LINEAR,EMAX]', ['LINEAR', 'EMAX']),
                                           ('*', PD_ALL)], core=('linear', '*'))
    names('EFFECTCOMP', 'EFFECTCOMP', [('SIGMOID', ['SIGMOID']), ('*', PD_ALL)])
    units.append(Unit('INDIRECTEFFECT(LINEAR,PRODUCTION)', 'INDIRECTEFFECT', [('LINEAR', 'PRODUCTION')]))
    units.append(Unit('INDIRECTEFFECT([EMAX,SIGMOID],*)', 'INDIRECTEFFECT',
                      [(m, p) for m in ('EMAX', 'SIGMOID') for p in PROD_ALL]))
    units.append(Unit('INDIRECTEFFECT(*,DEGRADATION)', 'INDIRECTEFFECT',
                      [(m, 'DEGRADATION') for m in PD_ALL]))
    names('METABOLITE', 'METABOLITE', [('PSC', ['PSC']), ('[BASIC,PSC]', ['BASIC', 'PSC']), ('*', MET_ALL)],
          core=('PSC', '[BASIC,PSC]'))
    units.append(Unit('ALLOMETRY(WGT)', 'ALLOMETRY', [('WGT', 70.0)]))
    units.append(Unit('ALLOMETRY(WGT,70)', 'ALLOMETRY', [('WGT', 70.0)]))
    units.append(Unit('ALLOMETRY(WT,75.5)', 'ALLOMETRY', [('WT', 75.5)], core=True))
    return units


UNITS = _build_units()
UNIT_BY_TEXT = {u.text: u for u in UNITS}


def _with_defaults(atoms):
    """documented defaults: a PK search space that does not mention a category uses its default"""
    atoms = {c: frozenset(v) for c, v in atoms.items() if v}
    if any(c in atoms for c in PK_CATS + ('METABOLITE',)):
        for c in PK_CATS:
            if c not in atoms:
                atoms[c] = frozenset([PK_DEFAULT[c]])
    return atoms


def _expected_of_units(texts):
    """(expanded space, dup) of the string made of these units.  dup: 'explicit' when two explicit
    mandatory COVARIATE statements force the same (parameter, covariate) effect (parse must raise the
    documented ValueError), 'ref' when the clash involves a statement written with @references (it
    is documented to be rejected at the latest by expand(model)), else ''"""
    atoms = defaultdict(set)
    seen = []
    dup = ''
    for t in texts:
        u = UNIT_BY_TEXT[t]
        atoms[u.cat] |= u.atoms
        for v in seen:
            if u.forced & v.forced:
                if u.ref or v.ref:
                    dup = dup or 'ref'
                else:
                    dup = 'explicit'
        seen.append(u)
    return _with_defaults(atoms), dup


def _n_combinations(space):
    n = 1
    for c, v in space.items():
        if c != 'COVARIATE':
            n *= max(1, len(v))
    return n


# ---- independent expansion of pharmpy statement objects (by class name and plain attributes) ----

def _nm(modes, universe):
    if type(modes).__name__ == 'Wildcard':
        return list(universe)
    if type(modes).__name__ == 'Name':  # a bare Name where a tuple is expected
        return [modes.name]
    return [m.name for m in modes]


def _expand_statements(stmts, allometry=None, defaults=True):
    stmts = [s for s in stmts if s is not None]
    lets = {s.name: s.value for s in stmts if type(s).__name__ == 'Let'}
    out = defaultdict(set)
    for s in stmts:
        k = type(s).__name__
        if k == 'Absorption':
            out['ABSORPTION'] |= {(m,) for m in _nm(s.modes, ABS_ALL)}
        elif k == 'Elimination':
            out['ELIMINATION'] |= {(m,) for m in _nm(s.modes, ELIM_ALL)}
        elif k == 'LagTime':
            out['LAGTIME'] |= {(m,) for m in _nm(s.modes, LAG_ALL)}
        elif k == 'Transits':
            out['TRANSITS'] |= {(c, d) for c in s.counts for d in _nm(s.depot, DEPOT_ALL)}
        elif k == 'Peripherals':
            out['PERIPHERALS'] |= {(c, m) for c in s.counts for m in _nm(s.modes, PMODE_ALL)}
        elif k == 'DirectEffect':
            out['DIRECTEFFECT'] |= {(m,) for m in _nm(s.modes, PD_ALL)}
        elif k == 'EffectComp':
            out['EFFECTCOMP'] |= {(m,) for m in _nm(s.modes, PD_ALL)}
        elif k == 'IndirectEffect':
            out['INDIRECTEFFECT'] |= {(m, p) for m in _nm(s.modes, PD_ALL)
                                      for p in _nm(s.production, PROD_ALL)}
        elif k == 'Metabolite':
            out['METABOLITE'] |= {(m,) for m in _nm(s.modes, MET_ALL)}
        elif k == 'Allometry':
            out['ALLOMETRY'] |= {(s.covariate, float(s.reference))}
        elif k == 'Covariate':
            def res(x):
                if type(x).__name__ == 'Ref':
                    if x.name not in lets:
                        raise KeyError('unresolved reference @' + x.name)
                    return tuple(lets[x.name])
                return tuple(x)
            fps = FP_ALL if type(s.fp).__name__ == 'Wildcard' else tuple(s.fp)
            out['COVARIATE'] |= {(p, c, f, s.op, bool(s.optional.option))
                                 for p in res(s.parameter) for c in res(s.covariate) for f in fps}
        elif k == 'Let':
            pass
        else:
            raise TypeError('unknown statement ' + k)
    if allometry is not None:
        out['ALLOMETRY'] |= {(allometry.covariate, float(allometry.reference))}
    if not defaults:
        return {c: frozenset(v) for c, v in out.items() if v}
    return _with_defaults(out)


def _expand_mf(mf):
    """expansion of a ModelFeatures object from its public attributes"""
    stmts = [mf.absorption, mf.elimination, *mf.transits, *mf.peripherals, mf.lagtime, *mf.covariate,
             mf.direct_effect, mf.effect_comp, *mf.indirect_effect, mf.metabolite]
    return _expand_statements(stmts, allometry=mf.allometry)


def _fmt(space):
    if space is None:
        return 'None'
    return '{' + '; '.join(f'{c}:{sorted(space[c], key=repr)}' for c in ALL_CATS if c in space) + '}'


def _cov_norm(atoms):
    """a forced effect next to the same optional effect describes the same combinations as the
    optional one alone ({with} u {with, without})"""
    atoms = set(atoms)
    return frozenset(a for a in atoms if a[4] or (a[:4] + (True,)) not in atoms)


def _same_space(x, y):
    cats = set(x) | set(y)
    for c in cats:
        a, b = x.get(c, frozenset()), y.get(c, frozenset())
        if c == 'COVARIATE':
            a, b = _cov_norm(a), _cov_norm(b)
        if a != b:
            return False
    return True


# ---- reference set operations on expanded spaces ----

def _ref_union(ea, eb):
    out = {}
    for c in set(ea) | set(eb):
        out[c] = ea.get(c, frozenset()) | eb.get(c, frozenset())
    return out


def _ref_difference(ea, eb):
    out = {}
    for c in ea:
        if c == 'COVARIATE':
            keys_b = {a[:4] for a in eb.get(c, ())}
            out[c] = frozenset(a for a in ea[c] if a[:4] not in keys_b)
        else:
            out[c] = ea[c] - eb.get(c, frozenset())
    return out


def _ref_subset(ea, eb, cats=None, drug_only=False):
    for c in eb:
        if cats is not None and c not in cats:
            continue
        a, b = ea.get(c, frozenset()), eb[c]
        if c == 'COVARIATE':
            a, b = _cov_norm(a), _cov_norm(b)
            # a forced effect is contained in the same optional effect
            a = a | {x[:4] + (False,) for x in a if x[4]}
        if c == 'PERIPHERALS' and drug_only:
            a = {x for x in a if x[1] == 'DRUG'}
            b = {x for x in b if x[1] == 'DRUG'}
        if not set(b) <= set(a):
            return False
    return True


def _lnt_subcats(space, cats):
    """sub-categories in which one transformation moves a model: every category, with the
    peripherals of the drug and of the metabolite counted separately"""
    out = {}
    for c in cats:
        v = space.get(c, frozenset())
        if c == 'PERIPHERALS':
            for m in PMODE_ALL:
                out[('PERIPHERALS', m)] = frozenset(x for x in v if x[1] == m)
        else:
            out[(c,)] = frozenset(v)
    return out


def _ref_lnt(ea, eb, cats, drug_only=False):
    """sub-categories in which no feature of a is part of b (one transformation each): the
    minimum Hamming distance between a combination of a and a combination of b"""
    sa, sb = _lnt_subcats(ea, cats), _lnt_subcats(eb, cats)
    need = []
    for k in sb:
        if drug_only and k == ('PERIPHERALS', 'MET'):
            continue
        if sb[k] and not (sa[k] & sb[k]):
            need.append(k)
    return need


def _key_subcat(key):
    kind = key[0]
    if kind == 'PERIPHERALS':
        return ('PERIPHERALS', 'MET' if len(key) == 3 else 'DRUG')
    return ({'DIRECT': 'DIRECTEFFECT', 'INDIRECT': 'INDIRECTEFFECT'}.get(kind, kind),)


def _key_atom(key):
    kind = key[0]
    if kind == 'PERIPHERALS':
        return (key[1], 'MET' if len(key) == 3 else 'DRUG')
    return tuple(key[1:])


_MFL_MODS = {}


def _mfl():
    if not _MFL_MODS:
        from pharmpy.tools.mfl import parse as p
        from pharmpy.tools.mfl import stringify as s
        _MFL_MODS['parse'] = p.parse
        _MFL_MODS['MF'] = p.ModelFeatures
        _MFL_MODS['stringify'] = s.stringify
    return _MFL_MODS


def _exc(e):
    # first line only: lark lists the expected tokens in an order that changes from run to run
    text = str(e).splitlines()[0][:120] if str(e) else ''
    return f'{type(e).__name__}: {text}'


# ---- contract of one string ----

C_PARSE = 'parse(s) yields exactly the feature combinations the MFL text describes'
C_PARSE_ERR = 'parse(s) raises only the documented ValueError (effect forced by several statements)'
C_CLASS = 'parse(s, mfl_class=True) holds exactly the described space (documented defaults filled in)'
C_RT = 'parse(repr(parse(s))) expands to the same feature combinations as parse(s)'
C_RT_ERR = 'repr(parse(s)) is produced and parses again without error'


def _check_string(texts, sep):
    """all violated clauses [(fid, clause, detail)] of the string sep.join(texts)"""
    m = _mfl()
    s = sep.join(texts)
    expected, dup = _expected_of_units(texts)
    out = []
    try:
        stmts = m['parse'](s)
    except ValueError as e:
        if not dup:
            out.append((MFL_PARSE + ':parse', C_PARSE_ERR, f'parse({s!r}) raised {_exc(e)}'))
        return out
    except Exception as e:
        out.append((MFL_PARSE + ':parse', C_PARSE_ERR, f'parse({s!r}) raised {_exc(e)}'))
        return out
    if dup == 'explicit':
        out.append((MFL_PARSE + ':validate_mfl_list', C_PARSE_ERR,
                    f'parse({s!r}) accepted an effect forced by two statements'))
        return out
    try:
        got = _expand_statements(stmts)
    except Exception as e:
        got = None
        out.append((MFL_PARSE + ':parse', C_PARSE, f'{s!r}: statements not expandable ({_exc(e)})'))
    if got is not None and not _same_space(got, expected):
        out.append((MFL_PARSE + ':parse', C_PARSE,
                    f'{s!r}: parsed {_fmt(got)} expected {_fmt(expected)}'))
    try:
        # what parse(s, mfl_class=True) does with the statement list
        mf = m['MF'].create_from_mfl_statement_list(stmts)
        got = _expand_mf(mf)
    except Exception as e:
        out.append((MFL_PARSE + ':ModelFeatures.create_from_mfl_statement_list', C_CLASS,
                    f'{s!r}: raised {_exc(e)}'))
        return out
    if not _same_space(got, expected):
        out.append((MFL_PARSE + ':ModelFeatures.create_from_mfl_statement_list', C_CLASS,
                    f'{s!r}: holds {_fmt(got)} expected {_fmt(expected)}'))
    if dup:
        return out  # the printed form has explicit clashing statements, which parse rejects
    try:
        printed = repr(mf)
        back = m['parse'](printed)
        got3 = _expand_statements(back)
        got2 = _expand_mf(m['MF'].create_from_mfl_statement_list(back))
    except Exception as e:
        out.append((MFL_PARSE + ':ModelFeatures.__repr__', C_RT_ERR, f'{s!r}: raised {_exc(e)}'))
        return out
    if not (_same_space(got2, expected) and _same_space(got3, expected)):
        out.append((MFL_PARSE + ':ModelFeatures.__repr__', C_RT,
                    f'{s!r} prints as {printed!r} which expands to {_fmt(got2)}, expected {_fmt(expected)}'))
    return out


# ---- contract of a pair of spaces ----

def C_OP_ERR(dom):
    return ('a+b, a-b, a==b, a.contain_subset(b), a.least_number_of_transformations(b) raise no internal '
            f'error on parsed spaces ({dom})')


def _op_dom(sa, sb, ea, eb):
    """kind of operands, so that one cause of internal errors does not hide another"""
    if not all(c in ea and c in eb for c in PK_CATS):
        return 'an operand without PK features'
    if any(x in s for s in (sa, sb) for x in ('(*', ',*')):
        return 'PK operands written with wildcards'
    return 'PK operands without wildcards'
def C_ADD(cat):
    return f'a+b expands to the union of the expanded spaces ({cat} features)'


def C_SUB(cat):
    return (f'a-b keeps exactly the {cat} features of a that are not in b (a category left empty is '
            'dropped or shows its documented default)')


def C_SUBSET(cat):
    return f'a.contain_subset(b) is True exactly when every feature of b is a feature of a ({cat})'


def C_SUBSET_MS(cat):
    return ("a.contain_subset(b, tool='modelsearch') is True exactly when every PK feature of b is a "
            f'feature of a ({cat})')


def C_LNT(cat):
    return ('least_number_of_transformations(a, b) has one feature of b for each category in which no '
            f'feature of a is in b, and nothing else ({cat})')


def C_LNT_MS(cat):
    return ("least_number_of_transformations(a, b, tool='modelsearch') has one feature of b for each PK "
            f'category of the drug in which no feature of a is in b, and nothing else ({cat})')


def C_EQ(cat):
    return f'a == b exactly when the expanded spaces are equal ({cat})'


C_PURE = 'the operands are unchanged by the operations'
C_RT_RES = 'the printed form of a+b and a-b parses back to the same space'

LNT_CATS = PK_CATS + ('DIRECTEFFECT', 'EFFECTCOMP', 'INDIRECTEFFECT', 'METABOLITE')

_MF_GROUPS = (('ABSORPTION', lambda m: [m.absorption]), ('ELIMINATION', lambda m: [m.elimination]),
              ('TRANSITS', lambda m: list(m.transits)), ('PERIPHERALS', lambda m: list(m.peripherals)),
              ('LAGTIME', lambda m: [m.lagtime]), ('COVARIATE', lambda m: list(m.covariate)),
              ('DIRECTEFFECT', lambda m: [m.direct_effect]), ('EFFECTCOMP', lambda m: [m.effect_comp]),
              ('INDIRECTEFFECT', lambda m: list(m.indirect_effect)),
              ('METABOLITE', lambda m: [m.metabolite]), ('ALLOMETRY', lambda m: []))


def _expand_mf_parts(mf):
    """(expansion, {category: error}) of a ModelFeatures object, category by category, so that one
    malformed statement does not hide the others"""
    out, broken = {}, {}
    for cat, get in _MF_GROUPS:
        try:
            part = _expand_statements(get(mf), allometry=mf.allometry if cat == 'ALLOMETRY' else None,
                                      defaults=False)
            out.update(part)
        except Exception as e:
            broken[cat] = _exc(e)
    return _with_defaults(out), broken


def _first_diff(x, y, cats=None):
    """first category (fixed order) in which two spaces differ"""
    for c in ALL_CATS:
        if cats is not None and c not in cats:
            continue
        a, b = x.get(c, frozenset()), y.get(c, frozenset())
        if c == 'COVARIATE':
            a, b = _cov_norm(a), _cov_norm(b)
        if a != b:
            return c
    return None


def _check_difference(got, broken, ea, eb):
    """[(category, message)]"""
    ref = _ref_difference(ea, eb)
    bad = []
    for c in ALL_CATS:
        if c in broken:
            bad.append((c, f'statement not expandable ({broken[c]})'))
            continue
        want = ref.get(c, frozenset())
        have = got.get(c, frozenset())
        if c == 'COVARIATE':
            want, have = _cov_norm(want), _cov_norm(have)
        if want:
            if have != want:
                bad.append((c, f'got {sorted(have, key=repr)} expected {sorted(want, key=repr)}'))
        else:
            allowed = [frozenset()]
            if c in PK_DEFAULT:
                allowed.append(frozenset([PK_DEFAULT[c]]))
            if have not in allowed:
                bad.append((c, f'got {sorted(have, key=repr)} expected nothing (or the default)'))
    return bad


_SPACE_CACHE = {}


def _parsed_space(text):
    """parse(text, mfl_class=True), once per process (C_PURE checks that operations leave it alone)"""
    if text not in _SPACE_CACHE:
        _SPACE_CACHE[text] = _mfl()['parse'](text, mfl_class=True)
    return _SPACE_CACHE[text]


def _reparse(r, got):
    """expansion of parse(repr(r)); None when parse raises its documented ValueError because the
    space forces one (parameter, covariate) effect in several ways"""
    text = repr(r)
    if text == '':
        return {}
    try:
        return _expand_mf(_mfl()['parse'](text, mfl_class=True))
    except ValueError:
        forced = defaultdict(set)
        for a in got.get('COVARIATE', ()):
            if not a[4]:
                forced[(a[0], a[1])].add((a[2], a[3]))
        if any(len(v) > 1 for v in forced.values()):
            return None
        raise


def _check_pair(ta, tb, sep=';', roundtrip=False):
    """all violated clauses of the pair of spaces (sep.join(ta), sep.join(tb))"""
    m = _mfl()
    sa, sb = sep.join(ta), sep.join(tb)
    ea, dupa = _expected_of_units(ta)
    eb, dupb = _expected_of_units(tb)
    if dupa or dupb:
        return None
    a = _parsed_space(sa)
    b = _parsed_space(sb)
    out = []
    where = f'a={sa!r} b={sb!r}'
    state = {}

    def run(name, fid, fn, allow_value_error=False):
        """the result on the parsed spaces; on an internal error report it once and retry on the
        spaces with wildcards written out (a.expand) so that the set law is still checked"""
        try:
            return True, fn(a, b)
        except ValueError as e:
            if allow_value_error:
                return False, None
            err = e
        except Exception as e:
            err = e
        out.append((fid, C_OP_ERR(_op_dom(sa, sb, ea, eb)), f'{name}: {where} raised {_exc(err)}'))
        if 'xa' not in state:
            try:
                state['xa'], state['xb'] = a.expand(None), b.expand(None)
                if not (_same_space(_expand_mf(state['xa']), ea)
                        and _same_space(_expand_mf(state['xb']), eb)):
                    state['xa'] = state['xb'] = None  # expand() did not keep the space
            except Exception:
                state['xa'] = state['xb'] = None
        if state['xa'] is None:
            return False, None
        try:
            return True, fn(state['xa'], state['xb'])
        except Exception:
            return False, None

    def reprint(r, got, what):
        try:
            back = _reparse(r, got)
            if back is not None and not _same_space(back, got):
                out.append((MF + '__repr__', C_RT_RES,
                            f'{where}: {what} prints as {r!r} which expands to {_fmt(back)}, the object '
                            f'holds {_fmt(got)}'))
        except Exception as e:
            out.append((MF + '__repr__', C_RT_RES, f'{where}: {what} = {r!r}: {_exc(e)}'))

    MF = MFL_PARSE + ':ModelFeatures.'
    ok, r = run('a+b', MF + '__add__', lambda x, y: x + y)
    if ok:
        got, broken = _expand_mf_parts(r)
        want = _with_defaults(_ref_union(ea, eb))
        for c in ALL_CATS:
            if c in broken:
                out.append((MF + '__add__', C_ADD(c), f'{where}: statement not expandable ({broken[c]})'))
            elif _first_diff(got, want, cats=(c,)):
                out.append((MF + '__add__', C_ADD(c),
                            f'{where}: a+b = {r!r} has {sorted(got.get(c, ()), key=repr)} expected '
                            f'{sorted(want.get(c, ()), key=repr)}'))
        if roundtrip and not broken:
            reprint(r, got, 'a+b')
    ok, r = run('a-b', MF + '__sub__', lambda x, y: x - y)
    if ok:
        got, broken = _expand_mf_parts(r)
        for c, msg in _check_difference(got, broken, ea, eb):
            try:
                shown = repr(r)
            except Exception as e:
                shown = f'<unprintable: {_exc(e)}>'
            out.append((MF + '__sub__', C_SUB(c), f'{where}: a-b = {shown}: {msg}'))
        if roundtrip and not broken:
            reprint(r, got, 'a-b')
    ok, r = run('a==b', MF + '__eq__', lambda x, y: x == y)
    if ok:
        diff = _first_diff(ea, eb)
        want = diff is None
        if r is not want:
            out.append((MF + '__eq__', C_EQ(f'spaces differing in {diff}' if diff else 'equal spaces'),
                        f'{where}: a==b is {r!r}, expanded spaces equal: {want}'))
    for tool, clause, cats, drug_only in ((None, C_SUBSET, None, False),
                                          ('modelsearch', C_SUBSET_MS, PK_CATS, True)):
        ok, r = run(f'contain_subset(tool={tool!r})', MF + 'contain_subset',
                    lambda x, y: x.contain_subset(y, tool=tool))
        if ok:
            notin = [c for c in ALL_CATS if (cats is None or c in cats) and c in eb
                     and not _ref_subset(ea, eb, cats=(c,), drug_only=drug_only)]
            want = not notin
            if r is not want:
                dom = f'b has {notin[0]} features that a lacks' if notin else 'b is contained in a'
                out.append((MF + 'contain_subset', clause(dom),
                            f'{where}: contain_subset(tool={tool!r}) is {r!r}, every feature of b in a: '
                            f'{want}'))
    for tool, clause, cats, drug_only in ((None, C_LNT, LNT_CATS, False),
                                          ('modelsearch', C_LNT_MS, PK_CATS, True)):
        # a category that only one of the spaces has cannot be compared (documented ValueError)
        scalar = [c for c in cats if c not in ('TRANSITS', 'PERIPHERALS', 'INDIRECTEFFECT')]
        one_sided = any((c in ea) != (c in eb) for c in scalar)
        ok, r = run(f'least_number_of_transformations(tool={tool!r})',
                    MF + 'least_number_of_transformations',
                    lambda x, y: x.least_number_of_transformations(y, tool=tool),
                    allow_value_error=one_sided)
        if ok and not one_sided:
            need = sorted(_ref_lnt(ea, eb, cats, drug_only))
            keys = list(r.keys())
            have = sorted(_key_subcat(k) for k in keys)
            bad = None
            extra = [k for k in have if k not in need or have.count(k) > 1]
            missing = [k for k in need if k not in have]
            if extra:
                bad = ('/'.join(extra[0]) + ' not needed',
                       f'keys {keys} are in categories {have}, expected one each in {need}')
            elif missing:
                bad = ('/'.join(missing[0]) + ' missing',
                       f'keys {keys} are in categories {have}, expected one each in {need}')
            else:
                sub = _lnt_subcats(eb, cats)
                for k in keys:
                    if _key_atom(k) not in sub[_key_subcat(k)]:
                        bad = ('/'.join(_key_subcat(k)) + ' feature not of b', f'key {k} is not a feature of b')
                    elif not callable(r[k]):
                        bad = ('/'.join(_key_subcat(k)) + ' without function',
                               f'key {k} has no transformation function')
            if bad:
                out.append((MF + 'least_number_of_transformations', clause(bad[0]),
                            f'{where}: tool={tool!r}: {bad[1]}'))
    try:
        if not (_same_space(_expand_mf(a), ea) and _same_space(_expand_mf(b), eb)):
            out.append((MF + '__add__', C_PURE, f'{where}: operands changed to {a!r} / {b!r}'))
    except Exception as e:
        out.append((MF + '__add__', C_PURE, f'{where}: operands no longer expandable ({_exc(e)})'))
    return out


# ---- stringify of integer tuples ----

C_RANGE = 'a tuple of ints prints as i..j only when it is the contiguous increasing range i..j (one int as itself, otherwise as a list in the given order)'
C_RANGE_RT = 'the printed counts parse back to the same tuple'


def _check_counts(counts):
    m = _mfl()
    from pharmpy.tools.mfl.statement.feature.peripherals import Peripherals
    from pharmpy.tools.mfl.statement.feature.transits import Transits

    counts = tuple(counts)
    out = []
    if len(counts) == 1:
        want = str(counts[0])
    elif all(counts[i + 1] == counts[i] + 1 for i in range(len(counts) - 1)):
        want = f'{counts[0]}..{counts[-1]}'
    else:
        want = '[' + ','.join(str(c) for c in counts) + ']'
    for cls, kw in ((Peripherals, 'PERIPHERALS'), (Transits, 'TRANSITS')):
        fid = MFL_STR + ':_stringify_attribute'
        try:
            text = m['stringify']([cls(counts)])
        except Exception as e:
            out.append((fid, C_RANGE, f'{kw}{counts}: raised {_exc(e)}'))
            continue
        if text != f'{kw}({want})':
            out.append((fid, C_RANGE, f'{kw} counts {counts} print as {text!r}, expected {kw}({want})'))
        try:
            back = m['parse'](text)
            if len(back) != 1 or tuple(back[0].counts) != counts:
                out.append((fid, C_RANGE_RT, f'{kw} counts {counts} print as {text!r} which parses to '
                                             f'{back!r}'))
        except Exception as e:
            out.append((fid, C_RANGE_RT, f'{kw} counts {counts} print as {text!r}: {_exc(e)}'))
    return out


# ---- enumeration of the cases ----

def _mfl_string_cases(tier):
    """unit tuples of all generated strings"""
    for u in UNITS:
        yield ((u.text,), ';')
    for u, v in itertools.product(UNITS, repeat=2):
        if u.cat == v.cat == 'ALLOMETRY':
            continue  # one ALLOMETRY description per space (grammar comment)
        yield ((u.text, v.text), ';')
    core = [u for u in UNITS if u.core]
    for u, v in itertools.product(core, repeat=2):
        yield ((u.text, v.text), '\n')
    if tier != 'quick':
        for t in itertools.product(core, repeat=3):
            if sum(1 for u in t if u.cat == 'ALLOMETRY') > 1:
                continue
            yield (tuple(u.text for u in t), ';')


def _pair_spaces(tier):
    """spaces used in the pair laws: every single unit, and every unordered pair of core units"""
    spaces = [(u.text,) for u in UNITS if u.cat != 'ALLOMETRY']
    core = [u for u in UNITS if u.core and u.cat != 'ALLOMETRY']
    two = []
    for i, u in enumerate(core):
        for v in core[i:]:
            if u is v:
                continue
            _, dup = _expected_of_units((u.text, v.text))
            if not dup:
                two.append((u.text, v.text))
    return spaces, two


def _mfl_pair_cases(tier):
    single, two = _pair_spaces(tier)
    for a in single:
        for b in single:
            # the results a+b and a-b are printed and parsed again (core descriptions only in quick)
            rt = tier != 'quick' or (UNIT_BY_TEXT[a[0]].core and UNIT_BY_TEXT[b[0]].core)
            yield (a, b, rt)
    if tier == 'quick':
        # two-description spaces against every core one-description space, both ways
        core = [x for x in single if UNIT_BY_TEXT[x[0]].core]
        for a in two:
            for b in core:
                yield (a, b, False)
                yield (b, a, False)
    else:
        allsp = single + two
        for a in two:
            for b in allsp:
                yield (a, b, False)
        for a in single:
            for b in two:
                yield (a, b, False)


def _count_cases(tier):
    top, maxlen = (5, 4) if tier == 'quick' else (6, 5)
    for n in range(1, maxlen + 1):
        for t in itertools.product(range(top), repeat=n):
            yield t


def _mfl_worker(job):
    kind, items = job
    res = []
    n = nontrivial = 0
    for it in items:
        n += 1
        if kind == 'string':
            texts, sep = it
            v = _check_string(texts, sep)
            nontrivial += 1
            case = {'kind': 'string', 'units': list(texts), 'sep': sep}
            size = (len(texts), len(sep.join(texts)))
        elif kind == 'pair':
            ta, tb, rt = it
            v = _check_pair(ta, tb, roundtrip=rt)
            if v is None:
                continue
            nontrivial += 1
            case = {'kind': 'pair', 'a': list(ta), 'b': list(tb), 'roundtrip': rt}
            size = (len(ta) + len(tb), len(';'.join(ta)) + len(';'.join(tb)))
        else:
            v = _check_counts(it)
            nontrivial += 1
            case = {'kind': 'counts', 'counts': list(it)}
            size = (len(it), sum(it))
        for fid, clause, detail in v:
            res.append((fid, clause, size, detail, case))
    # keep the smallest per clause in this chunk, and every failing case in enumeration order (`also`)
    best = {}
    allf = {}
    for fid, clause, size, detail, case in res:
        k = (fid, clause)
        _note_also(allf, k, case)
        if k not in best or _smaller(size, case, detail, best[k]):
            best[k] = (size, detail, case)
    return n, nontrivial, best, allf


def _smaller(size, case, detail, kept):
    """order of failing cases: by size, then by the case itself (not by the observed detail, which may
    print sets in an order that changes from run to run)"""
    import json

    ksize, kdetail, kcase = kept
    a = (size, json.dumps(case, sort_keys=True))
    b = (ksize, json.dumps(kcase, sort_keys=True))
    return a < b or (a == b and detail < kdetail)


def _chunks(it, size):
    buf = []
    for x in it:
        buf.append(x)
        if len(buf) >= size:
            yield buf
            buf = []
    if buf:
        yield buf


ALSO_CAP = 300


def _note_also(allf, key, case):
    """every failing case of a (fid, clause) key in enumeration order, once per case, capped"""
    lst = allf.setdefault(key, [])
    if len(lst) < ALSO_CAP and (not lst or lst[-1] is not case):
        lst.append(case)


def _run_indexed(arg):
    worker, i, job = arg
    return (i,) + tuple(worker(job))


def _run_jobs(worker, jobs):
    """results of worker(job) as (job number, *result), in any order"""
    import multiprocessing as mp

    ctx = mp.get_context('fork')
    with ctx.Pool(NPROC) as pool:
        for r in pool.imap_unordered(_run_indexed, ((worker, i, job) for i, job in enumerate(jobs))):
            yield r


def _merge_fails(results, replay_fn):
    cases = nontrivial = 0
    best = {}
    parts = {}
    for i, n, nt, b, allf in results:
        cases += n
        nontrivial += nt
        for k, (size, detail, case) in b.items():
            if k not in best or _smaller(size, case, detail, best[k]):
                best[k] = (size, detail, case)
        for k, lst in allf.items():
            parts.setdefault(k, []).append((i, lst))
    fails = []
    for (fid, clause) in sorted(best):
        size, detail, case = best[(fid, clause)]
        case = dict(case)
        case['fid'] = fid
        case['clause'] = clause
        # `also`: every failing case of the key in enumeration order (jobs are numbered in enumeration order)
        also = [dict(c, fid=fid, clause=clause) for _, lst in sorted(parts.get((fid, clause), []), key=lambda p: p[0])
                for c in lst][:ALSO_CAP]
        if case not in also:      # the reported (smallest) case is always in the list
            also = [case] + also[:ALSO_CAP - 1]
        fails.append({'fid': fid, 'clause': clause, 'detail': detail, 'case': case,
                      'replay_fn': replay_fn, 'also': also})
    return cases, nontrivial, fails


def _replay_verdict(violations, case):
    hits = sorted(d for f, c, d in violations if f == case['fid'] and c == case['clause'])
    return (False, hits[0]) if hits else (True, 'ok')


def bounded_mfl(tier):
    _mfl()

    def jobs():
        for ch in _chunks(_mfl_string_cases(tier), 100):
            yield ('string', ch)
        for ch in _chunks(_mfl_pair_cases(tier), 400):
            yield ('pair', ch)
        for ch in _chunks(_count_cases(tier), 200):
            yield ('counts', ch)

    cases, nontrivial, fails = _merge_fails(_run_jobs(_mfl_worker, jobs()), 'bounded_mfl_replay')
    ncore = sum(1 for u in UNITS if u.core)
    single, two = _pair_spaces(tier)
    if tier == 'quick':
        bound = (f'all MFL strings of <=2 feature descriptions over {len(UNITS)} descriptions (every '
                 f'feature kind, lists in both orders, ranges, wildcards, LET references, upper/lower '
                 f'case, blanks; ";" and newline separators); all ordered pairs of the {len(single)} '
                 f'one-description spaces and each of the {len(two)} two-description spaces (over '
                 f'{ncore} core descriptions) against every core one-description space both ways; all '
                 f'int tuples of length <=4 over 0..4')
    else:
        bound = (f'all MFL strings of <=2 feature descriptions over {len(UNITS)} descriptions and of 3 '
                 f'over {ncore} core descriptions; all ordered pairs of spaces with a two-description '
                 f'space on at least one side, among the {len(single)} one-description and {len(two)} '
                 f'two-description spaces, and all pairs of one-description spaces; all int tuples of '
                 f'length <=5 over 0..5')
    return {
        'cases': cases,
        'nontrivial': nontrivial,
        'bound': bound,
        'samples': ['ABSORPTION([ZO,FO]);TRANSITS([3,1],NODEPOT)',
                    "pair a='PERIPHERALS([1,5,3])' b='PERIPHERALS(1..3,*)'",
                    'counts (1, 2, 3) / (3, 2, 1) / (1, 1)'],
        'fails': fails,
    }


def bounded_mfl_replay(rp):
    case = rp['case']
    _mfl()
    if case['kind'] == 'string':
        v = _check_string(tuple(case['units']), case['sep'])
    elif case['kind'] == 'pair':
        v = _check_pair(tuple(case['a']), tuple(case['b']), roundtrip=case.get('roundtrip', False))
    else:
        v = _check_counts(tuple(case['counts']))
    return _replay_verdict(v or [], case)


# ======================================================================================
# (2) Enumeration: partitions, subsets, all_combinations, stepwise rules, iivsearch candidates
# ======================================================================================

SET_PART = 'src/pharmpy/internals/set/partitions.py:partitions'
SET_SUB = 'src/pharmpy/internals/set/subsets.py:'
MFL_HELP = 'src/pharmpy/tools/mfl/helpers.py:all_combinations'
MS_ALG = 'src/pharmpy/tools/modelsearch/algorithms.py:'
IIV_ALG = 'src/pharmpy/tools/iivsearch/algorithms.py:'


def _bell(n):
    """Bell number by the Bell triangle"""
    row = [1]
    for _ in range(n):
        new = [row[-1]]
        for x in row:
            new.append(new[-1] + x)
        row = new
    return row[0]


def _ref_partitions(elements):
    """all set partitions (frozenset of frozensets) by restricted growth strings"""
    elements = list(elements)
    n = len(elements)
    out = []

    def rec(i, assign, nblocks):
        if i == n:
            blocks = defaultdict(set)
            for e, b in zip(elements, assign):
                blocks[b].add(e)
            out.append(frozenset(frozenset(v) for v in blocks.values()))
            return
        for b in range(nblocks + 1):
            rec(i + 1, assign + [b], max(nblocks, b + 1))

    rec(0, [], 0)
    return out


def _ref_subsets_by_mask(elements):
    """all subsets as tuples in input order, by bit masks"""
    elements = list(elements)
    n = len(elements)
    return [tuple(elements[i] for i in range(n) if mask >> i & 1) for mask in range(1 << n)]


C_PART = 'partitions(elements) yields every set partition of the elements exactly once (count = Bell(n))'
C_PART_CANON = 'each partition is a shortlex-sorted tuple of tuples and the partitions are ordered by length, part lengths, then lexicographically'
C_SUBSETS = 'subsets(s, min_size, max_size) yields exactly the subsets with min_size <= size <= max_size (negative max_size relative to len(s)), each once, by size then in input order'
C_NE_SUBSETS = 'non_empty_subsets(s) is the powerset without the empty set, each subset once'
C_NEP_SUBSETS = 'non_empty_proper_subsets(s) is the powerset without the empty set and s itself, each subset once'


def _check_partitions(elements):
    from pharmpy.internals.set.partitions import partitions

    elements = tuple(elements)
    out = []
    try:
        got = list(partitions(iter(elements)))
    except Exception as e:
        return [(SET_PART, C_PART, f'partitions({elements}) raised {_exc(e)}')]
    n = len(elements)
    bad = None
    for p in got:
        flat = [e for part in p for e in part]
        if not isinstance(p, tuple) or not all(isinstance(part, tuple) and part for part in p):
            bad = f'{p!r} is not a tuple of non-empty tuples'
        elif sorted(flat, key=repr) != sorted(elements, key=repr):
            bad = f'{p!r} is not a partition of {elements}'
    as_sets = [frozenset(frozenset(part) for part in p) for p in got]
    ref = _ref_partitions(elements)
    if bad is None and len(set(as_sets)) != len(as_sets):
        bad = 'a partition is yielded twice'
    if bad is None and len(got) != _bell(n):
        bad = f'{len(got)} partitions, Bell({n}) = {_bell(n)}'
    if bad is None and set(as_sets) != set(ref):
        bad = f'missing {sorted(map(sorted, map(lambda q: map(sorted, q), set(ref) - set(as_sets))))[:1]}'
    if bad:
        out.append((SET_PART, C_PART, f'partitions({elements}): {bad}'))
    else:
        canon = all(list(p) == sorted(p, key=lambda part: (len(part), part)) for p in got)
        order = got == sorted(got, key=lambda p: (len(p), tuple(len(x) for x in p), p))
        if not (canon and order):
            out.append((SET_PART, C_PART_CANON, f'partitions({elements}) = {got!r}'[:300]))
    return out


def _check_subsets(n):
    from collections import Counter

    from pharmpy.internals.set import subsets as S

    s = list(range(10, 10 + n))
    out = []
    masks = _ref_subsets_by_mask(s)
    for mn in range(0, n + 2):
        for mx in range(-(n + 2), n + 2):
            eff = n + mx + 1 if mx < 0 else mx
            want = sorted((t for t in masks if mn <= len(t) <= eff), key=lambda t: (len(t), t))
            try:
                got = list(S.subsets(iter(s), min_size=mn, max_size=mx))
            except Exception as e:
                out.append((SET_SUB + 'subsets', C_SUBSETS,
                            f'subsets({s}, {mn}, {mx}) raised {_exc(e)}'))
                continue
            if got != want:
                out.append((SET_SUB + 'subsets', C_SUBSETS,
                            f'subsets({s}, min_size={mn}, max_size={mx}) = {got[:8]}.. expected '
                            f'{want[:8]}.. ({len(got)} vs {len(want)})'))
    for fn, clause, keep in ((S.non_empty_subsets, C_NE_SUBSETS, lambda t: 0 < len(t)),
                             (S.non_empty_proper_subsets, C_NEP_SUBSETS, lambda t: 0 < len(t) < n)):
        want = Counter(t for t in masks if keep(t))
        try:
            got = list(fn(iter(s)))
        except Exception as e:
            out.append((SET_SUB + fn.__name__, clause, f'{fn.__name__}({s}) raised {_exc(e)}'))
            continue
        if Counter(got) != want or not all(isinstance(t, tuple) for t in got):
            out.append((SET_SUB + fn.__name__, clause,
                        f'{fn.__name__}({s}) yields {len(got)} subsets ({got[:6]}..), expected '
                        f'{sum(want.values())}'))
    return out


# ---- feature dictionaries ----

UNIVERSE_SPACE = ('ABSORPTION([FO,ZO,SEQ-ZO-FO,INST]);ELIMINATION([FO,MM]);PERIPHERALS(0..3);'
                  'TRANSITS([0,1,3],*);LAGTIME([OFF,ON])')
EXAMPLE_SPACE = ('ABSORPTION([FO,ZO,SEQ-ZO-FO]);ELIMINATION([FO,MM]);PERIPHERALS(0..2);'
                 'TRANSITS([0,1,3]);LAGTIME([OFF,ON])')
# further spaces; the funcs of a named space keep the defaults that ModelFeatures fills in
NAMED_SPACES = [
    'ABSORPTION([FO,ZO]);ELIMINATION(MM);PERIPHERALS(1..2);LAGTIME(ON)',
    'ABSORPTION(ZO);PERIPHERALS([2,1])',
    'ELIMINATION(MM);PERIPHERALS([1,5,3])',
    'ABSORPTION([INST,FO]);TRANSITS([0,1],*);PERIPHERALS([1,3]);LAGTIME(ON)',
    'ABSORPTION([FO,ZO,SEQ-ZO-FO]);TRANSITS([1,3]);LAGTIME(ON)',
]
DEFAULT_KEYS = {('ABSORPTION', 'INST'), ('ELIMINATION', 'FO'), ('TRANSITS', 0, 'DEPOT'),
                ('PERIPHERALS', 0), ('LAGTIME', 'OFF')}

_FUNCS = {}


def _space_funcs(space, drop_defaults=False):
    """feature dict of a search space, built by pharmpy.tools.mfl (parse + convert_to_funcs)"""
    k = (space, drop_defaults)
    if k not in _FUNCS:
        f = _mfl()['parse'](space, mfl_class=True).convert_to_funcs()
        if drop_defaults:
            # as modelsearch does after filtering the features of the base model
            f = {key: v for key, v in f.items() if key not in DEFAULT_KEYS}
        _FUNCS[k] = f
    return _FUNCS[k]


def _sub_dict(case):
    """the feature dict of an enumeration case {'space':..., 'drop_defaults':..., 'keys': [...]|None}"""
    f = _space_funcs(case['space'], case.get('drop_defaults', False))
    if case.get('keys') is None:
        return dict(f)
    keys = [tuple(k) for k in case['keys']]
    return {k: f[k] for k in f if k in keys}


def _cat(key):
    return key[0]


# ---- reference: documented stepwise rules (docs/modelsearch.rst) ----

DOC_EXCLUDED = [  # table "Feature combination exclusions"
    (('ABSORPTION', 'ZO'), ('TRANSITS',)),
    (('ABSORPTION', 'SEQ-ZO-FO'), ('TRANSITS',)),
    (('ABSORPTION', 'SEQ-ZO-FO'), ('LAGTIME', 'ON')),
    (('ABSORPTION', 'INST'), ('LAGTIME', 'ON')),
    (('ABSORPTION', 'INST'), ('TRANSITS',)),
    (('LAGTIME', 'ON'), ('TRANSITS',)),
]


def _matches(key, pattern):
    return tuple(key[:len(pattern)]) == pattern


def _ref_allowed(feat, previous, keys):
    """may `feat` be the next step of a path on which `previous` were applied (documented rules):
    a feature at most once, one feature per category, no excluded combination, peripheral
    compartments one at a time in increasing order starting with the smallest of the space"""
    if feat in previous:
        return False
    if _cat(feat) == 'PERIPHERALS':
        counts = sorted(k[1] for k in keys if _cat(k) == 'PERIPHERALS' and len(k) == len(feat))
        done = [p[1] for p in previous if _cat(p) == 'PERIPHERALS' and len(p) == len(feat)]
        if not done:
            return feat[1] == counts[0]
        larger = [c for c in counts if c > max(done)]
        return bool(larger) and feat[1] == larger[0]
    if any(_cat(p) == _cat(feat) for p in previous):
        return False
    for x, y in DOC_EXCLUDED:
        for p in previous:
            if (_matches(feat, x) and _matches(p, y)) or (_matches(feat, y) and _matches(p, x)):
                return False
    return True


def _ref_paths(keys):
    """all paths (tuples of features) the documented rules allow"""
    keys = list(keys)
    out = []

    def rec(path):
        for f in keys:
            if _ref_allowed(f, path, keys):
                out.append(tuple(path) + (f,))
                rec(list(path) + [f])

    rec([])
    return out


def _ref_reduced(keys):
    """candidates (features applied before, new feature) of the reduced stepwise search: after each
    layer the models with the same features are merged into one"""
    keys = list(keys)
    out = []
    layer = {frozenset()}
    while layer:
        nxt = set()
        for s in sorted(layer, key=lambda x: sorted(map(repr, x))):
            for f in keys:
                if _ref_allowed(f, list(s), keys):
                    out.append((s, f))
                    nxt.add(s | {f})
        layer = nxt
    return out


def _has_nodepot(keys):
    return any(_cat(k) == 'TRANSITS' and k[2] == 'NODEPOT' for k in keys)


def _unsorted_counts(keys):
    counts = [k[1] for k in keys if _cat(k) == 'PERIPHERALS' and len(k) == 2]
    return counts != sorted(counts)


def _dom(keys):
    """the clauses are stated per kind of feature dictionary, so that a deviation that only concerns
    NODEPOT transits or peripheral counts listed out of order does not hide others"""
    d = 'spaces with NODEPOT transits' if _has_nodepot(keys) else 'spaces without NODEPOT transits'
    if _unsorted_counts(keys):
        d += ', peripheral counts listed out of order'
    return d


def C_ALLOWED_SOUND(keys):
    return f'_is_allowed accepts only steps the documented rules allow ({_dom(keys)})'


def C_ALLOWED_COMPLETE(keys):
    return f'_is_allowed accepts every step the documented rules allow ({_dom(keys)})'


def _check_is_allowed(case):
    from pharmpy.tools.modelsearch.algorithms import _is_allowed

    funcs = _sub_dict(case)
    keys = list(funcs)
    feat = tuple(case['feat'])
    prev = [tuple(p) for p in case['previous']]
    want = _ref_allowed(feat, prev, keys)
    fid = MS_ALG + '_is_allowed'
    try:
        got = _is_allowed(feat, funcs[feat], list(prev), funcs)
    except Exception as e:
        return [(fid, C_ALLOWED_SOUND(keys), f'_is_allowed({feat}, previous={prev}) over {keys} raised '
                                             f'{_exc(e)}')]
    if bool(got) and not want:
        return [(fid, C_ALLOWED_SOUND(keys),
                 f'_is_allowed({feat}, previous={prev}) over {keys} is {got!r}; not allowed by the rules')]
    if want and not got:
        return [(fid, C_ALLOWED_COMPLETE(keys),
                 f'_is_allowed({feat}, previous={prev}) over {keys} is {got!r}; allowed by the rules')]
    return []


# ---- all_combinations and the three builders ----

C_COMB = 'all_combinations(funcs) is the cartesian product over the categories (each category unchanged or one of its features) without the empty combination, each once'
C_EXH = 'exhaustive builds one candidate per combination of all_combinations, each once, with the functions of its features'
C_NAMES = 'candidate model names are unique'
C_GRAPH = 'every candidate is followed by exactly one fit task and stepwise candidates hang below the fit of their parent'


def C_STEP_SOUND(keys):
    return f'exhaustive_stepwise generates only paths the documented rules allow ({_dom(keys)})'


C_STEP_ONCE = 'exhaustive_stepwise generates no path twice'
C_RED_ONCE = 'reduced_stepwise generates one candidate per (merged feature set, new feature)'


def C_STEP_COMPLETE(keys):
    return f'exhaustive_stepwise generates every path the documented rules allow ({_dom(keys)})'


def C_RED_SOUND(keys):
    return f'reduced_stepwise generates only steps the documented rules allow ({_dom(keys)})'


def C_RED_COMPLETE(keys):
    return ('reduced_stepwise generates every step the documented rules allow from every merged feature '
            f'set ({_dom(keys)})')


PRODUCT_FAMILY = (
    ('ABSORPTION(FO)', 'ABSORPTION([FO,ZO])', 'ABSORPTION([FO,ZO,SEQ-ZO-FO])'),
    ('ELIMINATION(FO)', 'ELIMINATION([FO,MM])'),
    ('PERIPHERALS(0)', 'PERIPHERALS(0..2)', 'PERIPHERALS([1,2])'),
    ('TRANSITS(0)', 'TRANSITS([0,1,3])', 'TRANSITS([1,3],*)'),
    ('LAGTIME(OFF)', 'LAGTIME([OFF,ON])'),
)


def _ref_combination_groups(keys):
    groups = defaultdict(list)
    for k in keys:
        groups[_cat(k)].append(k)
    return groups


def _ref_combinations(keys):
    groups = _ref_combination_groups(keys)
    out = []
    for choice in itertools.product(*[[None] + g for g in groups.values()]):
        c = frozenset(x for x in choice if x is not None)
        if c:
            out.append(c)
    return out


def _ancestors(wf, task):
    seen = []
    stack = list(wf.get_predecessors(task))
    ids = set()
    while stack:
        t = stack.pop()
        if id(t) in ids:
            continue
        ids.add(id(t))
        seen.append(t)
        stack.extend(wf.get_predecessors(t))
    return seen


def _check_builders(case):
    from collections import Counter

    from pharmpy.tools.mfl.helpers import all_combinations
    from pharmpy.tools.modelsearch import algorithms as A

    funcs = _sub_dict(case)
    keys = list(funcs)
    out = []
    where = f'features {keys}'
    ref = _ref_combinations(keys)

    # all_combinations
    try:
        combos = list(all_combinations(dict(funcs)))
        got = Counter(frozenset(c) for c in combos)
        if got != Counter(ref) or any(len(set(c)) != len(c) or not isinstance(c, tuple) for c in combos):
            out.append((MFL_HELP, C_COMB, f'{where}: {len(combos)} combinations '
                                          f'({len(got)} distinct), expected {len(ref)}'))
    except Exception as e:
        out.append((MFL_HELP, C_COMB, f'{where}: raised {_exc(e)}'))

    def fits_ok(wf, cands):
        for t in cands:
            succ = wf.get_successors(t)
            fit = [s for s in succ if s.name.startswith('run')]
            if len(fit) != 1 or len(succ) != 1:
                return f'candidate {t.task_input[0]} has successors {[s.name for s in succ]}'
        return None

    # exhaustive
    fid = MS_ALG + 'exhaustive'
    try:
        wf, model_tasks = A.exhaustive(dict(funcs), 'no_add')
        cands = [t for t in wf.tasks if t.function is A.create_candidate_exhaustive]
        got = Counter(frozenset(t.task_input[1]) for t in cands)
        bad = None
        if got != Counter(ref):
            bad = f'{len(cands)} candidates ({len(got)} distinct combinations), expected {len(ref)}'
        elif any(set(t.task_input[2]) != {funcs[f] for f in t.task_input[1]}
                 or len(t.task_input[2]) != len(t.task_input[1]) for t in cands):
            bad = 'a candidate does not carry the functions of its features'
        elif len(model_tasks) != len(cands) or any(wf.get_predecessors(t) for t in cands):
            bad = f'{len(model_tasks)} fit tasks for {len(cands)} candidates'
        if bad:
            out.append((fid, C_EXH, f'{where}: {bad}'))
        names = [t.task_input[0] for t in cands]
        if len(set(names)) != len(names):
            out.append((fid, C_NAMES, f'{where}: names {sorted(n for n in names if names.count(n) > 1)[:3]} '
                                      f'used more than once'))
        msg = fits_ok(wf, cands)
        if msg:
            out.append((fid, C_GRAPH, f'{where}: {msg}'))
    except Exception as e:
        out.append((fid, C_EXH, f'{where}: raised {_exc(e)}'))

    if case.get('skip_stepwise'):
        return out  # large space: the number of stepwise paths is out of reach

    # exhaustive_stepwise
    fid = MS_ALG + 'exhaustive_stepwise'
    try:
        wf, model_tasks = A.exhaustive_stepwise(dict(funcs), 'no_add')
        cands = [t for t in wf.tasks if t.function is A.create_candidate_stepwise]
        paths = []
        graph_bad = fits_ok(wf, cands)
        for t in cands:
            path = [t.task_input[1]]
            cur = t
            while True:
                pred = wf.get_predecessors(cur)
                if not pred:
                    break
                if len(pred) != 1:
                    graph_bad = graph_bad or f'{cur.name} has {len(pred)} predecessors'
                    break
                cur = pred[0]
                if cur.function is A.create_candidate_stepwise:
                    path.append(cur.task_input[1])
                    if cur.name != _key_str(cur.task_input[1]):
                        graph_bad = graph_bad or f'task {cur.name} carries feature {cur.task_input[1]}'
            if t.task_input[2] is not funcs[t.task_input[1]]:
                graph_bad = graph_bad or f'candidate {t.task_input[0]} carries the function of another feature'
            paths.append(tuple(reversed(path)))
        if graph_bad:
            out.append((fid, C_GRAPH, f'{where}: {graph_bad}'))
        if len(model_tasks) != len(cands):
            out.append((fid, C_GRAPH, f'{where}: {len(model_tasks)} fit tasks for {len(cands)} candidates'))
        want = _ref_paths(keys)
        got = Counter(paths)
        extra = sorted(p for p in got if p not in set(want))
        twice = sorted(p for p, c in got.items() if c > 1)
        missing = sorted(p for p in want if p not in got)
        if extra:
            out.append((fid, C_STEP_SOUND(keys),
                        f'{where}: path {" -> ".join(map(_key_str, extra[0]))} generated but not allowed '
                        f'by the rules'))
        if twice:
            out.append((fid, C_STEP_ONCE,
                        f'{where}: path {" -> ".join(map(_key_str, twice[0]))} generated {got[twice[0]]} '
                        f'times'))
        if missing:
            out.append((fid, C_STEP_COMPLETE(keys),
                        f'{where}: allowed path {" -> ".join(map(_key_str, missing[0]))} is not generated '
                        f'({len(missing)} of {len(want)} missing)'))
        names = [t.task_input[0] for t in cands]
        if len(set(names)) != len(names):
            out.append((fid, C_NAMES, f'{where}: names used more than once'))
    except Exception as e:
        out.append((fid, C_STEP_SOUND(keys), f'{where}: raised {_exc(e)}'))

    # reduced_stepwise
    fid = MS_ALG + 'reduced_stepwise'
    try:
        wf, model_tasks = A.reduced_stepwise(dict(funcs), 'no_add')
        cands = [t for t in wf.tasks if t.function is A.create_candidate_stepwise]
        steps = []
        for t in cands:
            before = frozenset(a.task_input[1] for a in _ancestors(wf, t)
                               if a.function is A.create_candidate_stepwise)
            steps.append((before, t.task_input[1]))
        msg = fits_ok(wf, cands)
        if msg is None and len(model_tasks) != len(cands):
            msg = f'{len(model_tasks)} fit tasks for {len(cands)} candidates'
        if msg:
            out.append((fid, C_GRAPH, f'{where}: {msg}'))
        want = _ref_reduced(keys)
        got = Counter(steps)
        fmt = lambda st: f'{{{", ".join(sorted(map(_key_str, st[0])))}}} + {_key_str(st[1])}'  # noqa: E731
        extra = sorted((s for s in got if s not in set(want)), key=fmt)
        twice = sorted((s for s, c in got.items() if c > 1), key=fmt)
        missing = sorted((s for s in want if s not in got), key=fmt)
        if extra:
            out.append((fid, C_RED_SOUND(keys),
                        f'{where}: step {fmt(extra[0])} generated but not allowed by the rules'))
        if twice:
            out.append((fid, C_RED_ONCE,
                        f'{where}: step {fmt(twice[0])} generated {got[twice[0]]} times'))
        if missing:
            out.append((fid, C_RED_COMPLETE(keys),
                        f'{where}: allowed step {fmt(missing[0])} is not generated'))
        names = [t.task_input[0] for t in cands]
        if len(set(names)) != len(names):
            out.append((fid, C_NAMES, f'{where}: names used more than once'))
    except Exception as e:
        out.append((fid, C_RED_SOUND(keys), f'{where}: raised {_exc(e)}'))
    return out


def _key_str(key):
    name, *args = key
    return f'{name}({", ".join(map(str, args))})'


# ---- iivsearch ----

C_BLOCK = 'td_exhaustive_block_structure builds one candidate per partition of the (non-fixed) etas except the structure of the start model, each once'
C_NOETAS = 'td_exhaustive_no_of_etas builds one candidate per non-empty subset of the removable etas, each once'
C_IIV_NAMES = 'iivsearch candidate names are unique and numbered from index_offset + 1'

_IIV_MODELS = {}


def _iiv_model(n_etas, structure, fixed=()):
    """pheno with one peripheral compartment and IIV on CL, VC, QP1 (, VP1), its etas arranged in
    the given block structure (tuple of tuples of eta indices)"""
    from pharmpy.modeling import (
        add_peripheral_compartment,
        add_pk_iiv,
        create_joint_distribution,
        fix_parameters,
        load_example_model,
        remove_iiv,
    )

    k = (n_etas, structure, tuple(fixed))
    if k in _IIV_MODELS:
        return _IIV_MODELS[k]
    if 'base' not in _IIV_MODELS:
        m = load_example_model('pheno')
        m = add_pk_iiv(add_peripheral_compartment(m))
        _IIV_MODELS['base'] = m
    m = _IIV_MODELS['base']
    names = list(m.random_variables.iiv.names)
    assert len(names) == 4
    if n_etas == 3:
        m = remove_iiv(m, [names[3]])
        names = names[:3]
    for part in structure:
        if len(part) > 1:
            m = create_joint_distribution(m, [names[i] for i in part], individual_estimates=None)
    if fixed:
        omegas = []
        for i in fixed:
            dist = m.random_variables.iiv[names[i]]
            omegas.append(str(dist.get_variance(names[i])))
        m = fix_parameters(m, omegas)
    # the structure really is the requested one
    have = frozenset(frozenset(d.names) for d in m.random_variables.iiv)
    assert have == frozenset(frozenset(names[i] for i in part) for part in structure), (have, structure)
    _IIV_MODELS[k] = (m, names)
    return _IIV_MODELS[k]


def _check_iiv(case):
    from collections import Counter

    from pharmpy.tools.iivsearch import algorithms as I

    n = case['n_etas']
    structure = tuple(tuple(p) for p in case['structure'])
    fixed = tuple(case.get('fixed', ()))
    offset = case.get('index_offset', 0)
    keep = case.get('keep')
    m, names = _iiv_model(n, structure, fixed)
    free = [x for i, x in enumerate(names) if i not in fixed]
    out = []
    where = (f'pheno+1 peripheral, etas {names}, blocks {[[names[i] for i in p] for p in structure]}'
             + (f', fixed {[names[i] for i in fixed]}' if fixed else ''))

    def numbered(cnames, fid):
        want = [f'iivsearch_run{i + offset}' for i in range(1, len(cnames) + 1)]
        if len(set(cnames)) != len(cnames) or sorted(cnames) != sorted(want):
            out.append((fid, C_IIV_NAMES, f'{where}, index_offset={offset}: names {cnames[:4]}..'))

    fid = IIV_ALG + 'td_exhaustive_block_structure'
    try:
        wf = I.td_exhaustive_block_structure(m, index_offset=offset)
        cands = [t for t in wf.tasks if t.function is I.create_block_structure_candidate_entry]
        got = Counter(frozenset(frozenset(p) for p in t.task_input[1]) for t in cands)
        current = frozenset(frozenset(names[i] for i in part if i not in fixed) for part in structure)
        current = frozenset(p for p in current if p)
        want = Counter(p for p in _ref_partitions(free) if p != current)
        bad = None
        if got != want:
            bad = (f'{len(cands)} candidates ({len(got)} distinct), expected {sum(want.values())} = '
                   f'Bell({len(free)}) - 1')
        elif any(sorted(e for p in t.task_input[1] for e in p) != sorted(free) for t in cands):
            bad = 'a candidate structure is not a partition of the etas'
        elif len(wf.tasks) != 2 * len(cands) or any(len(wf.get_successors(t)) != 1 for t in cands):
            bad = f'{len(wf.tasks)} tasks for {len(cands)} candidates'
        if bad:
            out.append((fid, C_BLOCK, f'{where}: {bad}'))
        numbered([t.task_input[0] for t in cands], fid)
    except Exception as e:
        out.append((fid, C_BLOCK, f'{where}: raised {_exc(e)}'))

    fid = IIV_ALG + 'td_exhaustive_no_of_etas'
    try:
        wf = I.td_exhaustive_no_of_etas(m, index_offset=offset, keep=keep)
        cands = [t for t in wf.tasks if t.function is I.create_no_of_etas_candidate_entry]
        got = Counter(frozenset(t.task_input[1]) for t in cands)
        kept = {'CL': names[0]}
        removable = [x for x in free if not keep or x not in [kept.get(k, k) for k in keep]]
        want = Counter(frozenset(s) for s in _ref_subsets_by_mask(removable) if s)
        bad = None
        if got != want:
            bad = (f'keep={keep}: {len(cands)} candidates ({len(got)} distinct), expected '
                   f'{sum(want.values())} = 2^{len(removable)} - 1')
        elif len(wf.tasks) != 2 * len(cands) or any(len(wf.get_successors(t)) != 1 for t in cands):
            bad = f'{len(wf.tasks)} tasks for {len(cands)} candidates'
        if bad:
            out.append((fid, C_NOETAS, f'{where}: {bad}'))
        numbered([t.task_input[0] for t in cands], fid)
    except Exception as e:
        out.append((fid, C_NOETAS, f'{where}: raised {_exc(e)}'))
    return out


# ---- enumeration ----

def _enum_cases(tier):
    quick = tier == 'quick'
    # partitions: range(n) and every order of <=4 distinct labels
    for n in range(0, (6 if quick else 7) + 1):
        yield {'kind': 'partitions', 'elements': list(range(n))}
    for n in range(1, 5):
        for perm in itertools.permutations('abcd'[:n]):
            yield {'kind': 'partitions', 'elements': list(perm)}
    for n in range(0, (6 if quick else 7) + 1):
        yield {'kind': 'subsets', 'n': n}
    # _is_allowed: every (candidate, previous sequence)
    maxprev = 2 if quick else 3
    for space in [EXAMPLE_SPACE] + NAMED_SPACES[1:4]:
        keys = list(_space_funcs(space))
        if space != EXAMPLE_SPACE:
            maxp = maxprev + 1
        else:
            maxp = maxprev
        for feat in keys:
            for r in range(0, maxp + 1):
                for prev in itertools.permutations(keys, r):
                    yield {'kind': 'allowed', 'space': space, 'keys': None, 'feat': list(feat),
                           'previous': [list(p) for p in prev]}
    # builders: all sub-dictionaries of the universe with <= k features, and the named spaces
    ukeys = list(_space_funcs(UNIVERSE_SPACE))
    for r in range(1, (3 if quick else 4) + 1):
        for sub in itertools.combinations(ukeys, r):
            yield {'kind': 'builders', 'space': UNIVERSE_SPACE, 'keys': [list(k) for k in sub]}
    for space in NAMED_SPACES:
        yield {'kind': 'builders', 'space': space, 'drop_defaults': True, 'keys': None}
    yield {'kind': 'builders', 'space': NAMED_SPACES[1], 'keys': None}
    # all_combinations / exhaustive on whole search spaces (the stepwise path sets of these are out of
    # reach): every product of the options below, in quick those with <= 200 combinations
    for parts in itertools.product(*PRODUCT_FAMILY):
        space = ';'.join(parts)
        ncomb = 1
        for g in _ref_combination_groups(list(_space_funcs(space))).values():
            ncomb *= 1 + len(g)
        if quick and ncomb - 1 > 200:
            continue
        yield {'kind': 'builders', 'space': space, 'keys': None, 'skip_stepwise': True}
    if not quick:
        yield {'kind': 'builders', 'space': EXAMPLE_SPACE, 'drop_defaults': True, 'keys': None,
               'skip_stepwise': True}
    # iivsearch: every block structure of 3 and of 4 etas as start model
    for n in (3, 4):
        for p in _ref_partitions(range(n)):
            structure = sorted(sorted(part) for part in p)
            yield {'kind': 'iiv', 'n_etas': n, 'structure': structure}
    yield {'kind': 'iiv', 'n_etas': 4, 'structure': [[0], [1], [2], [3]], 'index_offset': 7,
           'keep': ['CL']}
    yield {'kind': 'iiv', 'n_etas': 4, 'structure': [[0, 1], [2], [3]], 'fixed': [3]}
    yield {'kind': 'iiv', 'n_etas': 4, 'structure': [[0], [1], [2], [3]], 'fixed': [2]}


def _enum_check(case):
    k = case['kind']
    if k == 'partitions':
        return _check_partitions(case['elements'])
    if k == 'subsets':
        return _check_subsets(case['n'])
    if k == 'allowed':
        return _check_is_allowed(case)
    if k == 'builders':
        return _check_builders(case)
    if k == 'iiv':
        return _check_iiv(case)
    raise ValueError(k)


def _case_size(case):
    import json

    if case['kind'] in ('builders', 'allowed'):
        n = len(_sub_dict(case)) + len(case.get('previous', []))
    else:
        n = len(case.get('elements') or case.get('structure') or [])
    return (n, len(json.dumps(case)))


def _enum_worker(items):
    best = {}
    allf = {}
    n = 0
    for case in items:
        n += 1
        for fid, clause, detail in _enum_check(case):
            k = (fid, clause)
            _note_also(allf, k, case)
            size = _case_size(case)
            if k not in best or _smaller(size, case, detail, best[k]):
                best[k] = (size, detail, case)
    return n, n, best, allf


def bounded_enumeration(tier):
    _mfl()
    light, heavy = [], []
    for c in _enum_cases(tier):
        (heavy if c['kind'] in ('builders', 'iiv') else light).append(c)
    jobs = list(_chunks(light, 2000)) + list(_chunks([c for c in heavy if c['kind'] == 'builders'], 40))
    iiv = [c for c in heavy if c['kind'] == 'iiv']
    jobs += list(_chunks(iiv, 4))
    cases, nontrivial, fails = _merge_fails(_run_jobs(_enum_worker, jobs), 'bounded_enumeration_replay')
    quick = tier == 'quick'
    bound = (f'partitions of range(n), n<={6 if quick else 7}, and of every ordering of <=4 labels; '
             f'subsets for n<={6 if quick else 7} with every (min_size, max_size); _is_allowed for every '
             f'(feature, sequence of <={2 if quick else 3} distinct previous features) over the funcs of '
             f'{EXAMPLE_SPACE!r} (and of 3 spaces with NODEPOT / unsorted counts, one step longer); '
             f'all_combinations, exhaustive, exhaustive_stepwise, reduced_stepwise for every '
             f'sub-dictionary with <={3 if quick else 4} features of the 18 funcs of {UNIVERSE_SPACE!r} '
             f'and {len(NAMED_SPACES) + 1} named spaces; all_combinations and exhaustive for the 108 spaces '
             f'ABSORPTION x ELIMINATION x PERIPHERALS x TRANSITS x LAGTIME of PRODUCT_FAMILY'
             f'{" with <=200 combinations" if quick else " (up to 719 combinations)"}; iivsearch builders for pheno + 1 peripheral with '
             f'3 and 4 etas in every block structure (20 start models), plus keep / fixed / index_offset')
    return {
        'cases': cases,
        'nontrivial': nontrivial,
        'bound': bound,
        'samples': ["partitions(('b', 'a', 'c'))",
                    "_is_allowed(('PERIPHERALS', 2), previous=[('PERIPHERALS', 0), ('ABSORPTION', 'ZO')])",
                    "builders over [('ABSORPTION', 'ZO'), ('PERIPHERALS', 1), ('PERIPHERALS', 2)]"],
        'fails': fails,
    }


def bounded_enumeration_replay(rp):
    case = rp['case']
    _mfl()
    return _replay_verdict(_enum_check(case), case)


# ======================================================================================
# (3) Workflows: composition and execution against a reference topological evaluation
# ======================================================================================

WF = 'src/pharmpy/workflows/workflow.py:'
WF_EXEC = 'src/pharmpy/workflows/execute.py:execute_workflow'
WF_RUN = 'src/pharmpy/workflows/dispatchers/local_dask/run.py:run'

CTX = 'CTX'
_CALLS = []


def _plain(label):
    def task_fn(uid, *args):
        _CALLS.append(uid)
        return (label, None, (uid,) + args)
    return task_fn


def _shared_fn(uid, *args):
    _CALLS.append(uid)
    return ('S', None, (uid,) + args)


def _replica_fn(*args):
    """function of replicate tasks without any static input"""
    _CALLS.append('rep')
    return ('R', None, args)


def _ctx_plain(label):
    def task_fn(context, uid, *args):
        _CALLS.append(uid)
        return (label, context, (uid,) + args)
    return task_fn


def _ctx_lambda(label):
    return lambda context, uid, *args: (_CALLS.append(uid), (label, context, (uid,) + args))[1]


def _noctx_lambda(label):
    return lambda uid, *args: (_CALLS.append(uid), (label, None, (uid,) + args))[1]


def _ctx_partial(label):
    import functools

    def inner(tag, context, uid, *args):
        _CALLS.append(uid)
        return (tag, context, (uid,) + args)
    return functools.partial(inner, label)


def _noctx_partial(label):
    import functools

    def inner(tag, uid, *args):
        _CALLS.append(uid)
        return (tag, None, (uid,) + args)
    return functools.partial(inner, label)


class _Holder:
    def __init__(self, label):
        self.label = label

    def method(self, context, uid, *args):
        _CALLS.append(uid)
        return (self.label, context, (uid,) + args)

    def plain_method(self, uid, *args):
        _CALLS.append(uid)
        return (self.label, None, (uid,) + args)


class _CallableCtx:
    def __init__(self, label):
        self.label = label

    def __call__(self, context, uid, *args):
        _CALLS.append(uid)
        return (self.label, context, (uid,) + args)


def _ctx_wrapped(label):
    import functools

    inner = _ctx_plain(label)

    @functools.wraps(inner)
    def wrapper(*args, **kwargs):
        return inner(*args, **kwargs)
    return wrapper


def _second_param(label):
    def task_fn(uid, context, *args):  # `context` is not the first parameter
        _CALLS.append(uid)
        return (label, None, (uid, context) + args)
    return task_fn


def _other_name(label):
    def task_fn(ctx, *args):  # first parameter is not called `context`
        _CALLS.append(ctx)
        return (label, None, (ctx,) + args)
    return task_fn


# kind -> (factory, takes the context as first argument)
FN_KINDS = {
    'plain': (_plain, False),
    'ctx_plain': (_ctx_plain, True),
    'ctx_lambda': (_ctx_lambda, True),
    'lambda': (_noctx_lambda, False),
    'ctx_partial': (_ctx_partial, True),
    'partial': (_noctx_partial, False),
    'ctx_method': (lambda label: _Holder(label).method, True),
    'method': (lambda label: _Holder(label).plain_method, False),
    'ctx_callable': (_CallableCtx, True),
    'ctx_wrapped': (_ctx_wrapped, True),
    'second_param': (_second_param, False),
    'other_name': (_other_name, False),
}


class _RefWF:
    """the declared workflow: tasks in the order they entered, and edges.  Tasks are told apart by object
    identity only (never by ==/hash of Task): every declared Task object is a task of its own, also when
    another task has the same name, function and static input"""

    def __init__(self, order=(), edges=()):
        self.order = list(order)
        self.edges = []          # list of (pred, task), no pair twice
        for p, t in edges:
            self.add_edge(p, t)

    def copy(self):
        return _RefWF(self.order, self.edges)

    def has(self, t):
        return any(x is t for x in self.order)

    def has_edge(self, p, t):
        return any(a is p and b is t for a, b in self.edges)

    def add_edge(self, p, t):
        if not self.has_edge(p, t):
            self.edges.append((p, t))

    def add(self, t, preds=()):
        if not self.has(t):
            self.order.append(t)
        for p in preds:
            self.add_edge(p, t)

    def inputs(self):
        return [t for t in self.order if not any(e[1] is t for e in self.edges)]

    def outputs(self):
        return [t for t in self.order if not any(e[0] is t for e in self.edges)]

    def preds(self, t):
        return [p for p in self.order if self.has_edge(p, t)]

    def insert(self, other, preds=None):
        """None when the connection is N:M (documented ValueError)"""
        outs = self.outputs() if preds is None else list(preds)
        ins = other.inputs()
        new = self.copy()
        for t in other.order:
            new.add(t)
        for p, t in other.edges:
            new.add_edge(p, t)
        if len(ins) == len(outs):
            for i, o in zip(ins, outs):
                new.add_edge(o, i)
        elif len(ins) == 1:
            for o in outs:
                new.add_edge(o, ins[0])
        elif len(outs) == 1:
            for i in ins:
                new.add_edge(outs[0], i)
        else:
            return None
        return new

    def replace(self, t, new):
        """the new task enters the workflow now (last), with the edges of the replaced one"""
        r = _RefWF([x for x in self.order if x is not t] + [new],
                   [(new if a is t else a, new if b is t else b) for a, b in self.edges])
        return r

    def plus(self, other):
        new = self.copy()
        for t in other.order:
            new.add(t)
        for p, t in other.edges:
            new.add_edge(p, t)
        return new


class _Spec:
    """what a test task is: label, static inputs, whether it takes the context; uid is what the function
    appends to _CALLS (the first static input, 'rep' for tasks without static input)"""

    def __init__(self, task, label, static, ctx=False, uid=None):
        self.task = task
        self.label = label
        self.static = tuple(static)
        self.ctx = ctx
        self.uid = self.static[0] if uid is None else uid


class _Specs:
    """Task object -> _Spec, by object identity (independent of Task.__eq__ / __hash__)"""

    def __init__(self, other=None):
        self._d = {}
        if other is not None:
            self.update(other)

    def __getitem__(self, t):
        return self._d[id(t)]

    def __setitem__(self, t, spec):
        assert spec.task is t
        self._d[id(t)] = spec

    def update(self, other):
        self._d.update(other._d)


def _ref_eval(ref, specs, context=None):
    """sequential evaluation in topological order; value of every task, by id(task)"""
    val = {}
    remaining = list(ref.order)
    while remaining:
        progressed = False
        for t in list(remaining):
            ps = ref.preds(t)
            if all(id(p) in val for p in ps):
                s = specs[t]
                args = s.static + tuple(val[id(p)] for p in ps)
                val[id(t)] = (s.label, context if s.ctx else None, args)
                remaining = [x for x in remaining if x is not t]
                progressed = True
        if not progressed:
            raise RuntimeError('cycle')
    return val


C_WF_KEEP = 'composition keeps exactly the declared tasks and edges (tasks, input and output tasks in entry order, predecessors and successors)'
C_WF_NM = 'insert_workflow raises the documented ValueError exactly for N:M connections'
C_WF_DICT = 'as_dask_dict has one unique key per task, the sink is called results, every value is (function, *static inputs, *keys of the predecessors in entry order)'
C_WF_ONESINK = 'as_dask_dict raises the documented ValueError exactly when the workflow does not have one output task'
C_WF_GET = 'threaded execution of as_dask_dict equals the sequential reference evaluation, whatever the number of scheduler threads'
C_WF_ONCE = 'every task is called exactly once'
C_WF_RUN = 'the local_dask dispatcher (threaded) returns the reference value of the single output task'
def C_WF_EXEC(mixed):
    return ('execute_workflow returns the reference value of the workflow it was given: static inputs, '
            'context first where the function takes it, then predecessor results in the entry order of '
            'the given workflow ('
            + ('some task has both context-taking and other predecessors' if mixed else
               'no task has both context-taking and other predecessors') + ')')
C_WF_CTX = 'insert_context prepends the context to exactly the tasks whose function takes a context first and keeps every other task, all edges and the task count'
C_WF_PURE = 'a Workflow built from a builder is not changed by later builder operations'


# ---- execute_workflow with Model objects among the static inputs; workflows started from inside a task ----

C_WF_NEST = ('a workflow started with call_workflow from inside a task (distributed dispatcher) returns to that '
             'task the reference value of its own output task, whatever the names and positions of its tasks and '
             'of the tasks of the calling workflow, and the calling workflow returns its reference value')
C_WF_NEST_ONCE = 'every task of the calling workflow and of the workflow started with call_workflow is called exactly once'
WF_CALL = 'src/pharmpy/workflows/dispatchers/local_dask/call.py:call_workflow'
NEST_TIMEOUT = 60    # seconds; a nested execution that does not come back is a failure, not a hang of the check


def _show_static(x):
    """static inputs as the task functions of the model-carrying cases report them: a Model by its name"""
    from pharmpy.model import Model

    return 'model:' + x.name if isinstance(x, Model) else x


def _model_fn(uid, *args):
    _CALLS.append(uid)
    return ('M', None, (uid,) + tuple(_show_static(a) for a in args))


def _model_ctx_fn(context, uid, *args):
    _CALLS.append(uid)
    return ('M', context, (uid,) + tuple(_show_static(a) for a in args))


_NEST = {}


def _nest_context():
    """a minimal concrete Context (every abstract method does nothing); call_workflow is the one of the base class"""
    if 'ctx' not in _NEST:
        from pharmpy.workflows.contexts import Context

        def nothing(*args, **kwargs):
            return None

        body = {name: nothing for name in Context.__abstractmethods__}
        body['context_path'] = 'nest'
        body['exists'] = staticmethod(nothing)
        body['__init__'] = lambda self: None
        body['log_info'] = body['log_message'] = body['log_warning'] = body['log_error'] = nothing
        body['__reduce__'] = lambda self: (_nest_context, ())
        _NEST['ctx'] = type('_NestContext', (Context,), body)()
    return _NEST['ctx']


def _nest_names(scheme, n, inner):
    """names of the tasks of the calling (inner=False) and of the called workflow:
    positional: task i is called t<i> in both (equal names at equal positions); shifted: t<i> and t<i+1> (equal
    names at different positions); distinct: t<i> and u<i>; same: every task of both workflows is called task"""
    if scheme == 'same':
        return ['task'] * n
    if inner and scheme == 'distinct':
        return [f'u{i}' for i in range(n)]
    if inner and scheme == 'shifted':
        return [f't{i + 1}' for i in range(n)]
    return [f't{i}' for i in range(n)]


def _nest_fn(uid, *args):
    _CALLS.append(uid)
    return ('N', None, (uid,) + args)


def _nest_ctx_fn(context, uid, *args):
    _CALLS.append(uid)
    return ('N', None, (uid,) + args)


def _nest_inner(desc):
    """(workflow, reference, specs) of the called workflow described by desc = [n, edges, names scheme]"""
    from pharmpy.workflows import Task, Workflow

    n, edges, scheme = desc
    names = _nest_names(scheme, n, True)
    tasks, specs = [], _Specs()
    for i in range(n):
        t = Task(names[i], _nest_fn, f'i{i}', i * 7)
        specs[t] = _Spec(t, 'N', (f'i{i}', i * 7))
        tasks.append(t)
    wb, ref = _build_dag(tasks, edges, list(range(n)))
    return Workflow(wb), ref, specs


def _nest_caller(context, uid, desc_json, via, *args):
    """task that starts the workflow described by desc_json and reports what it got back"""
    import json

    from pharmpy.workflows import local_dask

    _CALLS.append(uid)
    wf, _, _ = _nest_inner(json.loads(desc_json))
    if via == 'context':
        res = context.call_workflow(wf, 'called-results')
    else:
        res = local_dask.call_workflow(wf, 'called-results', context)
    return ('C', None, (uid, desc_json, via) + args + (res,))


def _with_timeout(fn, seconds):
    """('value', v) / ('error', e) / ('timeout', None) of fn() run in a daemon thread"""
    import threading

    box = {}

    def target():
        try:
            box['r'] = ('value', fn())
        except BaseException as e:
            box['r'] = ('error', e)

    th = threading.Thread(target=target, daemon=True)
    th.start()
    th.join(seconds)
    return box.get('r', ('timeout', None))


def _check_exec_model(case, where):
    """execute_workflow on a workflow in which the tasks marked in case['models'] carry a Model among their static
    inputs: C_WF_EXEC / C_WF_ONCE / C_WF_PURE"""
    import pharmpy.workflows.dispatchers as D
    from pharmpy.model import Model
    from pharmpy.workflows import Task, Workflow, execute_workflow, local_dask

    out = []
    n = case['n']
    takes = bool(case.get('ctx'))
    if 'models' not in _NEST:
        _NEST['models'] = [Model().replace(name=f'm{i}') for i in range(6)]
    tasks, specs = [], _Specs()
    for i in range(n):
        second = _NEST['models'][i] if case['models'][i] else i * 10
        t = Task(f't{i}', _model_ctx_fn if takes else _model_fn, f't{i}', second)
        specs[t] = _Spec(t, 'M', (f't{i}', _show_static(second)), ctx=takes)
        tasks.append(t)
    wb, ref = _build_dag(tasks, case['edges'], case['perm'], case['pred_order'], 'late_edges')
    wf = Workflow(wb)
    want = _ref_eval(ref, specs, context=CTX)[id(ref.outputs()[0])]
    clause = C_WF_EXEC(False)
    old = D.conf.dask_dispatcher
    D.conf.dask_dispatcher = 'threaded'
    try:
        del _CALLS[:]
        got = execute_workflow(wf, dispatcher=local_dask, context=CTX)
        if got != want:
            out.append((WF_EXEC, clause, f'{where}: result {got!r} reference {want!r}'))
        elif sorted(_CALLS) != sorted(specs[t].uid for t in tasks):
            out.append((WF_EXEC, C_WF_ONCE, f'{where}: calls {sorted(_CALLS)}'))
    except Exception as e:
        out.append((WF_EXEC, clause, f'{where}: raised {_exc(e)}'))
    finally:
        D.conf.dask_dispatcher = old
    if len(wf) != n or [id(t) for t in wf.tasks] != [id(t) for t in ref.order]:
        out.append((WF_EXEC, C_WF_PURE, f'{where}: the executed workflow changed'))
    return out


def _check_nested(case, where):
    """a task of the executed workflow starts another workflow with call_workflow (distributed dispatcher)"""
    import json

    import pharmpy.workflows.dispatchers as D
    from pharmpy.workflows import Task, Workflow, execute_workflow, local_dask

    out = []
    n, k = case['n'], case['k']
    desc = [case['ni'], case['iedges'], case['names']]
    desc_json = json.dumps(desc)
    _, iref, ispecs = _nest_inner(desc)
    ival = _ref_eval(iref, ispecs)[id(iref.outputs()[0])]
    names = _nest_names(case['names'], n, False)
    tasks, specs = [], _Specs()
    for i in range(n):
        if i == k:
            t = Task(names[i], _nest_caller, f'o{i}', desc_json, case['via'])
            # the caller reports (static inputs, results of its predecessors, what call_workflow returned)
            specs[t] = _Spec(t, 'C', (f'o{i}', desc_json, case['via']))
        else:
            # every task of the calling workflow takes the context, like the caller (no task has both
            # context-taking and other predecessors)
            t = Task(names[i], _nest_ctx_fn, f'o{i}', i * 10)
            specs[t] = _Spec(t, 'N', (f'o{i}', i * 10))
        tasks.append(t)
    wb, ref = _build_dag(tasks, case['edges'], list(range(n)))
    wf = Workflow(wb)
    # reference: sequential evaluation, the caller's value ends with the reference value of the called workflow
    val = {}
    for t in ref.order:       # tasks 0..n-1 with edges i<j: the entry order is a topological order
        s = specs[t]
        args = s.static + tuple(val[id(p)] for p in ref.preds(t))
        val[id(t)] = (s.label, None, args + ((ival,) if t is tasks[k] else ()))
    want = val[id(ref.outputs()[0])]
    want_calls = sorted([specs[t].uid for t in tasks] + [ispecs[t].uid for t in iref.order])
    ctx = _nest_context()
    old = D.conf.dask_dispatcher
    D.conf.dask_dispatcher = 'distributed'
    try:
        del _CALLS[:]
        status, got = _with_timeout(lambda: execute_workflow(wf, dispatcher=local_dask, context=ctx), NEST_TIMEOUT)
        if status == 'timeout':
            out.append((WF_CALL, C_WF_NEST, f'{where}: no result within {NEST_TIMEOUT} s'))
        elif status == 'error':
            out.append((WF_CALL, C_WF_NEST, f'{where}: raised {_exc(got)}'))
        elif got != want:
            out.append((WF_CALL, C_WF_NEST, f'{where}: result {got!r} reference {want!r}'))
        elif sorted(_CALLS) != want_calls:
            out.append((WF_CALL, C_WF_NEST_ONCE, f'{where}: calls {sorted(_CALLS)} expected {want_calls}'))
    finally:
        D.conf.dask_dispatcher = old
    return out


def _graph_view(wf):
    tasks = wf.tasks
    ids = {id(t): i for i, t in enumerate(tasks)}
    return tasks, ids


def _check_structure(wf, ref, where):
    """C_WF_KEEP for a Workflow / WorkflowBuilder against the reference"""
    tasks = wf.tasks
    bad = None
    if [id(t) for t in tasks] != [id(t) for t in ref.order]:
        if sorted(map(id, tasks)) != sorted(map(id, ref.order)):
            bad = f'tasks {[t.name for t in tasks]} declared {[t.name for t in ref.order]}'
        else:
            bad = f'task order {[t.name for t in tasks]} declared entry order {[t.name for t in ref.order]}'
    elif len(wf) != len(ref.order):
        bad = f'len {len(wf)}'
    else:
        for t in ref.order:
            got = [id(p) for p in wf.get_predecessors(t)]
            want = [id(p) for p in ref.preds(t)]
            if sorted(got) != sorted(want):
                bad = (f'predecessors of {t.name}: {[p.name for p in wf.get_predecessors(t)]} declared '
                       f'{[p.name for p in ref.preds(t)]}')
                break
            gots = sorted(id(s) for s in wf.get_successors(t))
            wants = sorted(id(b) for a, b in ref.edges if a is t)
            if gots != wants:
                bad = f'successors of {t.name} differ'
                break
        if bad is None and [id(t) for t in wf.input_tasks] != [id(t) for t in ref.inputs()]:
            bad = f'input_tasks {[t.name for t in wf.input_tasks]} declared {[t.name for t in ref.inputs()]}'
        if bad is None and [id(t) for t in wf.output_tasks] != [id(t) for t in ref.outputs()]:
            bad = f'output_tasks {[t.name for t in wf.output_tasks]} declared {[t.name for t in ref.outputs()]}'
    return [(WF + 'WorkflowBuilder', C_WF_KEEP, f'{where}: {bad}')] if bad else []


def _check_dask_and_run(wf, ref, specs, where, real_run=False):
    """C_WF_DICT / C_WF_ONESINK / C_WF_GET / C_WF_ONCE (/ C_WF_RUN) for a Workflow"""
    from dask.threaded import get

    out = []
    fid = WF + 'Workflow.as_dask_dict'
    sinks = ref.outputs()
    try:
        dsk = wf.as_dask_dict()
    except ValueError as e:
        if len(sinks) == 1:
            out.append((fid, C_WF_ONESINK, f'{where}: one output task but raised {_exc(e)}'))
        return out
    except Exception as e:
        out.append((fid, C_WF_DICT, f'{where}: raised {_exc(e)}'))
        return out
    if len(sinks) != 1:
        out.append((fid, C_WF_ONESINK, f'{where}: {len(sinks)} output tasks but no ValueError'))
        return out
    sink = sinks[0]
    by_uid = {specs[t].uid: t for t in ref.order}
    key_of = {}
    bad = None
    if len(dsk) != len(ref.order):
        bad = f'{len(dsk)} keys for {len(ref.order)} tasks'
    elif len(by_uid) != len(ref.order) or any(not specs[t].static for t in ref.order):
        # replicates (tasks equal in function and static input): some one-to-one assignment of keys to tasks
        bad = _match_replicates(dsk, ref, specs, sink)
    else:
        for key, value in dsk.items():
            nstat = None
            for t in ref.order:
                s = specs[t]
                if value[0] is t.function and tuple(value[1:1 + len(s.static)]) == s.static \
                        and by_uid.get(value[1]) is t:
                    nstat = len(s.static)
                    key_of[id(t)] = key
                    break
            if nstat is None:
                bad = f'value of {key!r} is not (function, *static inputs, ...) of a task'
                break
        if bad is None and len(key_of) != len(ref.order):
            bad = 'two keys describe the same task'
        if bad is None and key_of[id(sink)] != 'results':
            bad = f'the sink has key {key_of[id(sink)]!r}'
        if bad is None:
            for t in ref.order:
                key = key_of[id(t)]
                if t is not sink and not key.startswith(t.name + '-'):
                    bad = f'key {key!r} of task {t.name}'
                    break
                got = list(dsk[key][1 + len(specs[t].static):])
                want = [key_of[id(p)] for p in ref.preds(t)]
                if got != want:
                    names = {v: k for k, v in key_of.items()}
                    bad = (f'{t.name} receives its predecessors in the order '
                           f'{[by_name(ref, names.get(k)) for k in got]}, entry order is '
                           f'{[p.name for p in ref.preds(t)]}')
                    break
    if bad:
        out.append((fid, C_WF_DICT, f'{where}: {bad}'))
    want = _ref_eval(ref, specs)[id(sink)]
    for workers in (4, 1):
        del _CALLS[:]
        try:
            got = get(dsk, 'results', num_workers=workers)
        except Exception as e:
            out.append((fid, C_WF_GET, f'{where}: {workers} threads: raised {_exc(e)}'))
            break
        if got != want:
            out.append((fid, C_WF_GET, f'{where}: {workers} threads: result {got!r} reference {want!r}'))
            break
        calls = sorted(_CALLS, key=repr)
        if calls != sorted((specs[t].uid for t in ref.order), key=repr):
            out.append((fid, C_WF_ONCE, f'{where}: {workers} threads: calls {calls}'))
            break
    if real_run:
        import pharmpy.workflows.dispatchers as D
        from pharmpy.workflows.dispatchers.local_dask import run

        old = D.conf.dask_dispatcher
        D.conf.dask_dispatcher = 'threaded'
        try:
            del _CALLS[:]
            got = run(wf, None)
            if got != want:
                out.append((WF_RUN, C_WF_RUN, f'{where}: result {got!r} reference {want!r}'))
            elif sorted(_CALLS, key=repr) != sorted((specs[t].uid for t in ref.order), key=repr):
                out.append((WF_RUN, C_WF_ONCE, f'{where}: calls {sorted(_CALLS, key=repr)}'))
        except Exception as e:
            out.append((WF_RUN, C_WF_RUN, f'{where}: raised {_exc(e)}'))
        finally:
            D.conf.dask_dispatcher = old
    return out


def _match_replicates(dsk, ref, specs, sink):
    """C_WF_DICT when tasks cannot be told apart by their static input: there must be a one-to-one assignment
    of the keys to the declared tasks under which every value is (function, *static inputs, *keys of the
    predecessors in entry order), the sink has the key results and every other key starts with the task name.
    Returns None or what is wrong."""
    order = []
    todo = list(ref.order)
    while todo:       # topological order: the keys of the predecessors are assigned first
        nxt = [t for t in todo if all(any(p is x for x in order) for p in ref.preds(t))]
        if not nxt:
            return 'cycle'
        order.append(nxt[0])
        todo = [t for t in todo if t is not nxt[0]]

    def search(i, key_of, used):
        if i == len(order):
            return True
        t = order[i]
        s = specs[t]
        want = (t.function,) + s.static + tuple(key_of[id(p)] for p in ref.preds(t))
        for key, value in dsk.items():
            if key in used or len(value) != len(want) or value[0] is not want[0] or tuple(value[1:]) != want[1:]:
                continue
            if (key == 'results') != (t is sink) or (t is not sink and not key.startswith(t.name + '-')):
                continue
            key_of[id(t)] = key
            if search(i + 1, key_of, used | {key}):
                return True
            del key_of[id(t)]
        return False

    if search(0, {}, frozenset()):
        return None
    shown = {k: (getattr(v[0], '__name__', '?'),) + tuple(v[1:]) for k, v in dsk.items()}
    decl = [(t.name, [p.name for p in ref.preds(t)]) for t in ref.order]
    return (f'no one-to-one assignment of the keys to the declared tasks: dict {shown}, declared (task, predecessors '
            f'in entry order) {decl}')


def by_name(ref, task_id):
    for t in ref.order:
        if id(t) == task_id:
            return t.name
    return '?'


def _new_tasks(n, names='distinct', prefix='t', start=0):
    """n test tasks with specs; uid (first static input) identifies the task in calls and dicts.
    names: 'distinct'  every task has its own name, function and static input
           'same'      same name and function, different static input
           'replica'   replicates: n distinct Task objects equal in name, function and static input
           'replica2'  two classes of replicates (even / odd position)
           'replica0'  replicates without any static input"""
    from pharmpy.workflows import Task

    tasks, specs = [], _Specs()
    for i in range(start, start + n):
        uid = f'{prefix}{i}'
        if names == 'same':
            t = Task('task', _shared_fn, uid, i * 10)
            specs[t] = _Spec(t, 'S', (uid, i * 10))
        elif names == 'replica':
            t = Task('rep', _shared_fn, 'r', 0)
            specs[t] = _Spec(t, 'S', ('r', 0))
        elif names == 'replica2':
            t = Task('rep', _shared_fn, f'r{i % 2}', 0)
            specs[t] = _Spec(t, 'S', (f'r{i % 2}', 0))
        elif names == 'replica0':
            t = Task('rep', _replica_fn)
            specs[t] = _Spec(t, 'R', (), uid='rep')
        else:
            label = f'L{prefix}{i}'
            t = Task(uid, _plain(label), uid, i * 10)
            specs[t] = _Spec(t, label, (uid, i * 10))
        tasks.append(t)
    return tasks, specs


def _build_dag(tasks, edges, perm, pred_order='asc', variant='late_edges'):
    """(builder, reference) of the DAG over tasks[i] with edges [i, j], i<j"""
    from pharmpy.workflows import WorkflowBuilder

    wb = WorkflowBuilder(name='w')
    ref = _RefWF()
    n = len(tasks)
    preds = {j: [i for i, jj in edges if jj == j] for j in range(n)}
    if variant == 'topo':
        for j in range(n):
            ps = preds[j] if pred_order == 'asc' else preds[j][::-1]
            if not ps:
                wb.add_task(tasks[j])
            elif len(ps) == 1 and pred_order == 'asc':
                wb.add_task(tasks[j], predecessors=tasks[ps[0]])
            else:
                wb.add_task(tasks[j], predecessors=[tasks[p] for p in ps])
            ref.add(tasks[j], [tasks[p] for p in ps])
    elif variant == 'init':
        wb = WorkflowBuilder(tasks=[tasks[i] for i in perm], name='w')
        for i in perm:
            ref.add(tasks[i])
        for j in range(n):
            if preds[j]:
                wb.add_task(tasks[j], predecessors=[tasks[p] for p in preds[j]])
                ref.add(tasks[j], [tasks[p] for p in preds[j]])
    else:
        for i in perm:
            wb.add_task(tasks[i])
            ref.add(tasks[i])
        for j in range(n):
            ps = preds[j] if pred_order == 'asc' else preds[j][::-1]
            if ps:
                wb.add_task(tasks[j], predecessors=[tasks[p] for p in ps])
                ref.add(tasks[j], [tasks[p] for p in ps])
    return wb, ref


def _context_replicates(wbc, got, tasks, specs, ref):
    """C_WF_CTX when tasks are replicates (cannot be told apart by name and function): a task that takes no
    context is still there itself; one that takes it is replaced by a new task with the same name and
    function and the context prepended; under some such one-to-one assignment the edges are the declared ones"""
    cands = []
    for t in tasks:
        if specs[t].ctx:
            want_input = (CTX,) + t.task_input
            c = [g for g in got if not any(g is x for x in tasks) and g.name == t.name
                 and g.function is t.function and g.task_input == want_input]
        else:
            c = [g for g in got if g is t]
        if not c:
            return (f'no task for the {"context-taking " if specs[t].ctx else ""}replicate {t.name} with label '
                    f'{specs[t].label}: got {[(g.name, g.task_input) for g in got]}')
        cands.append(c)
    edges = sorted((id(p), id(g)) for g in got for p in wbc.get_predecessors(g))
    for choice in itertools.product(*cands):
        if len({id(g) for g in choice}) != len(tasks):
            continue
        new_of = {id(t): g for t, g in zip(tasks, choice)}
        if edges == sorted((id(new_of[id(a)]), id(new_of[id(b)])) for a, b in ref.edges):
            return None
    return 'edges changed'


def _check_wf_case(case):
    from pharmpy.workflows import Task, Workflow, WorkflowBuilder

    kind = case['kind']
    out = []
    where = ', '.join(f'{k}={v}' for k, v in case.items() if k not in ('fid', 'clause'))
    if kind == 'dag':
        tasks, specs = _new_tasks(case['n'], case['names'])
        wb, ref = _build_dag(tasks, case['edges'], case['perm'], case['pred_order'], case['variant'])
        out += _check_structure(wb, ref, where)
        wf = Workflow(wb)
        out += _check_structure(wf, ref, where)
        out += _check_dask_and_run(wf, ref, specs, where, real_run=case.get('real_run', False))
        # later builder operations do not reach the Workflow
        extra = Task('late', _plain('late'), 'late')
        wb.add_task(extra, predecessors=tasks[-1])
        if len(wf) != case['n'] or any(t is extra for t in wf.tasks):
            out.append((WF + 'Workflow', C_WF_PURE, f'{where}: the workflow gained a task'))
        # a builder made from the workflow is an independent copy with the same tasks and edges
        wb2 = WorkflowBuilder(wf)
        out += _check_structure(wb2, ref, where + ' (WorkflowBuilder(workflow))')
    elif kind == 'insert':
        ta, sa = _new_tasks(case['a'], case.get('names_a', 'distinct'), 'a')
        tb, sb = _new_tasks(case['b'], case.get('names', 'distinct'), 'b')
        specs = _Specs(sa)
        specs.update(sb)
        wba, refa = _build_dag(ta, case['ea'], list(range(case['a'])))
        wbb, refb = _build_dag(tb, case['eb'], case['permb'])
        other = Workflow(wbb)
        p = case['preds']
        if p is None:
            arg, plist = None, None
        elif 'single' in p:
            arg, plist = ta[p['single']], [ta[p['single']]]
        else:
            arg = [ta[i] for i in p['list']]
            plist = arg
        ref = refa.insert(refb, plist)
        fid = WF + 'WorkflowBuilder.insert_workflow'
        try:
            if arg is None:
                wba.insert_workflow(other)
            else:
                wba.insert_workflow(other, predecessors=arg)
        except ValueError as e:
            if ref is not None:
                out.append((fid, C_WF_NM, f'{where}: raised {_exc(e)}'))
            return out
        except Exception as e:
            out.append((fid, C_WF_NM, f'{where}: raised {_exc(e)}'))
            return out
        if ref is None:
            out.append((fid, C_WF_NM, f'{where}: N:M connection accepted'))
            return out
        out += [(fid, c, d) for _, c, d in _check_structure(wba, ref, where)]
        if len(other) != case['b'] or _check_structure(other, refb, where):
            out.append((fid, C_WF_PURE, f'{where}: the inserted workflow changed'))
        wf = Workflow(wba)
        out += [(fid, c, d) for _, c, d in _check_dask_and_run(wf, ref, specs, where)]
    elif kind == 'replace':
        tasks, specs = _new_tasks(case['n'], case.get('names', 'distinct'))
        wb, ref = _build_dag(tasks, case['edges'], list(range(case['n'])))
        old = tasks[case['k']]
        if case['same_name'] and case.get('names', 'distinct') != 'distinct':
            # one more replicate: a new Task object equal to the replaced one in name, function and input
            new = Task(old.name, old.function, *old.task_input)
            specs[new] = _Spec(new, specs[old].label, specs[old].static, uid=specs[old].uid)
        elif case['same_name']:
            new = old.replace(task_input=('new', 77))
            specs[new] = _Spec(new, specs[old].label, ('new', 77))
        else:
            new = Task('new', _plain('Lnew'), 'new', 77)
            specs[new] = _Spec(new, 'Lnew', ('new', 77))
        ref = ref.replace(old, new)
        fid = WF + 'WorkflowBuilder.replace_task'
        try:
            wb.replace_task(old, new)
        except Exception as e:
            return [(fid, C_WF_KEEP, f'{where}: raised {_exc(e)}')]
        out += [(fid, c, d) for _, c, d in _check_structure(wb, ref, where)]
        out += [(fid, c, d) for _, c, d in _check_dask_and_run(Workflow(wb), ref, specs, where)]
    elif kind == 'plus':
        n, k = case['n'], case['k']
        tasks, specs = _new_tasks(n, case.get('names', 'distinct'))
        s1 = list(range(0, k + 1))
        s2 = list(range(k, n))
        e1 = [e for e in case['edges'] if e[0] in s1 and e[1] in s1]
        e2 = [e for e in case['edges'] if e[0] in s2 and e[1] in s2]
        wb1, ref1 = _build_dag([tasks[i] for i in s1], e1, list(range(len(s1))))
        wb2, ref2 = _build_dag([tasks[i] for i in s2], [[a - k, b - k] for a, b in e2],
                               list(range(len(s2)))[::-1] if case.get('rev') else list(range(len(s2))))
        ref = ref1.plus(ref2)
        fid = WF + ('WorkflowBuilder.__add__' if case['builder'] else 'Workflow.__add__')
        try:
            if case['builder']:
                res = wb1 + Workflow(wb2)
                assert isinstance(res, WorkflowBuilder)
            else:
                res = Workflow(wb1) + Workflow(wb2)
                assert isinstance(res, Workflow)
        except Exception as e:
            return [(fid, C_WF_KEEP, f'{where}: raised {_exc(e)}')]
        out += [(fid, c, d) for _, c, d in _check_structure(res, ref, where)]
        if _check_structure(wb1, ref1, where) or _check_structure(wb2, ref2, where):
            out.append((fid, C_WF_PURE, f'{where}: an operand changed'))
        out += [(fid, c, d) for _, c, d in
                _check_dask_and_run(res if not case['builder'] else Workflow(res), ref, specs, where)]
    elif kind == 'context':
        from pharmpy.workflows import execute_workflow, local_dask
        from pharmpy.workflows.workflow import insert_context
        import pharmpy.workflows.dispatchers as D

        n = case['n']
        tasks, specs = [], _Specs()
        shared = {}
        for i, kd in enumerate(case['kinds']):
            factory, takes = FN_KINDS[kd]
            if case.get('rep'):
                # replicates: tasks of the same kind are equal in name, function and static input
                if kd not in shared:
                    shared[kd] = factory(f'L{kd}')
                t = Task('rep', shared[kd], 'r', 0)
                specs[t] = _Spec(t, f'L{kd}', ('r', 0), ctx=takes)
            else:
                label = f'L{i}{kd}'
                t = Task(f't{i}', factory(label), f't{i}', i * 10)
                specs[t] = _Spec(t, label, (f't{i}', i * 10), ctx=takes)
            tasks.append(t)
        wb, ref = _build_dag(tasks, case['edges'], list(range(n)))
        wf = Workflow(wb)
        # insert_context on a builder
        wbc = WorkflowBuilder(wf)
        fid = WF + 'insert_context'
        try:
            insert_context(wbc, CTX)
            got = wbc.tasks
            bad = None
            if len(got) != n:
                bad = f'{len(got)} tasks'
            new_of = {}
            for t in ([] if case.get('rep') else tasks):
                want_input = ((CTX,) if specs[t].ctx else ()) + t.task_input
                match = [g for g in got if g.name == t.name and g.function is t.function]
                if len(match) != 1:
                    bad = bad or f'task {t.name} occurs {len(match)} times'
                elif match[0].task_input != want_input:
                    bad = bad or (f'task {t.name} ({case["kinds"][tasks.index(t)]}) has input '
                                  f'{match[0].task_input}, expected {want_input}')
                elif not specs[t].ctx and match[0] is not t:
                    bad = bad or f'task {t.name} was replaced although it takes no context'
                else:
                    new_of[t] = match[0]
            if case.get('rep'):
                bad = bad or _context_replicates(wbc, got, tasks, specs, ref)
            elif bad is None:
                edges = {(id(p), id(g)) for g in got for p in wbc.get_predecessors(g)}
                if edges != {(id(new_of[a]), id(new_of[b])) for a, b in ref.edges}:
                    bad = 'edges changed'
            if bad:
                out.append((fid, C_WF_CTX, f'{where}: {bad}'))
        except Exception as e:
            out.append((fid, C_WF_CTX, f'{where}: raised {_exc(e)}'))
        # execute_workflow end to end (threaded local_dask dispatcher, the given context)
        want = _ref_eval(ref, specs, context=CTX)[id(ref.outputs()[0])]
        mixed = any(len({specs[p].ctx for p in ref.preds(t)}) > 1 for t in tasks)
        old = D.conf.dask_dispatcher
        D.conf.dask_dispatcher = 'threaded'
        try:
            del _CALLS[:]
            got = execute_workflow(wf, dispatcher=local_dask, context=CTX)
            if got != want:
                out.append((WF_EXEC, C_WF_EXEC(mixed), f'{where}: result {got!r} reference {want!r}'))
            elif sorted(_CALLS) != sorted(specs[t].uid for t in tasks):
                out.append((WF_EXEC, C_WF_ONCE, f'{where}: calls {sorted(_CALLS)}'))
        except Exception as e:
            out.append((WF_EXEC, C_WF_EXEC(mixed), f'{where}: raised {_exc(e)}'))
        finally:
            D.conf.dask_dispatcher = old
        if len(wf) != n or [id(t) for t in wf.tasks] != [id(t) for t in tasks]:
            out.append((WF_EXEC, C_WF_PURE, f'{where}: the executed workflow changed'))
    elif kind == 'exec_model':
        out += _check_exec_model(case, where)
    elif kind == 'nested':
        out += _check_nested(case, where)
    else:
        raise ValueError(kind)
    return out


def _all_dags(n, one_sink):
    """edge lists over nodes 0..n-1 with i<j (every DAG shape), optionally with exactly one sink"""
    pairs = [(i, j) for i in range(n) for j in range(i + 1, n)]
    for mask in range(1 << len(pairs)):
        edges = [list(p) for b, p in enumerate(pairs) if mask >> b & 1]
        if one_sink and any(not any(e[0] == i for e in edges) for i in range(n - 1)):
            continue
        yield edges


DAG_NAMES = ('distinct', 'same', 'replica', 'replica2', 'replica0')


def _wf_cases(tier):
    quick = tier == 'quick'
    N = 4 if quick else 5
    for n in range(1, N + 1):
        for edges in _all_dags(n, True):
            perms = list(itertools.permutations(range(n)))
            for perm in perms:
                ident = list(perm) == list(range(n))
                for names in (DAG_NAMES if n <= 4 else DAG_NAMES[:3]):
                    for po in ('asc', 'desc'):
                        yield {'kind': 'dag', 'n': n, 'edges': edges, 'perm': list(perm), 'names': names,
                               'pred_order': po, 'variant': 'late_edges', 'real_run': ident and po == 'asc'}
                    yield {'kind': 'dag', 'n': n, 'edges': edges, 'perm': list(perm), 'names': names,
                           'pred_order': 'asc', 'variant': 'init'}
            for names in (DAG_NAMES if n <= 4 else DAG_NAMES[:3]):
                for po in ('asc', 'desc'):
                    yield {'kind': 'dag', 'n': n, 'edges': edges, 'perm': list(range(n)), 'names': names,
                           'pred_order': po, 'variant': 'topo'}
            for k in range(n):
                for same in (False, True):
                    yield {'kind': 'replace', 'n': n, 'edges': edges, 'k': k, 'same_name': same}
                    if n >= 2:
                        for names in ('replica', 'replica0'):
                            yield {'kind': 'replace', 'n': n, 'edges': edges, 'k': k, 'same_name': same,
                                   'names': names}
            for k in range(0, n):
                for builder in (False, True):
                    yield {'kind': 'plus', 'n': n, 'edges': edges, 'k': k, 'builder': builder}
                    if n - k >= 2:
                        yield {'kind': 'plus', 'n': n, 'edges': edges, 'k': k, 'builder': builder,
                               'rev': True}
                    if n >= 2:
                        for names in ('replica', 'replica2'):
                            yield {'kind': 'plus', 'n': n, 'edges': edges, 'k': k, 'builder': builder,
                                   'names': names}
    # insert_workflow: every pair of DAGs (any number of sources and sinks) with a + b <= N tasks
    for a in range(1, N):
        for b in range(1, N - a + 1):
            for ea in _all_dags(a, False):
                for eb in _all_dags(b, False):
                    for permb in itertools.permutations(range(b)):
                        options = [None] + [{'single': i} for i in range(a)]
                        for r in range(1, min(a, 3) + 1):
                            options += [{'list': list(c)} for c in itertools.permutations(range(a), r)]
                        for p in options:
                            yield {'kind': 'insert', 'a': a, 'ea': ea, 'b': b, 'eb': eb,
                                   'permb': list(permb), 'preds': p}
                            if p is None and b >= 2:
                                yield {'kind': 'insert', 'a': a, 'ea': ea, 'b': b, 'eb': eb,
                                       'permb': list(permb), 'preds': p, 'names': 'same'}
                            # replicates: within the inserted workflow, and across the two workflows
                            if p is None and b >= 2:
                                yield {'kind': 'insert', 'a': a, 'ea': ea, 'b': b, 'eb': eb,
                                       'permb': list(permb), 'preds': p, 'names': 'replica'}
                            yield {'kind': 'insert', 'a': a, 'ea': ea, 'b': b, 'eb': eb,
                                   'permb': list(permb), 'preds': p, 'names': 'replica', 'names_a': 'replica'}
    # insert_context / execute_workflow: every assignment of function kinds
    kinds = list(FN_KINDS)
    for n in (1, 2):
        for edges in _all_dags(n, True):
            for ks in itertools.product(kinds, repeat=n):
                yield {'kind': 'context', 'n': n, 'edges': edges, 'kinds': list(ks)}
    few = ['plain', 'ctx_plain', 'ctx_partial'] if quick else ['plain', 'ctx_plain', 'ctx_partial',
                                                              'ctx_wrapped', 'method']
    for n in (3,) if quick else (3, 4):
        for edges in _all_dags(n, True):
            for ks in itertools.product(few if n == 3 else few[:3], repeat=n):
                yield {'kind': 'context', 'n': n, 'edges': edges, 'kinds': list(ks)}
    # replicates through insert_context / execute_workflow: tasks of the same kind are equal in name,
    # function and static input
    for n in (2, 3) if quick else (2, 3, 4):
        for edges in _all_dags(n, True):
            for ks in itertools.product(few[:3], repeat=n):
                yield {'kind': 'context', 'n': n, 'edges': edges, 'kinds': list(ks), 'rep': True}
    # execute_workflow on workflows in which any subset of the tasks carries a Model among its static inputs:
    # every entry order of the tasks, predecessor lists in both orders; no function or every function takes
    # the context
    for n in range(1, (4 if quick else 5) + 1):
        for edges in _all_dags(n, True):
            for perm in itertools.permutations(range(n)):
                for mask in itertools.product((False, True), repeat=n):
                    for po in ('asc', 'desc'):
                        for ctx in (False, True) if n <= 3 else (False,):
                            if n == 5 and (po == 'desc' or list(perm) not in ([0, 1, 2, 3, 4], [4, 3, 2, 1, 0],
                                                                              [1, 3, 0, 4, 2])):
                                continue
                            yield {'kind': 'exec_model', 'n': n, 'edges': edges, 'perm': list(perm),
                                   'pred_order': po, 'models': list(mask), 'ctx': ctx}


NEST_SCHEMES = ('positional', 'shifted', 'distinct', 'same')


def _wf_nested_cases(tier):
    """a task (every position k) of every one-sink DAG starts every one-sink DAG with call_workflow"""
    quick = tier == 'quick'
    for n in range(1, (3 if quick else 4) + 1):
        for edges in _all_dags(n, True):
            for k in range(n):
                for ni in range(1, (3 if quick else 4) + 1):
                    for iedges in _all_dags(ni, True):
                        for names in NEST_SCHEMES:
                            for via in ('context', 'dispatcher'):
                                if via == 'dispatcher' and (n + ni > 4 or names in ('shifted', 'distinct')):
                                    continue
                                yield {'kind': 'nested', 'n': n, 'edges': edges, 'k': k, 'ni': ni,
                                       'iedges': iedges, 'names': names, 'via': via}


def _wf_worker(items):
    best = {}
    allf = {}
    n = 0
    for case in items:
        n += 1
        for fid, clause, detail in _check_wf_case(case):
            k = (fid, clause)
            _note_also(allf, k, case)
            size = (case.get('n', 0) + case.get('a', 0) + case.get('b', 0) + case.get('ni', 0),
                    len(case.get('edges', [])) + len(case.get('ea', [])) + len(case.get('eb', []))
                    + len(case.get('iedges', [])),
                    len(repr(case)))
            if k not in best or _smaller(size, case, detail, best[k]):
                best[k] = (size, detail, case)
    return n, n, best, allf


def bounded_workflows(tier):
    import pharmpy.workflows  # noqa: F401

    # the nested executions (a dask distributed cluster each) come last, in small chunks
    jobs = itertools.chain(_chunks(_wf_cases(tier), 150), _chunks(_wf_nested_cases(tier), 6))
    cases, nontrivial, fails = _merge_fails(_run_jobs(_wf_worker, jobs), 'bounded_workflows_replay')
    quick = tier == 'quick'
    N = 4 if quick else 5
    bound = (f'every DAG with <={N} tasks and one sink (edges i<j), tasks entering in every order, '
             f'distinct tasks, tasks with the '
             f'same name and function, and replicates (distinct Task objects equal in name, function and '
             f'static input: all tasks, two classes of them, without static input'
             f'{"" if quick else "; with 5 tasks only the first kind"}), predecessor lists in both '
             f'orders, three ways of building; '
             f'replace_task of every task (also among replicates, by one more replicate); + of every split at '
             f'every task (distinct tasks and replicates); insert_workflow of every pair '
             f'of DAGs with a+b<={N} tasks, every entry order of the inserted one and every predecessor '
             f'argument (None, one task, lists of <=3 tasks), with distinct tasks, replicates within the '
             f'inserted workflow and replicates across both; insert_context and execute_workflow for '
             f'every assignment of {len(FN_KINDS)} function kinds to <=2 tasks and of '
             f'{3 if quick else 5} kinds to 3{"" if quick else " (3 kinds to 4)"} tasks, and of 3 kinds to '
             f'2-{3 if quick else 4} replicate tasks (tasks of one kind equal in name, function and input); '
             f'execute_workflow (threaded) on every one-sink DAG with <={4 if quick else 5} tasks where every subset of '
             f'the tasks carries a Model among its static inputs, every entry order, predecessor lists in both '
             f'orders{"" if quick else " (5 tasks: 3 entry orders, one order of the lists)"}, no function or (<=3 '
             f'tasks) every function taking the context; nested execution (distributed dispatcher): every task of '
             f'every one-sink DAG with <={3 if quick else 4} tasks starts every one-sink DAG with <={3 if quick else 4} '
             f'tasks with call_workflow, under 4 naming schemes (equal names at equal positions, equal names at '
             f'different positions, distinct names, one name for all tasks), through Context.call_workflow and '
             f'(<=4 tasks in all, 2 schemes) local_dask.call_workflow')
    return {
        'cases': cases,
        'nontrivial': nontrivial,
        'bound': bound,
        'samples': ["dag n=4 edges=[[0,3],[1,2],[2,3]] perm=[2,0,3,1] names=same",
                    "exec_model n=3 edges=[[0,2],[1,2]] perm=[1,0,2] models=[True,False,False]",
                    "nested n=2 edges=[[0,1]] k=1 ni=2 iedges=[[0,1]] names=positional via=context"],
        'fails': fails,
    }


def bounded_workflows_replay(rp):
    case = rp['case']
    return _replay_verdict(_check_wf_case({k: v for k, v in case.items()}), case)
