"""Bounded contract checks for C18 (search spaces parsed / combined / enumerated exactly) and
C17 (workflows execute as their task graph specifies).

Three checks (each with a replay function), run with
    PYTHONPATH=/verif /venv/bin/python -m pyvc.native custom contracts.b_search <fn> quick

  bounded_mfl          MFL parse / print / algebra of ModelFeatures against explicitly expanded sets
  bounded_enumeration  partitions / subsets / all_combinations / _is_allowed / modelsearch and iivsearch
                       candidate enumeration (task graphs are only built, nothing is fitted)
  bounded_workflows    Workflow / WorkflowBuilder composition and execution against a reference
                       topological evaluation

Everything is enumerated (nested loops / itertools over small alphabets), nothing is sampled.  The
references (expansion of a search space, set partitions, stepwise path rules, topological evaluation)
are written here independently of the code under contract.
"""
import itertools
import warnings
from collections import defaultdict

warnings.filterwarnings('ignore')

NPROC = 16

# ======================================================================================
# (1) MFL: parse / print / algebra
# ======================================================================================

MFL_PARSE = 'src/pharmpy/tools/mfl/parse.py'
MFL_STR = 'src/pharmpy/tools/mfl/stringify.py'

ABS_ALL = ('FO', 'ZO', 'SEQ-ZO-FO', 'INST')
ELIM_ALL = ('FO', 'ZO', 'MM', 'MIX-FO-MM')
LAG_ALL = ('ON', 'OFF')
DEPOT_ALL = ('DEPOT', 'NODEPOT')
PMODE_ALL = ('DRUG', 'MET')
PD_ALL = ('LINEAR', 'EMAX', 'SIGMOID')
PROD_ALL = ('DEGRADATION', 'PRODUCTION')
MET_ALL = ('PSC', 'BASIC')
FP_ALL = ('LIN', 'PIECE_LIN', 'EXP', 'POW')  # grammar.py: "* for all continuous effects"

PK_CATS = ('ABSORPTION', 'ELIMINATION', 'TRANSITS', 'PERIPHERALS', 'LAGTIME')
# docs/modelsearch.rst, table "DEFAULT"
PK_DEFAULT = {
    'ABSORPTION': ('INST',),
    'ELIMINATION': ('FO',),
    'TRANSITS': (0, 'DEPOT'),
    'PERIPHERALS': (0, 'DRUG'),
    'LAGTIME': ('OFF',),
}
OTHER_CATS = ('DIRECTEFFECT', 'EFFECTCOMP', 'INDIRECTEFFECT', 'METABOLITE', 'ALLOMETRY')
ALL_CATS = PK_CATS + ('COVARIATE',) + OTHER_CATS


class Unit:
    """one feature description of the generated grammar with its independently known meaning"""

    __slots__ = ('text', 'cat', 'atoms', 'forced', 'core', 'ref')

    def __init__(self, text, cat, atoms, core=False):
        self.text = text
        self.cat = cat
        self.atoms = frozenset(atoms)
        # (parameter, covariate) pairs forced by a mandatory COVARIATE statement
        self.forced = frozenset((a[0], a[1]) for a in atoms if cat == 'COVARIATE' and not a[4])
        self.core = core
        self.ref = '@' in text


def _build_units():
    units = []

    def names(cat, kw, options, core=()):
        for text, vals in options:
            units.append(Unit(f'{kw}({text})', cat, [(v,) for v in vals], core=text in core))

    names('ABSORPTION', 'ABSORPTION', [
        ('FO', ['FO']), ('ZO', ['ZO']), ('SEQ-ZO-FO', ['SEQ-ZO-FO']), ('INST', ['INST']),
        ('[FO,ZO]', ['FO', 'ZO']), ('[ZO,FO]', ['FO', 'ZO']),
        ('[FO,ZO,SEQ-ZO-FO]', ['FO', 'ZO', 'SEQ-ZO-FO']), ('[INST,FO]', ['INST', 'FO']),
        ('*', ABS_ALL)], core=('FO', 'INST', '[ZO,FO]', '*'))
    units.append(Unit('absorption( [fo , Seq-ZO-fo] )', 'ABSORPTION', [('FO',), ('SEQ-ZO-FO',)]))
    names('ELIMINATION', 'ELIMINATION', [
        ('FO', ['FO']), ('ZO', ['ZO']), ('MM', ['MM']), ('MIX-FO-MM', ['MIX-FO-MM']),
        ('[FO,MM]', ['FO', 'MM']), ('[MM,FO]', ['FO', 'MM']), ('[FO,ZO,MM]', ['FO', 'ZO', 'MM']),
        ('[MM,MIX-FO-MM]', ['MM', 'MIX-FO-MM']), ('*', ELIM_ALL)], core=('FO', 'MM', '[FO,ZO,MM]', '*'))
    counts = [('0', [0]), ('1', [1]), ('2', [2]), ('0..2', [0, 1, 2]), ('1..3', [1, 2, 3]),
              ('[0,1]', [0, 1]), ('[1,5,3]', [1, 5, 3]), ('[2,0]', [2, 0])]
    pmodes = [('', ['DRUG']), (',MET', ['MET']), (',*', PMODE_ALL), (',DRUG', ['DRUG']),
              (',[DRUG,MET]', PMODE_ALL)]
    for ct, cv in counts:
        for mt, mv in pmodes:
            if mt in (',DRUG', ',[DRUG,MET]') and ct not in ('1', '0..2'):
                continue
            core = (ct, mt) in (('0', ''), ('1', ''), ('0..2', ''), ('[1,5,3]', ''), ('1', ',MET'),
                                ('[2,0]', ',MET'), ('1..3', ',*'))
            units.append(Unit(f'PERIPHERALS({ct}{mt})', 'PERIPHERALS',
                              [(c, m) for c in cv for m in mv], core=core))
    tcounts = [('0', [0]), ('1', [1]), ('3', [3]), ('0..2', [0, 1, 2]), ('1..3', [1, 2, 3]),
               ('[0,1,3]', [0, 1, 3]), ('[3,1]', [3, 1])]
    dmodes = [('', ['DEPOT']), (',NODEPOT', ['NODEPOT']), (',*', DEPOT_ALL), (',DEPOT', ['DEPOT']),
              (',[DEPOT,NODEPOT]', DEPOT_ALL)]
    for ct, cv in tcounts:
        for mt, mv in dmodes:
            if mt in (',DEPOT', ',[DEPOT,NODEPOT]') and ct not in ('1', '[0,1,3]'):
                continue
            core = (ct, mt) in (('0', ''), ('1', ''), ('[0,1,3]', ''), ('[3,1]', ',NODEPOT'),
                                ('1', ',NODEPOT'), ('0..2', ',*'))
            units.append(Unit(f'TRANSITS({ct}{mt})', 'TRANSITS',
                              [(c, m) for c in cv for m in mv], core=core))
    names('LAGTIME', 'LAGTIME', [('ON', ['ON']), ('OFF', ['OFF']), ('[ON,OFF]', LAG_ALL),
                                 ('[OFF,ON]', LAG_ALL), ('*', LAG_ALL)], core=('ON', '[OFF,ON]', '*'))

    def cov(text, params, covs, fps, op, opt, core=False):
        units.append(Unit(text, 'COVARIATE',
                          [(p, c, f, op, opt) for p in params for c in covs for f in fps], core=core))

    cov('COVARIATE?([CL,V],[WGT],[EXP,POW],*)', ['CL', 'V'], ['WGT'], ['EXP', 'POW'], '*', True, True)
    cov('COVARIATE(CL,WGT,EXP)', ['CL'], ['WGT'], ['EXP'], '*', False, True)
    cov('COVARIATE?(CL,WGT,EXP)', ['CL'], ['WGT'], ['EXP'], '*', True, True)
    cov('COVARIATE?(V,[WGT,AGE],*)', ['V'], ['WGT', 'AGE'], FP_ALL, '*', True)
    cov('COVARIATE([CL,V],WGT,POW,+)', ['CL', 'V'], ['WGT'], ['POW'], '+', False, True)
    cov('COVARIATE(V,AGE,[LIN,EXP])', ['V'], ['AGE'], ['LIN', 'EXP'], '*', False)
    cov('LET(X,[CL,V]);COVARIATE?(@X,WGT,*)', ['CL', 'V'], ['WGT'], FP_ALL, '*', True, True)
    cov('COVARIATE(@P,@C,EXP);LET(P,CL);LET(C,[AGE,WGT])', ['CL'], ['AGE', 'WGT'], ['EXP'], '*',
        False)
    cov('covariate?(cl, wgt, cat2, +)', ['CL'], ['WGT'], ['CAT2'], '+', True)

    names('DIRECTEFFECT', 'DIRECTEFFECT', [('linear', ['LINEAR']), ('[LINEAR,EMAX]', ['LINEAR', 'EMAX']),
                                           ('*', PD_ALL)], core=('linear', '*'))
    names('EFFECTCOMP', 'EFFECTCOMP', [('SIGMOID', ['SIGMOID']), ('*', PD_ALL)])
    units.append(Unit('INDIRECTEFFECT(LINEAR,PRODUCTION)', 'INDIRECTEFFECT', [('LINEAR', 'PRODUCTION')]))
    units.append(Unit('INDIRECTEFFECT([EMAX,SIGMOID],*)', 'INDIRECTEFFECT',
                      [(m, p) for m in ('EMAX', 'SIGMOID') for p in PROD_ALL]))
    units.append(Unit('INDIRECTEFFECT(*,DEGRADATION)', 'INDIRECTEFFECT',
                      [(m, 'DEGRADATION') for m in PD_ALL]))
    names('METABOLITE', 'METABOLITE', [('PSC', ['PSC']), ('[BASIC,PSC]', ['BASIC', 'PSC']), ('*', MET_ALL)],
          core=('PSC',))
    units.append(Unit('ALLOMETRY(WGT)', 'ALLOMETRY', [('WGT', 70.0)]))
    units.append(Unit('ALLOMETRY(WGT,70)', 'ALLOMETRY', [('WGT', 70.0)]))
    units.append(Unit('ALLOMETRY(WT,75.5)', 'ALLOMETRY', [('WT', 75.5)], core=True))
    return units


UNITS = _build_units()
UNIT_BY_TEXT = {u.text: u for u in UNITS}


def _with_defaults(atoms):
    """documented defaults: a PK search space that does not mention a category uses its default"""
    atoms = {c: frozenset(v) for c, v in atoms.items() if v}
    if any(c in atoms for c in PK_CATS + ('METABOLITE',)):
        for c in PK_CATS:
            if c not in atoms:
                atoms[c] = frozenset([PK_DEFAULT[c]])
    return atoms


def _expected_of_units(texts):
    """(expanded space, dup) of the string made of these units.  dup: 'explicit' when two explicit
    mandatory COVARIATE statements force the same (parameter, covariate) effect (parse must raise the
    documented ValueError), 'ref' when the clash involves a statement written with @references (it
    is documented to be rejected at the latest by expand(model)), else ''"""
    atoms = defaultdict(set)
    seen = []
    dup = ''
    for t in texts:
        u = UNIT_BY_TEXT[t]
        atoms[u.cat] |= u.atoms
        for v in seen:
            if u.forced & v.forced:
                if u.ref or v.ref:
                    dup = dup or 'ref'
                else:
                    dup = 'explicit'
        seen.append(u)
    return _with_defaults(atoms), dup


def _n_combinations(space):
    n = 1
    for c, v in space.items():
        if c != 'COVARIATE':
            n *= max(1, len(v))
    return n


# ---- independent expansion of pharmpy statement objects (by class name and plain attributes) ----

def _nm(modes, universe):
    if type(modes).__name__ == 'Wildcard':
        return list(universe)
    if type(modes).__name__ == 'Name':  # a bare Name where a tuple is expected
        return [modes.name]
    return [m.name for m in modes]


def _expand_statements(stmts, allometry=None):
    stmts = [s for s in stmts if s is not None]
    lets = {s.name: s.value for s in stmts if type(s).__name__ == 'Let'}
    out = defaultdict(set)
    for s in stmts:
        k = type(s).__name__
        if k == 'Absorption':
            out['ABSORPTION'] |= {(m,) for m in _nm(s.modes, ABS_ALL)}
        elif k == 'Elimination':
            out['ELIMINATION'] |= {(m,) for m in _nm(s.modes, ELIM_ALL)}
        elif k == 'LagTime':
            out['LAGTIME'] |= {(m,) for m in _nm(s.modes, LAG_ALL)}
        elif k == 'Transits':
            out['TRANSITS'] |= {(c, d) for c in s.counts for d in _nm(s.depot, DEPOT_ALL)}
        elif k == 'Peripherals':
            out['PERIPHERALS'] |= {(c, m) for c in s.counts for m in _nm(s.modes, PMODE_ALL)}
        elif k == 'DirectEffect':
            out['DIRECTEFFECT'] |= {(m,) for m in _nm(s.modes, PD_ALL)}
        elif k == 'EffectComp':
            out['EFFECTCOMP'] |= {(m,) for m in _nm(s.modes, PD_ALL)}
        elif k == 'IndirectEffect':
            out['INDIRECTEFFECT'] |= {(m, p) for m in _nm(s.modes, PD_ALL)
                                      for p in _nm(s.production, PROD_ALL)}
        elif k == 'Metabolite':
            out['METABOLITE'] |= {(m,) for m in _nm(s.modes, MET_ALL)}
        elif k == 'Allometry':
            out['ALLOMETRY'] |= {(s.covariate, float(s.reference))}
        elif k == 'Covariate':
            def res(x):
                if type(x).__name__ == 'Ref':
                    if x.name not in lets:
                        raise KeyError('unresolved reference @' + x.name)
                    return tuple(lets[x.name])
                return tuple(x)
            fps = FP_ALL if type(s.fp).__name__ == 'Wildcard' else tuple(s.fp)
            out['COVARIATE'] |= {(p, c, f, s.op, bool(s.optional.option))
                                 for p in res(s.parameter) for c in res(s.covariate) for f in fps}
        elif k == 'Let':
            pass
        else:
            raise TypeError('unknown statement ' + k)
    if allometry is not None:
        out['ALLOMETRY'] |= {(allometry.covariate, float(allometry.reference))}
    return _with_defaults(out)


def _expand_mf(mf):
    """expansion of a ModelFeatures object from its public attributes"""
    stmts = [mf.absorption, mf.elimination, *mf.transits, *mf.peripherals, mf.lagtime, *mf.covariate,
             mf.direct_effect, mf.effect_comp, *mf.indirect_effect, mf.metabolite]
    return _expand_statements(stmts, allometry=mf.allometry)


def _fmt(space):
    if space is None:
        return 'None'
    return '{' + '; '.join(f'{c}:{sorted(space[c], key=repr)}' for c in ALL_CATS if c in space) + '}'


def _cov_norm(atoms):
    """a forced effect next to the same optional effect describes the same combinations as the
    optional one alone ({with} u {with, without})"""
    atoms = set(atoms)
    return frozenset(a for a in atoms if a[4] or (a[:4] + (True,)) not in atoms)


def _same_space(x, y):
    cats = set(x) | set(y)
    for c in cats:
        a, b = x.get(c, frozenset()), y.get(c, frozenset())
        if c == 'COVARIATE':
            a, b = _cov_norm(a), _cov_norm(b)
        if a != b:
            return False
    return True


# ---- reference set operations on expanded spaces ----

def _ref_union(ea, eb):
    out = {}
    for c in set(ea) | set(eb):
        out[c] = ea.get(c, frozenset()) | eb.get(c, frozenset())
    return out


def _ref_difference(ea, eb):
    out = {}
    for c in ea:
        if c == 'COVARIATE':
            keys_b = {a[:4] for a in eb.get(c, ())}
            out[c] = frozenset(a for a in ea[c] if a[:4] not in keys_b)
        else:
            out[c] = ea[c] - eb.get(c, frozenset())
    return out


def _ref_subset(ea, eb, cats=None, drug_only=False):
    for c in eb:
        if cats is not None and c not in cats:
            continue
        a, b = ea.get(c, frozenset()), eb[c]
        if c == 'COVARIATE':
            a, b = _cov_norm(a), _cov_norm(b)
            # a forced effect is contained in the same optional effect
            a = a | {x[:4] + (False,) for x in a if x[4]}
        if c == 'PERIPHERALS' and drug_only:
            a = {x for x in a if x[1] == 'DRUG'}
            b = {x for x in b if x[1] == 'DRUG'}
        if not set(b) <= set(a):
            return False
    return True


def _lnt_subcats(space, cats):
    """sub-categories in which one transformation moves a model: every category, with the
    peripherals of the drug and of the metabolite counted separately"""
    out = {}
    for c in cats:
        v = space.get(c, frozenset())
        if c == 'PERIPHERALS':
            for m in PMODE_ALL:
                out[('PERIPHERALS', m)] = frozenset(x for x in v if x[1] == m)
        else:
            out[(c,)] = frozenset(v)
    return out


def _ref_lnt(ea, eb, cats, drug_only=False):
    """sub-categories in which no feature of a is part of b (one transformation each): the
    minimum Hamming distance between a combination of a and a combination of b"""
    sa, sb = _lnt_subcats(ea, cats), _lnt_subcats(eb, cats)
    need = []
    for k in sb:
        if drug_only and k == ('PERIPHERALS', 'MET'):
            continue
        if sb[k] and not (sa[k] & sb[k]):
            need.append(k)
    return need


def _key_subcat(key):
    kind = key[0]
    if kind == 'PERIPHERALS':
        return ('PERIPHERALS', 'MET' if len(key) == 3 else 'DRUG')
    return ({'DIRECT': 'DIRECTEFFECT', 'INDIRECT': 'INDIRECTEFFECT'}.get(kind, kind),)


def _key_atom(key):
    kind = key[0]
    if kind == 'PERIPHERALS':
        return (key[1], 'MET' if len(key) == 3 else 'DRUG')
    return tuple(key[1:])


_MFL_MODS = {}


def _mfl():
    if not _MFL_MODS:
        from pharmpy.tools.mfl import parse as p
        from pharmpy.tools.mfl import stringify as s
        _MFL_MODS['parse'] = p.parse
        _MFL_MODS['MF'] = p.ModelFeatures
        _MFL_MODS['stringify'] = s.stringify
    return _MFL_MODS


def _exc(e):
    return f'{type(e).__name__}: {str(e)[:120]}'


# ---- contract of one string ----

C_PARSE = 'parse(s) yields exactly the feature combinations the MFL text describes'
C_PARSE_ERR = 'parse(s) raises only the documented ValueError (effect forced by several statements)'
C_CLASS = 'parse(s, mfl_class=True) holds exactly the described space (documented defaults filled in)'
C_RT = 'parse(repr(parse(s))) expands to the same feature combinations as parse(s)'
C_RT_ERR = 'repr(parse(s)) is produced and parses again without error'


def _check_string(texts, sep):
    """all violated clauses [(fid, clause, detail)] of the string sep.join(texts)"""
    m = _mfl()
    s = sep.join(texts)
    expected, dup = _expected_of_units(texts)
    out = []
    try:
        stmts = m['parse'](s)
    except ValueError as e:
        if not dup:
            out.append((MFL_PARSE + ':parse', C_PARSE_ERR, f'parse({s!r}) raised {_exc(e)}'))
        return out
    except Exception as e:
        out.append((MFL_PARSE + ':parse', C_PARSE_ERR, f'parse({s!r}) raised {_exc(e)}'))
        return out
    if dup == 'explicit':
        out.append((MFL_PARSE + ':validate_mfl_list', C_PARSE_ERR,
                    f'parse({s!r}) accepted an effect forced by two statements'))
        return out
    try:
        got = _expand_statements(stmts)
    except Exception as e:
        got = None
        out.append((MFL_PARSE + ':parse', C_PARSE, f'{s!r}: statements not expandable ({_exc(e)})'))
    if got is not None and not _same_space(got, expected):
        out.append((MFL_PARSE + ':parse', C_PARSE,
                    f'{s!r}: parsed {_fmt(got)} expected {_fmt(expected)}'))
    try:
        # what parse(s, mfl_class=True) does with the statement list
        mf = m['MF'].create_from_mfl_statement_list(stmts)
        got = _expand_mf(mf)
    except Exception as e:
        out.append((MFL_PARSE + ':ModelFeatures.create_from_mfl_statement_list', C_CLASS,
                    f'{s!r}: raised {_exc(e)}'))
        return out
    if not _same_space(got, expected):
        out.append((MFL_PARSE + ':ModelFeatures.create_from_mfl_statement_list', C_CLASS,
                    f'{s!r}: holds {_fmt(got)} expected {_fmt(expected)}'))
    if dup:
        return out  # the printed form has explicit clashing statements, which parse rejects
    try:
        printed = repr(mf)
        back = m['parse'](printed)
        got3 = _expand_statements(back)
        got2 = _expand_mf(m['MF'].create_from_mfl_statement_list(back))
    except Exception as e:
        out.append((MFL_PARSE + ':ModelFeatures.__repr__', C_RT_ERR, f'{s!r}: raised {_exc(e)}'))
        return out
    if not (_same_space(got2, expected) and _same_space(got3, expected)):
        out.append((MFL_PARSE + ':ModelFeatures.__repr__', C_RT,
                    f'{s!r} prints as {printed!r} which expands to {_fmt(got2)}, expected {_fmt(expected)}'))
    return out


# ---- contract of a pair of spaces ----

C_OP_ERR = 'a+b, a-b, a==b, a.contain_subset(b), a.least_number_of_transformations(b) raise no internal error on parsed spaces'
C_ADD = 'a+b expands to the union of the expanded spaces'
C_SUB = 'a-b keeps exactly the features of a that are not in b (a category left empty is dropped or shows its documented default)'
C_SUBSET = 'a.contain_subset(b) is True exactly when every feature of b is a feature of a'
C_SUBSET_MS = "a.contain_subset(b, tool='modelsearch') is True exactly when every PK feature of b is a feature of a"
C_LNT = 'least_number_of_transformations(a, b) has one feature of b for each category in which no feature of a is in b, and nothing else'
C_LNT_MS = "least_number_of_transformations(a, b, tool='modelsearch') counts exactly the PK categories of the drug"
C_EQ = 'a == b exactly when the expanded spaces are equal'
C_PURE = 'the operands are unchanged by the operations'
C_RT_RES = 'the printed form of a+b and a-b parses back to the same space'

LNT_CATS = PK_CATS + ('DIRECTEFFECT', 'EFFECTCOMP', 'INDIRECTEFFECT', 'METABOLITE')


def _check_difference(got, ea, eb):
    ref = _ref_difference(ea, eb)
    for c in set(ref) | set(got):
        want = ref.get(c, frozenset())
        have = got.get(c, frozenset())
        if c == 'COVARIATE':
            want, have = _cov_norm(want), _cov_norm(have)
        if want:
            if have != want:
                return f'category {c}: got {sorted(have, key=repr)} expected {sorted(want, key=repr)}'
        else:
            allowed = [frozenset()]
            if c in PK_DEFAULT:
                allowed.append(frozenset([PK_DEFAULT[c]]))
            if have not in allowed:
                return f'category {c}: got {sorted(have, key=repr)} expected nothing (or the default)'
    return None


_SPACE_CACHE = {}


def _parsed_space(text):
    """parse(text, mfl_class=True), once per process (C_PURE checks that operations leave it alone)"""
    if text not in _SPACE_CACHE:
        _SPACE_CACHE[text] = _mfl()['parse'](text, mfl_class=True)
    return _SPACE_CACHE[text]


def _reparse(r, got):
    """expansion of parse(repr(r)); None when parse raises its documented ValueError because the
    space forces one (parameter, covariate) effect in several ways"""
    text = repr(r)
    if text == '':
        return {}
    try:
        return _expand_mf(_mfl()['parse'](text, mfl_class=True))
    except ValueError:
        forced = defaultdict(set)
        for a in got.get('COVARIATE', ()):
            if not a[4]:
                forced[(a[0], a[1])].add((a[2], a[3]))
        if any(len(v) > 1 for v in forced.values()):
            return None
        raise


def _check_pair(ta, tb, sep=';', roundtrip=False):
    """all violated clauses of the pair of spaces (sep.join(ta), sep.join(tb))"""
    m = _mfl()
    sa, sb = sep.join(ta), sep.join(tb)
    ea, dupa = _expected_of_units(ta)
    eb, dupb = _expected_of_units(tb)
    if dupa or dupb:
        return None
    a = _parsed_space(sa)
    b = _parsed_space(sb)
    out = []
    where = f'a={sa!r} b={sb!r}'
    state = {}

    def run(name, fid, fn, allow_value_error=False):
        """the result on the parsed spaces; on an internal error report it once and retry on the
        spaces with wildcards written out (a.expand) so that the set law is still checked"""
        try:
            return True, fn(a, b)
        except ValueError as e:
            if allow_value_error:
                return False, None
            err = e
        except Exception as e:
            err = e
        out.append((fid, C_OP_ERR, f'{name}: {where} raised {_exc(err)}'))
        if 'xa' not in state:
            try:
                state['xa'], state['xb'] = a.expand(None), b.expand(None)
                if not (_same_space(_expand_mf(state['xa']), ea)
                        and _same_space(_expand_mf(state['xb']), eb)):
                    state['xa'] = state['xb'] = None  # expand() did not keep the space
            except Exception:
                state['xa'] = state['xb'] = None
        if state['xa'] is None:
            return False, None
        try:
            return True, fn(state['xa'], state['xb'])
        except Exception:
            return False, None

    MF = MFL_PARSE + ':ModelFeatures.'
    ok, r = run('a+b', MF + '__add__', lambda x, y: x + y)
    if ok:
        try:
            got = _expand_mf(r)
        except Exception as e:
            got = None
            out.append((MF + '__add__', C_ADD, f'{where}: result not expandable ({_exc(e)})'))
        if got is not None:
            want = _with_defaults(_ref_union(ea, eb))
            if not _same_space(got, want):
                out.append((MF + '__add__', C_ADD,
                            f'{where}: a+b = {r!r} expands to {_fmt(got)} expected {_fmt(want)}'))
            if roundtrip:
                try:
                    back = _reparse(r, got)
                    if back is not None and not _same_space(back, got):
                        out.append((MF + '__repr__', C_RT_RES,
                                    f'{where}: a+b prints as {r!r} which expands to {_fmt(back)}, the '
                                    f'object holds {_fmt(got)}'))
                except Exception as e:
                    out.append((MF + '__repr__', C_RT_RES, f'{where}: a+b = {r!r}: {_exc(e)}'))
    ok, r = run('a-b', MF + '__sub__', lambda x, y: x - y)
    if ok:
        try:
            got = _expand_mf(r)
        except Exception as e:
            got = None
            out.append((MF + '__sub__', C_SUB, f'{where}: result not expandable ({_exc(e)})'))
        if got is not None:
            msg = _check_difference(got, ea, eb)
            if msg:
                out.append((MF + '__sub__', C_SUB, f'{where}: a-b = {r!r}: {msg}'))
            if roundtrip:
                try:
                    back = _reparse(r, got)
                    if back is not None and not _same_space(back, got):
                        out.append((MF + '__repr__', C_RT_RES,
                                    f'{where}: a-b prints as {r!r} which expands to {_fmt(back)}, the '
                                    f'object holds {_fmt(got)}'))
                except Exception as e:
                    out.append((MF + '__repr__', C_RT_RES, f'{where}: a-b = {r!r}: {_exc(e)}'))
    ok, r = run('a==b', MF + '__eq__', lambda x, y: x == y)
    if ok:
        want = _same_space(ea, eb)
        if r is not want:
            out.append((MF + '__eq__', C_EQ, f'{where}: a==b is {r!r}, expanded spaces equal: {want}'))
    ok, r = run('contain_subset', MF + 'contain_subset', lambda x, y: x.contain_subset(y))
    if ok:
        want = _ref_subset(ea, eb)
        if r is not want:
            out.append((MF + 'contain_subset', C_SUBSET,
                        f'{where}: contain_subset is {r!r}, every feature of b in a: {want}'))
    ok, r = run("contain_subset(tool='modelsearch')", MF + 'contain_subset',
                lambda x, y: x.contain_subset(y, tool='modelsearch'))
    if ok:
        want = _ref_subset(ea, eb, cats=PK_CATS, drug_only=True)
        if r is not want:
            out.append((MF + 'contain_subset', C_SUBSET_MS,
                        f"{where}: contain_subset(tool='modelsearch') is {r!r}, every PK feature of b "
                        f'in a: {want}'))
    for tool, clause, cats, drug_only in ((None, C_LNT, LNT_CATS, False),
                                          ('modelsearch', C_LNT_MS, PK_CATS, True)):
        # a category that only one of the spaces has cannot be compared (documented ValueError)
        scalar = [c for c in cats if c not in ('TRANSITS', 'PERIPHERALS', 'INDIRECTEFFECT')]
        one_sided = any((c in ea) != (c in eb) for c in scalar)
        ok, r = run(f'least_number_of_transformations(tool={tool!r})',
                    MF + 'least_number_of_transformations',
                    lambda x, y: x.least_number_of_transformations(y, tool=tool),
                    allow_value_error=one_sided)
        if ok and not one_sided:
            need = sorted(_ref_lnt(ea, eb, cats, drug_only))
            keys = list(r.keys())
            have = sorted(_key_subcat(k) for k in keys)
            bad = None
            if have != need:
                bad = f'keys {keys} are in categories {have}, expected one each in {need}'
            else:
                sub = _lnt_subcats(eb, cats)
                for k in keys:
                    if _key_atom(k) not in sub[_key_subcat(k)]:
                        bad = f'key {k} is not a feature of b'
                    elif not callable(r[k]):
                        bad = f'key {k} has no transformation function'
            if bad:
                out.append((MF + 'least_number_of_transformations', clause,
                            f'{where}: tool={tool!r}: {bad}'))
    try:
        if not (_same_space(_expand_mf(a), ea) and _same_space(_expand_mf(b), eb)):
            out.append((MF + '__add__', C_PURE, f'{where}: operands changed to {a!r} / {b!r}'))
    except Exception as e:
        out.append((MF + '__add__', C_PURE, f'{where}: operands no longer expandable ({_exc(e)})'))
    return out


# ---- stringify of integer tuples ----

C_RANGE = 'a tuple of ints prints as i..j only when it is the contiguous increasing range i..j (one int as itself, otherwise as a list in the given order)'
C_RANGE_RT = 'the printed counts parse back to the same tuple'


def _check_counts(counts):
    m = _mfl()
    from pharmpy.tools.mfl.statement.feature.peripherals import Peripherals
    from pharmpy.tools.mfl.statement.feature.transits import Transits

    counts = tuple(counts)
    out = []
    if len(counts) == 1:
        want = str(counts[0])
    elif all(counts[i + 1] == counts[i] + 1 for i in range(len(counts) - 1)):
        want = f'{counts[0]}..{counts[-1]}'
    else:
        want = '[' + ','.join(str(c) for c in counts) + ']'
    for cls, kw in ((Peripherals, 'PERIPHERALS'), (Transits, 'TRANSITS')):
        fid = MFL_STR + ':_stringify_attribute'
        try:
            text = m['stringify']([cls(counts)])
        except Exception as e:
            out.append((fid, C_RANGE, f'{kw}{counts}: raised {_exc(e)}'))
            continue
        if text != f'{kw}({want})':
            out.append((fid, C_RANGE, f'{kw} counts {counts} print as {text!r}, expected {kw}({want})'))
        try:
            back = m['parse'](text)
            if len(back) != 1 or tuple(back[0].counts) != counts:
                out.append((fid, C_RANGE_RT, f'{kw} counts {counts} print as {text!r} which parses to '
                                             f'{back!r}'))
        except Exception as e:
            out.append((fid, C_RANGE_RT, f'{kw} counts {counts} print as {text!r}: {_exc(e)}'))
    return out


# ---- enumeration of the cases ----

def _mfl_string_cases(tier):
    """unit tuples of all generated strings"""
    for u in UNITS:
        yield ((u.text,), ';')
    for u, v in itertools.product(UNITS, repeat=2):
        if u.cat == v.cat == 'ALLOMETRY':
            continue  # one ALLOMETRY description per space (grammar comment)
        yield ((u.text, v.text), ';')
    core = [u for u in UNITS if u.core]
    for u, v in itertools.product(core, repeat=2):
        yield ((u.text, v.text), '\n')
    if tier != 'quick':
        for t in itertools.product(core, repeat=3):
            if sum(1 for u in t if u.cat == 'ALLOMETRY') > 1:
                continue
            yield (tuple(u.text for u in t), ';')


def _pair_spaces(tier):
    """spaces used in the pair laws: every single unit, and every unordered pair of core units"""
    spaces = [(u.text,) for u in UNITS if u.cat != 'ALLOMETRY']
    core = [u for u in UNITS if u.core and u.cat != 'ALLOMETRY']
    two = []
    for i, u in enumerate(core):
        for v in core[i:]:
            if u is v:
                continue
            _, dup = _expected_of_units((u.text, v.text))
            if not dup:
                two.append((u.text, v.text))
    return spaces, two


def _mfl_pair_cases(tier):
    single, two = _pair_spaces(tier)
    for a in single:
        for b in single:
            # the results a+b and a-b are printed and parsed again (core descriptions only in quick)
            rt = tier != 'quick' or (UNIT_BY_TEXT[a[0]].core and UNIT_BY_TEXT[b[0]].core)
            yield (a, b, rt)
    if tier == 'quick':
        # two-statement spaces against every single-statement space, both ways
        for a in two:
            for b in single:
                yield (a, b, False)
                yield (b, a, False)
    else:
        allsp = single + two
        for a in two:
            for b in allsp:
                yield (a, b, False)
        for a in single:
            for b in two:
                yield (a, b, False)


def _count_cases(tier):
    top, maxlen = (5, 4) if tier == 'quick' else (6, 5)
    for n in range(1, maxlen + 1):
        for t in itertools.product(range(top), repeat=n):
            yield t


def _mfl_worker(job):
    kind, items = job
    res = []
    n = nontrivial = 0
    for it in items:
        n += 1
        if kind == 'string':
            texts, sep = it
            v = _check_string(texts, sep)
            nontrivial += 1
            case = {'kind': 'string', 'units': list(texts), 'sep': sep}
            size = (len(texts), len(sep.join(texts)))
        elif kind == 'pair':
            ta, tb, rt = it
            v = _check_pair(ta, tb, roundtrip=rt)
            if v is None:
                continue
            nontrivial += 1
            case = {'kind': 'pair', 'a': list(ta), 'b': list(tb), 'roundtrip': rt}
            size = (len(ta) + len(tb), len(';'.join(ta)) + len(';'.join(tb)))
        else:
            v = _check_counts(it)
            nontrivial += 1
            case = {'kind': 'counts', 'counts': list(it)}
            size = (len(it), sum(it))
        for fid, clause, detail in v:
            res.append((fid, clause, size, detail, case))
    # keep the smallest per clause in this chunk
    best = {}
    for fid, clause, size, detail, case in res:
        k = (fid, clause)
        if k not in best or (size, detail) < (best[k][0], best[k][1]):
            best[k] = (size, detail, case)
    return n, nontrivial, best


def _chunks(it, size):
    buf = []
    for x in it:
        buf.append(x)
        if len(buf) >= size:
            yield buf
            buf = []
    if buf:
        yield buf


def _run_jobs(worker, jobs):
    import multiprocessing as mp

    ctx = mp.get_context('fork')
    with ctx.Pool(NPROC) as pool:
        for r in pool.imap_unordered(worker, jobs):
            yield r


def _merge_fails(results, replay_fn):
    cases = nontrivial = 0
    best = {}
    for n, nt, b in results:
        cases += n
        nontrivial += nt
        for k, (size, detail, case) in b.items():
            if k not in best or (size, detail) < (best[k][0], best[k][1]):
                best[k] = (size, detail, case)
    fails = []
    for (fid, clause) in sorted(best):
        size, detail, case = best[(fid, clause)]
        case = dict(case)
        case['fid'] = fid
        case['clause'] = clause
        fails.append({'fid': fid, 'clause': clause, 'detail': detail, 'case': case,
                      'replay_fn': replay_fn})
    return cases, nontrivial, fails


def bounded_mfl(tier):
    _mfl()

    def jobs():
        for ch in _chunks(_mfl_string_cases(tier), 100):
            yield ('string', ch)
        for ch in _chunks(_mfl_pair_cases(tier), 400):
            yield ('pair', ch)
        for ch in _chunks(_count_cases(tier), 200):
            yield ('counts', ch)

    cases, nontrivial, fails = _merge_fails(_run_jobs(_mfl_worker, jobs()), 'bounded_mfl_replay')
    ncore = sum(1 for u in UNITS if u.core)
    single, two = _pair_spaces(tier)
    if tier == 'quick':
        bound = (f'all MFL strings of <=2 feature descriptions over {len(UNITS)} descriptions (every '
                 f'feature kind, lists in both orders, ranges, wildcards, LET references, upper/lower '
                 f'case, blanks; ";" and newline separators); all ordered pairs of the {len(single)} '
                 f'one-description spaces and each of the {len(two)} two-description spaces (over '
                 f'{ncore} core descriptions) against every one-description space both ways; all int '
                 f'tuples of length <=4 over 0..4')
    else:
        bound = (f'all MFL strings of <=2 feature descriptions over {len(UNITS)} descriptions and of 3 '
                 f'over {ncore} core descriptions; all ordered pairs of spaces among the {len(single)} '
                 f'one-description and {len(two)} two-description spaces with at least ... ; all int '
                 f'tuples of length <=5 over 0..5').replace('with at least ... ', '')
    return {
        'cases': cases,
        'nontrivial': nontrivial,
        'bound': bound,
        'samples': ['ABSORPTION([ZO,FO]);TRANSITS([3,1],NODEPOT)',
                    "pair a='PERIPHERALS([1,5,3])' b='PERIPHERALS(1..3,*)'",
                    'counts (1, 2, 3) / (3, 2, 1) / (1, 1)'],
        'fails': fails,
    }


def bounded_mfl_replay(rp):
    case = rp['case']
    _mfl()
    if case['kind'] == 'string':
        v = _check_string(tuple(case['units']), case['sep'])
    elif case['kind'] == 'pair':
        v = _check_pair(tuple(case['a']), tuple(case['b']), roundtrip=case.get('roundtrip', False))
    else:
        v = _check_counts(tuple(case['counts']))
    for fid, clause, detail in v or []:
        if fid == case['fid'] and clause == case['clause']:
            return (False, detail)
    return (True, 'ok')
