"""Contracts for the PENDING-marker protocol of
src/pharmpy/workflows/model_database/local_directory.py (serves C16): effect traces of
LocalModelDirectoryDatabase.transaction and .snapshot for every outcome."""
from pyvc.api import *

M = ModuleSpec('src/pharmpy/workflows/model_database/local_directory.py', prop='C16')
M.exec_class = 'monitor'
MONITORS = {}

TRUSTED = [
    'pathlib.Path operations are single abstract effects on an abstract file system; `/` is an '
    'uninterpreted injective-by-name join',
    'Path.touch(exist_ok=False) either creates the file or raises FileExistsError; Path.exists() is a '
    'pure read',
    '@contextmanager: code after `yield` runs only when the with-body ends normally unless it is in a '
    'finally block (an exception in the body is re-raised at the yield)',
    'the read/write path locks of C15',
]


def _symbolic():
    import z3

    from pyvc import sym
    from pyvc.monitor import TraceSpec, record
    from pyvc.symexec import NONE, SObj, Val, BoolV
    from pyvc.sym import TBool, TOpaque, TStr

    PathT = TOpaque('FsPath')
    KeyT = TOpaque('ModelKey')
    join = z3.Function('path_join', PathT.sort(), TStr.sort(), PathT.sort())
    keystr = z3.Function('key_str', KeyT.sort(), TStr.sort())
    keyof = z3.Function('ModelHash', TOpaque('Obj').sort(), KeyT.sort())

    class PendingProtocol(TraceSpec):
        def setup(self, ex, st):
            super().setup(ex, st)
            st.env['self'] = SObj('LocalModelDirectoryDatabase',
                                  {'path': Val(PathT, z3.Const('db_path', PathT.sort()))})
            for n, v in (('DIRECTORY_PHARMPY_METADATA', '.pharmpy'), ('FILE_PENDING', 'PENDING')):
                st.env[n] = Val(TStr, sym.str_lit(v))

    spec = PendingProtocol()
    MONITORS['pending'] = spec

    def pending_path(st):
        k = keystr(keyof(st.env['obj'].t))
        root = st.env['self'].fields['path'].t
        dest = join(join(root, k), sym.str_lit('.pharmpy'))
        return Val(PathT, dest), Val(PathT, join(dest, sym.str_lit('PENDING')))

    def exp_transaction(st, outcome):
        dest, pend = pending_path(st)
        head = [('mkdir', [dest]), ('enter:_write_lock', []), ('touch_excl', [pend])]
        if outcome == 'return':
            # commit: the marker is removed last, and only when the body did not raise
            return head + [('yield', [None]), ('unlink', [pend]), ('exit:_write_lock', [])]
        if outcome == 'body-raises':
            # abort: the marker STAYS so that no reader takes the entry for complete
            return head + [('yield', [None]), ('exit:_write_lock', [])]
        if outcome == 'PendingTransactionError':
            # the marker already existed: nothing is yielded, nothing is removed
            return head + [('exit:_write_lock', [])]
        return None

    def exp_snapshot(st, outcome):
        dest, pend = pending_path(st)
        head = [('mkdir', [dest]), ('enter:_read_lock', []), ('exists', [pend])]
        if outcome in ('return', 'body-raises'):
            return head + [('yield', [None]), ('exit:_read_lock', [])]
        if outcome == 'PendingTransactionError':
            return head + [('exit:_read_lock', [])]
        return None

    spec.expected = {'LocalModelDirectoryDatabase.transaction': exp_transaction,
                     'LocalModelDirectoryDatabase.snapshot': exp_snapshot}

    @M.intrinsic('ModelHash')
    def _mh(ex, st, args, kwargs, node):
        return Val(KeyT, keyof(args[0].t))

    @M.intrinsic('str')
    def _str(ex, st, args, kwargs, node):
        return Val(TStr, keystr(args[0].t))

    @M.intrinsic('binop:Div')
    def _div(ex, st, args, kwargs, node):
        a, b = args
        return Val(PathT, join(a.t, ex.to_term(b, TStr, st)))

    @M.intrinsic('method:mkdir')
    def _mkdir(ex, st, args, kwargs, node):
        record(st, 'mkdir', [args[0]])
        return NONE

    @M.intrinsic('method:unlink')
    def _unlink(ex, st, args, kwargs, node):
        record(st, 'unlink', [args[0]])
        return NONE

    @M.intrinsic('method:exists')
    def _exists(ex, st, args, kwargs, node):
        record(st, 'exists', [args[0]])
        st.mon['pending_seen'] = z3.Bool(sym.fresh_name('exists'))
        return Val(TBool, st.mon['pending_seen'])

    @M.intrinsic('stmt-method:touch')
    def _touch(ex, st, call):
        p = ex.eval(call.func.value, st)
        kw = {k.arg: ex.eval(k.value, st) for k in call.keywords}
        excl = 'exist_ok' in kw and z3.is_false(z3.simplify(ex.truthy(kw['exist_ok'], st)))
        record(st, 'touch_excl' if excl else 'touch', [p])
        res = [(st, ('next',))]
        if excl:
            fail = st.clone()
            fail.path.append(f'L{call.lineno}:exists')
            res.append((fail, ('raise', 'FileExistsError', call.lineno)))
        return res

    class Lock:
        def __init__(self, name):
            self.name = name

    def _mklock(name):
        def h(ex, st, args, kwargs, node):
            return Lock(name)
        return h

    M.intrinsics['method:_write_lock'] = _mklock('_write_lock')
    M.intrinsics['method:_read_lock'] = _mklock('_read_lock')

    @M.intrinsic('with')
    def _with(ex, st, cm, item, s):
        from pyvc.symexec import OutOfSubset
        if not isinstance(cm, Lock):
            raise OutOfSubset('with on unknown context manager')
        record(st, 'enter:' + cm.name, [])
        out = []
        for cur, sig in ex.exec_block(s.body, st):
            record(cur, 'exit:' + cm.name, [])
            out.append((cur, sig))
        return out

    for nm in ('LocalModelDirectoryDatabaseTransaction', 'LocalModelDirectoryDatabaseSnapshot'):
        def h(ex, st, args, kwargs, node):
            return Val(TOpaque('Handle'), TOpaque('Handle').fresh('handle'))
        M.intrinsics[nm] = h


try:
    import z3  # noqa: F401
    _symbolic()
except ImportError:
    pass

for q in ('LocalModelDirectoryDatabase.transaction', 'LocalModelDirectoryDatabase.snapshot'):
    c = M.contract(q, params={'obj': Opaque('Obj')})
    c.monitor = 'pending'
    c.sidecar_module = 'contracts.modeldb'


# ================================================================================================
# store_model over an abstract file system, with a crash obligation after every effect
# ================================================================================================
def _symbolic_store():
    import ast
    import z3

    from pyvc import sym
    from pyvc.monitor import MonitorSpec
    from pyvc.symexec import NONE, BoolV, OutOfSubset, SObj, Val, PyTuple
    from pyvc.sym import TBool, TInt, TOpaque, TSeq, TStr

    P = TOpaque('FsPath')
    Mdl = TOpaque('ModelObj')
    DI = TOpaque('DataInfoObj')
    KeyT = TOpaque('ModelKey')
    ABSENT, DIR, FILE = 0, 1, 2
    join = z3.Function('path_join', P.sort(), TStr.sort(), P.sort())
    parent = z3.Function('path_parent', P.sort(), P.sort())
    pname = z3.Function('path_name', P.sort(), TStr.sort())
    keystr = z3.Function('key_str', KeyT.sort(), TStr.sort())
    hashstr = z3.Function('hash_str', TOpaque('DsHash').sort(), TStr.sort())
    base = z3.Function('name_data_n', z3.IntSort(), TStr.sort())        # 'data<n>'
    csv = z3.Function('name_plus_csv', TStr.sort(), TStr.sort())         # x + '.csv'
    dinfo = z3.Function('name_plus_datainfo', TStr.sort(), TStr.sort())  # x + '.datainfo'
    stem = z3.Function('name_stem', TStr.sort(), TStr.sort())
    is_data = z3.Function('name_is_data_csv', TStr.sort(), z3.BoolSort())
    num = z3.Function('name_data_number', TStr.sort(), z3.IntSort())
    ext_of = z3.Function('model_extension', Mdl.sort(), TStr.sort())
    mname = z3.Function('name_model_plus_ext', TStr.sort(), TStr.sort())  # 'model' + ext
    SP = TSeq(P)

    def fs(st):
        return st.mon['fs']

    def kind(st, p):
        return z3.Select(fs(st), p)

    def name_fs(st, term):
        c = z3.Const(sym.fresh_name('fs'), term.sort())
        st.assume(c == term)
        st.mon['fs'] = c

    def setk(st, p, k):
        name_fs(st, z3.Store(fs(st), p, z3.IntVal(k)))

    def path_axioms(st):
        p = z3.Const(sym.fresh_name('p'), P.sort())
        n = z3.Const(sym.fresh_name('n'), TStr.sort())
        b = z3.Const(sym.fresh_name('b'), TStr.sort())
        k = z3.Int(sym.fresh_name('k'))
        st.facts.add(z3.ForAll([p, n], z3.And(parent(join(p, n)) == p, pname(join(p, n)) == n),
                               patterns=[join(p, n)]))
        st.facts.add(z3.ForAll([b], stem(csv(b)) == b, patterns=[csv(b)]))
        st.facts.add(z3.ForAll([k], z3.And(is_data(csv(base(k))), num(csv(base(k))) == k),
                               patterns=[csv(base(k))]))
        # the path tree is well founded: a child is one level deeper than its parent
        depth = z3.Function('path_depth', P.sort(), z3.IntSort())
        st.facts.add(z3.ForAll([p, n], depth(join(p, n)) == depth(p) + 1, patterns=[join(p, n)]))
        # string facts about the names involved ('.hash' is not a data<n>.csv name, a name ending
        # in '.datainfo' is neither '.hash' nor a data<n>.csv name)
        st.facts.add(z3.Not(is_data(sym.str_lit('.hash'))))
        st.facts.add(z3.ForAll([b], z3.And(z3.Not(is_data(dinfo(b))), dinfo(b) != sym.str_lit('.hash'),
                                           csv(b) != sym.str_lit('.hash')), patterns=[dinfo(b), csv(b)]))
        # database keys are 43-character hash strings: never the name of the dataset directory
        kk = z3.Const(sym.fresh_name('kk'), KeyT.sort())
        st.facts.add(z3.ForAll([kk], keystr(kk) != sym.str_lit('.datasets'), patterns=[keystr(kk)]))

    class Roots:
        pass

    def roots(st):
        db = st.env['self'].fields['database_path'].t
        datasets = join(db, sym.str_lit('.datasets'))
        hashroot = join(datasets, sym.str_lit('.hash'))
        return db, datasets, hashroot

    def DS(st, tolerant):
        """recovery invariant of the dataset index: every index entry (a file in a directory
        .datasets/.hash/<h>/) names a stored dataset whose csv AND datainfo exist; unless the reader
        tolerates it, an index directory is never empty"""
        db, datasets, hashroot = roots(st)
        e = z3.Const(sym.fresh_name('e'), P.sort())
        d = z3.Const(sym.fresh_name('d'), P.sort())
        w = z3.Const(sym.fresh_name('w'), P.sort())
        def proper(x):
            return x == join(parent(x), pname(x))

        entries_ok = z3.ForAll([e], z3.Implies(
            z3.And(parent(parent(e)) == hashroot, proper(e), proper(parent(e)), kind(st, e) != ABSENT),
            z3.And(kind(st, join(datasets, pname(e))) == FILE,
                   kind(st, join(datasets, dinfo(stem(pname(e))))) == FILE)),
            patterns=[kind(st, e)])
        layout = z3.And(kind(st, datasets) != FILE, kind(st, hashroot) != FILE,
                        z3.ForAll([d], z3.Implies(z3.And(parent(d) == hashroot, proper(d)), kind(st, d) != FILE),
                                  patterns=[kind(st, d)]))
        res = [('DS0 the directories of the dataset store are not files', layout),
               ('DS1 every dataset index entry points to an existing csv and datainfo', entries_ok)]
        if not tolerant:
            nonempty = z3.ForAll([d], z3.Implies(
                z3.And(parent(d) == hashroot, proper(d), kind(st, d) == DIR),
                z3.Exists([w], z3.And(parent(w) == d, w == join(d, pname(w)), kind(st, w) != ABSENT))),
                patterns=[kind(st, d)])
            res.append(('DS2 a dataset index directory is never empty', nonempty))
        return res

    class Store(MonitorSpec):
        name = 'store_model'

        def setup(self, ex, st):
            st.env['self'] = SObj('Transaction', {
                'database_path': Val(P, z3.Const('db_path', P.sort())),
                'key': Val(KeyT, z3.Const('key', KeyT.sort())),
                'model': Val(Mdl, z3.Const('model0', Mdl.sort())),
            })
            for n, v in (('DIRECTORY_DATASETS', '.datasets'), ('DIRECTORY_INDEX', '.hash')):
                st.env[n] = Val(TStr, sym.str_lit(v))
            st.mon['fs'] = z3.Const('fs0', z3.ArraySort(P.sort(), z3.IntSort()))
            st.mon['effects'] = 0
            path_axioms(st)
            st.mon['tolerant'] = reader_is_tolerant(ex)

        def havoc(self, ex, st):
            pass

        def inv(self, ex, st):
            if st.mon.get('checking'):
                return DS(st, st.mon['tolerant'])
            return []

        def local_pre(self, ex, st, point):
            # the store starts from a file system satisfying the recovery invariant (it holds of
            # the empty database and is re-established by every effect - that is what is proved)
            st.mon['checking'] = True
            fs0 = [f for _, f in DS(st, st.mon['tolerant'])]
            db, datasets, hashroot = roots(st)
            key_dir = join(db, keystr(st.env['self'].fields['key'].t))
            # layout: the database root is a directory and <db>/<key> is a directory or absent
            return fs0 + [kind(st, db) == DIR, kind(st, key_dir) != FILE]

        def on_raise(self, ex, st, exc, lineno):
            ex.oblige(st, 'raises', f'store_model raises {exc} although the recovery invariant held on entry '
                      '(storing a model must still work after an earlier interrupted store)',
                      z3.BoolVal(False), lineno, f'no {exc}')

    spec = Store()
    MONITORS['store'] = spec

    def reader_is_tolerant(ex):
        """syntactic: does the lookup of an existing index entry tolerate an empty index directory
        (`next(h_dir.iterdir(), None)` / any(...)) ?"""
        src = ast.unparse(ex._funcs['LocalModelDirectoryDatabaseTransaction.store_model'])
        return 'next(h_dir.iterdir(), None)' in src

    def effect(ex, st, what, node):
        """crash obligation: the recovery invariant holds of the state reached so far"""
        st.mon['effects'] += 1
        for label, f in DS(st, st.mon['tolerant']):
            ex.oblige(st, 'crash', f'crash after effect #{st.mon["effects"]} ({what}): {label}', f,
                      getattr(node, 'lineno', 0), f'{label} after {what}', keep=True)

    # ---- attribute / call models -------------------------------------------------------------
    @M.intrinsic('attr:model_entry')
    def _me(ex, st, args, kwargs, node):
        return SObj('ModelEntry', {'model': args[0].fields['model']}) if isinstance(args[0], SObj) else NotImplemented

    @M.intrinsic('attr:database')
    def _db(ex, st, args, kwargs, node):
        if isinstance(args[0], SObj) and args[0].cls == 'Transaction':
            return SObj('Database', {'path': args[0].fields['database_path']})
        return NotImplemented

    @M.intrinsic('attr:dataset_hash')
    def _dh(ex, st, args, kwargs, node):
        return Val(TOpaque('DsHash'), z3.Const('dataset_hash', TOpaque('DsHash').sort()))

    @M.intrinsic('attr:filename_extension')
    def _fe(ex, st, args, kwargs, node):
        return Val(TStr, ext_of(args[0].t))

    @M.intrinsic('attr:datainfo')
    def _di(ex, st, args, kwargs, node):
        f = z3.Function('model_datainfo', Mdl.sort(), DI.sort())
        return Val(DI, f(args[0].t))

    @M.intrinsic('attr:name')
    def _nm(ex, st, args, kwargs, node):
        if isinstance(args[0], Val) and args[0].ty == P:
            return Val(TStr, pname(args[0].t))
        return NotImplemented

    @M.intrinsic('attr:path')
    def _pth(ex, st, args, kwargs, node):
        if isinstance(args[0], Val) and args[0].ty == DI:
            f = z3.Function('datainfo_path', DI.sort(), P.sort())
            return Val(P, f(args[0].t))
        return NotImplemented

    _old_with = M.intrinsics['with']
    _old_str = M.intrinsics['str']

    def _str(ex, st, args, kwargs, node):
        v = args[0]
        if v.ty.key() == 'DsHash':
            return Val(TStr, hashstr(v.t))
        return _old_str(ex, st, args, kwargs, node)

    M.intrinsics['str'] = _str

    @M.intrinsic('binop:Add')
    def _add(ex, st, args, kwargs, node):
        a, b = args
        if isinstance(a, Val) and a.ty is TStr and isinstance(b, Val) and b.ty is TStr:
            if z3.eq(a.t, sym.str_lit('model')):
                return Val(TStr, mname(b.t))
            if z3.eq(b.t, sym.str_lit('.datainfo')):
                return Val(TStr, dinfo(a.t))
            if z3.eq(b.t, sym.str_lit('.csv')):
                return Val(TStr, csv(a.t))
        raise OutOfSubset('string concatenation')

    @M.intrinsic('fstring')
    def _fstring(ex, st, args, kwargs, node):
        src = ast.unparse(node)
        if src == "f'data{highest + 1}'":
            return Val(TStr, base(ex.to_term(st.env['highest'], TInt, st) + 1))
        if src == "f'{dataset_basename}.csv'":
            return Val(TStr, csv(st.env['dataset_basename'].t))
        raise OutOfSubset('f-string ' + src)

    @M.intrinsic('path_absolute')
    def _abs(ex, st, args, kwargs, node):
        return args[0]

    @M.intrinsic('method:is_file')
    def _is_file(ex, st, args, kwargs, node):
        return Val(TBool, kind(st, args[0].t) == FILE)

    @M.intrinsic('method:is_dir')
    def _is_dir(ex, st, args, kwargs, node):
        return Val(TBool, kind(st, args[0].t) == DIR)

    def children(ex, st, p):
        L = SP.fresh('listing')
        ex.ops(st).known(SP, L)
        k = z3.Int(sym.fresh_name('k'))
        q = z3.Const(sym.fresh_name('q'), P.sort())
        st.facts.add(z3.ForAll([k], z3.Implies(z3.And(0 <= k, k < SP.f_len(L)),
                                               z3.And(parent(SP.f_at(L, k)) == p,
                                                      SP.f_at(L, k) == join(p, pname(SP.f_at(L, k))),
                                                      kind(st, SP.f_at(L, k)) != ABSENT)),
                               patterns=[SP.f_at(L, k)]))
        st.facts.add(z3.ForAll([q], z3.Implies(z3.And(parent(q) == p, q == join(p, pname(q)),
                                                      kind(st, q) != ABSENT),
                                               z3.Exists([k], z3.And(0 <= k, k < SP.f_len(L),
                                                                     SP.f_at(L, k) == q))),
                               patterns=[kind(st, q)]))
        return Val(SP, L)

    @M.intrinsic('method:iterdir')
    def _iterdir(ex, st, args, kwargs, node):
        return children(ex, st, args[0].t)

    @M.intrinsic('next')
    def _next(ex, st, args, kwargs, node):
        s = args[0]
        if len(args) == 2:
            # next(it, None): tolerant form
            from pyvc.symexec import OptVal
            return OptVal(SP.f_len(s.t) > 0, Val(P, SP.f_at(s.t, 0)))
        ex.safety(st, SP.f_len(s.t) > 0, 'next() of a non-empty directory listing (StopIteration otherwise)', node)
        return Val(P, SP.f_at(s.t, 0))

    @M.intrinsic('method:with_suffix')
    def _ws(ex, st, args, kwargs, node):
        p = args[0].t
        return Val(P, join(parent(p), dinfo(stem(pname(p)))))

    @M.intrinsic('DataInfo.read_json')
    def _rj(ex, st, args, kwargs, node):
        ex.safety(st, kind(st, args[0].t) == FILE, 'DataInfo.read_json of an existing file (FileNotFoundError otherwise)', node)
        return Val(DI, DI.fresh('curdi'))

    @M.intrinsic('method:startswith')
    def _sw(ex, st, args, kwargs, node):
        return Val(TBool, is_data(args[0].t))

    @M.intrinsic('method:endswith')
    def _ew(ex, st, args, kwargs, node):
        return Val(TBool, is_data(args[0].t))

    @M.intrinsic('is_data_name')
    def _idn(ex, st, args, kwargs, node):
        return Val(TBool, is_data(pname(args[0].t)))

    @M.intrinsic('data_number')
    def _dn(ex, st, args, kwargs, node):
        return Val(TInt, num(pname(args[0].t)))

    class NumStr:
        def __init__(self, n):
            self.n = n

    @M.intrinsic('slice')
    def _slice(ex, st, args, kwargs, node):
        base, sl = args
        if isinstance(base, Val) and base.ty is TStr and ast.unparse(sl) == '4:-4':
            return NumStr(base.t)  # the digits between 'data' and '.csv'
        return NotImplemented

    @M.intrinsic('int')
    def _int(ex, st, args, kwargs, node):
        if isinstance(args[0], NumStr):
            return Val(TInt, num(args[0].n))
        raise OutOfSubset('int()')

    @M.intrinsic('method:replace')
    def _replace(ex, st, args, kwargs, node):
        v = args[0]
        return Val(v.ty, v.ty.fresh('replaced'))

    @M.intrinsic('write_csv')
    def _wcsv(ex, st, args, kwargs, node):
        ex.oblige(st, 'frame', 'the dataset is written under a fresh name: no stored dataset file is overwritten',
                  kind(st, kwargs['path'].t) == ABSENT, node.lineno, 'dataset csv path is fresh', keep=True)
        setk(st, kwargs['path'].t, FILE)
        effect(ex, st, 'write dataset csv', node)
        return Val(Mdl, Mdl.fresh('written'))

    # effects (statement level so that the crash obligation follows the state change) -----------
    @M.intrinsic('stmt-method:mkdir')
    def _mkdir(ex, st, call):
        if ex.mspec.name != 'store_model':
            return NotImplemented
        p = ex.eval(call.func.value, st)
        if not (isinstance(p, Val) and p.ty == P):
            return NotImplemented
        # mkdir(parents=True, exist_ok=True) raises FileExistsError if the path (or the parent) is a file
        ex.safety(st, z3.And(kind(st, p.t) != FILE, kind(st, parent(p.t)) != FILE),
                  'mkdir target and its parent are not files', call)
        setk(st, p.t, DIR)
        setk(st, parent(p.t), DIR)
        effect(ex, st, 'mkdir ' + ast.unparse(call.func.value), call)
        return [(st, ('next',))]

    _touch_pending = M.intrinsics['stmt-method:touch']

    @M.intrinsic('stmt-method:touch')
    def _touch(ex, st, call):
        if ex.mspec.name != 'store_model':
            return _touch_pending(ex, st, call)
        p = ex.eval(call.func.value, st)
        name_fs(st, z3.Store(fs(st), p.t, z3.If(kind(st, p.t) == ABSENT, FILE, kind(st, p.t))))
        effect(ex, st, 'touch ' + ast.unparse(call.func.value), call)
        return [(st, ('next',))]

    @M.intrinsic('stmt-method:to_json')
    def _to_json(ex, st, call):
        p = ex.eval(call.args[0], st)
        setk(st, p.t, FILE)
        effect(ex, st, 'write datainfo', call)
        return [(st, ('next',))]

    @M.intrinsic('stmt:write_model')
    def _wm(ex, st, call):
        p = ex.eval(call.args[1], st)
        setk(st, p.t, FILE)
        effect(ex, st, 'write model file', call)
        return [(st, ('next',))]


def _install_store():
    import ast
    import z3
    from pyvc import sym
    from pyvc.symexec import Val, OutOfSubset
    from pyvc.sym import TStr

    _symbolic_store()


try:
    import z3  # noqa: F401
    _install_store()
except ImportError:
    pass

c = M.contract('LocalModelDirectoryDatabaseTransaction.store_model', params={},
               loops=[Loop(counter='k0', seq='LISTING', inv=[
                   'highest >= 0',
                   'all(implies(is_data_name(LISTING[q]), data_number(LISTING[q]) <= highest) for q in range(k0))',
               ])])
c.monitor = 'store'
c.sidecar_module = 'contracts.modeldb'
