"""Contracts for the PENDING-marker protocol of
src/pharmpy/workflows/model_database/local_directory.py (serves C16): effect traces of
LocalModelDirectoryDatabase.transaction and .snapshot for every outcome."""
from pyvc.api import *

M = ModuleSpec('src/pharmpy/workflows/model_database/local_directory.py', prop='C16')
M.exec_class = 'monitor'
MONITORS = {}

TRUSTED = [
    'pathlib.Path operations are single abstract effects on an abstract file system; `/` is an '
    'uninterpreted injective-by-name join',
    'Path.touch(exist_ok=False) either creates the file or raises FileExistsError; Path.exists() is a '
    'pure read',
    '@contextmanager: code after `yield` runs only when the with-body ends normally unless it is in a '
    'finally block (an exception in the body is re-raised at the yield)',
    'the read/write path locks of C15',
]


def _symbolic():
    import z3

    from pyvc import sym
    from pyvc.monitor import TraceSpec, record
    from pyvc.symexec import NONE, SObj, Val, BoolV
    from pyvc.sym import TBool, TOpaque, TStr

    PathT = TOpaque('FsPath')
    KeyT = TOpaque('ModelKey')
    join = z3.Function('path_join', PathT.sort(), TStr.sort(), PathT.sort())
    keystr = z3.Function('key_str', KeyT.sort(), TStr.sort())
    keyof = z3.Function('ModelHash', TOpaque('Obj').sort(), KeyT.sort())

    class PendingProtocol(TraceSpec):
        def setup(self, ex, st):
            super().setup(ex, st)
            st.env['self'] = SObj('LocalModelDirectoryDatabase',
                                  {'path': Val(PathT, z3.Const('db_path', PathT.sort()))})
            for n, v in (('DIRECTORY_PHARMPY_METADATA', '.pharmpy'), ('FILE_PENDING', 'PENDING')):
                st.env[n] = Val(TStr, sym.str_lit(v))

    spec = PendingProtocol()
    MONITORS['pending'] = spec

    def pending_path(st):
        k = keystr(keyof(st.env['obj'].t))
        root = st.env['self'].fields['path'].t
        dest = join(join(root, k), sym.str_lit('.pharmpy'))
        return Val(PathT, dest), Val(PathT, join(dest, sym.str_lit('PENDING')))

    def exp_transaction(st, outcome):
        dest, pend = pending_path(st)
        head = [('mkdir', [dest]), ('enter:_write_lock', []), ('touch_excl', [pend])]
        if outcome == 'return':
            # commit: the marker is removed last, and only when the body did not raise
            return head + [('yield', [None]), ('unlink', [pend]), ('exit:_write_lock', [])]
        if outcome == 'body-raises':
            # abort: the marker STAYS so that no reader takes the entry for complete
            return head + [('yield', [None]), ('exit:_write_lock', [])]
        if outcome == 'PendingTransactionError':
            # the marker already existed: nothing is yielded, nothing is removed
            return head + [('exit:_write_lock', [])]
        return None

    def exp_snapshot(st, outcome):
        dest, pend = pending_path(st)
        head = [('mkdir', [dest]), ('enter:_read_lock', []), ('exists', [pend])]
        if outcome in ('return', 'body-raises'):
            return head + [('yield', [None]), ('exit:_read_lock', [])]
        if outcome == 'PendingTransactionError':
            return head + [('exit:_read_lock', [])]
        return None

    spec.expected = {'LocalModelDirectoryDatabase.transaction': exp_transaction,
                     'LocalModelDirectoryDatabase.snapshot': exp_snapshot}

    @M.intrinsic('ModelHash')
    def _mh(ex, st, args, kwargs, node):
        return Val(KeyT, keyof(args[0].t))

    @M.intrinsic('str')
    def _str(ex, st, args, kwargs, node):
        return Val(TStr, keystr(args[0].t))

    @M.intrinsic('binop:Div')
    def _div(ex, st, args, kwargs, node):
        a, b = args
        return Val(PathT, join(a.t, ex.to_term(b, TStr, st)))

    @M.intrinsic('method:mkdir')
    def _mkdir(ex, st, args, kwargs, node):
        record(st, 'mkdir', [args[0]])
        return NONE

    @M.intrinsic('method:unlink')
    def _unlink(ex, st, args, kwargs, node):
        record(st, 'unlink', [args[0]])
        return NONE

    @M.intrinsic('method:exists')
    def _exists(ex, st, args, kwargs, node):
        record(st, 'exists', [args[0]])
        st.mon['pending_seen'] = z3.Bool(sym.fresh_name('exists'))
        return Val(TBool, st.mon['pending_seen'])

    @M.intrinsic('stmt-method:touch')
    def _touch(ex, st, call):
        p = ex.eval(call.func.value, st)
        kw = {k.arg: ex.eval(k.value, st) for k in call.keywords}
        excl = 'exist_ok' in kw and z3.is_false(z3.simplify(ex.truthy(kw['exist_ok'], st)))
        record(st, 'touch_excl' if excl else 'touch', [p])
        res = [(st, ('next',))]
        if excl:
            fail = st.clone()
            fail.path.append(f'L{call.lineno}:exists')
            res.append((fail, ('raise', 'FileExistsError', call.lineno)))
        return res

    class Lock:
        def __init__(self, name):
            self.name = name

    def _mklock(name):
        def h(ex, st, args, kwargs, node):
            return Lock(name)
        return h

    M.intrinsics['method:_write_lock'] = _mklock('_write_lock')
    M.intrinsics['method:_read_lock'] = _mklock('_read_lock')

    @M.intrinsic('with')
    def _with(ex, st, cm, item, s):
        from pyvc.symexec import OutOfSubset
        if not isinstance(cm, Lock):
            raise OutOfSubset('with on unknown context manager')
        record(st, 'enter:' + cm.name, [])
        out = []
        for cur, sig in ex.exec_block(s.body, st):
            record(cur, 'exit:' + cm.name, [])
            out.append((cur, sig))
        return out

    for nm in ('LocalModelDirectoryDatabaseTransaction', 'LocalModelDirectoryDatabaseSnapshot'):
        def h(ex, st, args, kwargs, node):
            return Val(TOpaque('Handle'), TOpaque('Handle').fresh('handle'))
        M.intrinsics[nm] = h


try:
    import z3  # noqa: F401
    _symbolic()
except ImportError:
    pass

for q in ('LocalModelDirectoryDatabase.transaction', 'LocalModelDirectoryDatabase.snapshot'):
    c = M.contract(q, params={'obj': Opaque('Obj')})
    c.monitor = 'pending'
    c.sidecar_module = 'contracts.modeldb'
