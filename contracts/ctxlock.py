"""Contracts for the lock helpers of src/pharmpy/workflows/contexts/local_directory.py (serves C15/C16):
readers and writers of a shared file of the run context (log.csv, annotations) take the SAME lock file -
`<file with suffix .lock>` - shared for reading, exclusive for writing.  Paths and strings are abstract."""
from pyvc.api import *

M = ModuleSpec('src/pharmpy/workflows/contexts/local_directory.py', prop='C15')
MODULES_HERE = [M]
Ctx = Opaque('CtxObj')
PathT = Opaque('PathObj')
LockT = Opaque('PathLockCM')

TRUSTED = [
    'pathlib operations (with_suffix, with_name, name, touch), str() and string concatenation are uninterpreted '
    'functions of their arguments; path_lock(s, shared) is an abstract context manager determined by its arguments '
    '(its behaviour is what contracts/lock.py proves)',
]


def _symbolic():
    import z3
    from pyvc import sym
    from pyvc.symexec import Val, NONE
    from pyvc.sym import TBool, TStr

    P, L = PathT.resolve(), LockT.resolve()
    S = TStr.sort()
    with_suffix = z3.Function('with_suffix', P.sort(), S, P.sort())
    with_name = z3.Function('with_name', P.sort(), S, P.sort())
    name_of = z3.Function('path_name', P.sort(), S)
    to_str = z3.Function('path_str', P.sort(), S)
    concat = z3.Function('str_concat', S, S, S)
    lock = z3.Function('path_lock', S, z3.BoolSort(), L.sort())

    def isp(v):
        return isinstance(v, Val) and v.ty == P

    @M.intrinsic('method:with_suffix')
    def _ws(ex, st, a, kw, n):
        return Val(P, with_suffix(a[0].t, ex.to_term(a[1], TStr, st))) if isp(a[0]) else NotImplemented

    @M.intrinsic('method:with_name')
    def _wn(ex, st, a, kw, n):
        return Val(P, with_name(a[0].t, ex.to_term(a[1], TStr, st))) if isp(a[0]) else NotImplemented

    @M.intrinsic('attr:name')
    def _name(ex, st, a, kw, n):
        return Val(TStr, name_of(a[0].t)) if isp(a[0]) else NotImplemented

    @M.intrinsic('method:touch')
    def _touch(ex, st, a, kw, n):
        return NONE if isp(a[0]) else NotImplemented

    @M.intrinsic('binop:Add')
    def _add(ex, st, a, kw, n):
        if all(isinstance(v, Val) and v.ty is TStr for v in a):
            return Val(TStr, concat(a[0].t, a[1].t))
        return NotImplemented

    M.intrinsics['str'] = lambda ex, st, a, kw, n: Val(TStr, to_str(a[0].t)) if isp(a[0]) else a[0]

    def _path_lock(ex, st, a, kw, n):
        shared = kw.get('shared', a[1] if len(a) > 1 else None)
        sh = ex.truthy(shared, st) if shared is not None else z3.BoolVal(False)
        return Val(L, lock(ex.to_term(a[0], TStr, st), sh))

    M.intrinsics['path_lock'] = _path_lock


try:
    import z3  # noqa: F401
    _symbolic()
except ImportError:
    pass

LOCKFILE = "str(old(path).with_suffix('.lock'))"
M.contract('LocalDirectoryContext._read_lock', params={'self': Ctx, 'path': PathT}, returns=LockT,
           ensures=[f'result == path_lock({LOCKFILE}, shared=True)'])
M.contract('LocalDirectoryContext._write_lock', params={'self': Ctx, 'path': PathT}, returns=LockT,
           ensures=[f'result == path_lock({LOCKFILE}, shared=False)'])
